#!/usr/bin/env python3
"""Applies every seeded change under /verif/seeded to /repo (one at a time, always undone), runs the owning
property's check (or all checks with --all) and prints which checks report a violation.
Evidence files are saved and restored, so the committed evidence always describes the unchanged tree.
usage: tools/sweep_seeded.py [--tier quick|thorough] [--all] [--update-meta] [ids...]"""
import json, os, shutil, subprocess, sys, glob, re

V = os.path.dirname(os.path.dirname(os.path.abspath(__file__)))
R = '/repo'

def sh(*a, **k):
    return subprocess.run(a, stdout=subprocess.PIPE, stderr=subprocess.STDOUT, text=True, **k)

def main():
    args = sys.argv[1:]
    tier = 'quick'
    allp = False
    upd = False
    ids = []
    while args:
        a = args.pop(0)
        if a == '--tier': tier = args.pop(0)
        elif a == '--all': allp = True
        elif a == '--update-meta': upd = True
        else: ids.append(a)
    if sh('git', '-C', R, 'diff', '--quiet').returncode != 0:
        print('refusing: /repo has uncommitted changes'); return 4
    props = [c['property_id'] for c in json.load(open(V + '/MANIFEST.json'))['checks']]
    save = '/tmp/evidence_save_sweep'
    shutil.rmtree(save, ignore_errors=True)
    shutil.copytree(V + '/evidence', save)
    res = {}
    try:
        for d in sorted(glob.glob(V + '/seeded/*/')):
            mid = os.path.basename(d.rstrip('/'))
            if ids and mid not in ids and not any(mid.startswith(i) for i in ids): continue
            meta = json.load(open(d + 'meta.json'))
            owner = meta['property']
            r = sh('git', '-C', R, 'apply', d + 'patch.diff')
            if r.returncode != 0:
                print(mid, 'PATCH-DOES-NOT-APPLY', r.stdout.strip()[:200]); continue
            try:
                det = []
                lines = {}
                for p in (props if allp else [owner]):
                    if p not in props: continue
                    o = sh(V + '/vcheck', p, '--tier', tier, cwd=V)
                    vio = [l for l in o.stdout.splitlines() if l.startswith('VIOLATION')]
                    if o.returncode == 1 and vio:
                        det.append(p)
                        lines[p] = [l for l in o.stdout.splitlines() if re.match(r'\s+C\d\d-', l)][:4]
                    elif o.returncode != 0:
                        det.append(p + ':exit%d' % o.returncode)
                        lines[p] = o.stdout.splitlines()[-3:]
                res[mid] = det
                print(mid, 'owner=' + owner, 'DETECTED-BY' if det else 'MISSED', ' '.join(det))
                for p, ls in lines.items():
                    for l in ls: print('     ', l.strip()[:220])
                sys.stdout.flush()
                if upd:
                    meta['detected_by'] = det
                    meta['detected_tier'] = tier
                    json.dump(meta, open(d + 'meta.json', 'w'), indent=1)
            finally:
                sh('git', '-C', R, 'checkout', '--', '.')
    finally:
        shutil.rmtree(V + '/evidence')
        shutil.move(save, V + '/evidence')
    n = sum(1 for v in res.values() if v)
    print('detected %d of %d' % (n, len(res)))
    return 0

if __name__ == '__main__':
    sys.exit(main())
