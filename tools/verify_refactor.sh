#!/bin/sh
# usage: verify_refactor.sh <refactor id>... : apply the stored patch to a scratch worktree of /repo's HEAD, build, run the suite
for r in "$@"; do
  wt=/tmp/vfref_$r; rm -rf $wt
  git -C /repo worktree add --detach -f $wt HEAD >/dev/null 2>&1
  ( cd $wt && git apply /verif/refactors/$r/patch.diff && cmake -G Ninja -S . -B _build -DCMAKE_BUILD_TYPE=RelWithDebInfo >/dev/null 2>&1 && cmake --build _build -j8 2>&1 | grep -c "warning:" ; ctest --test-dir _build -j8 --timeout 900 2>&1 | grep "tests passed" ) | tr '\n' ' '; echo " <- $r"
  git -C /repo worktree remove --force $wt
done
