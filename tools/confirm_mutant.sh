#!/bin/bash
# usage: confirm_mutant.sh <worktree> <mN> [extra cflags] -- [run args]
# Confirms in the scratch worktree: demo passes on clean sources; with the patch the library builds, the suite passes, the demo fails.
WT="$1"; M="$2"; shift 2
XC=""; while [ $# -gt 0 ] && [ "$1" != "--" ]; do XC="$XC $1"; shift; done; [ "$1" = "--" ] && shift
RUNARGS="$@"
cd "$WT" || exit 9
D=MUTANTS/$M
git checkout -q -- src include
build() { cmake -G Ninja -S . -B _build -DCMAKE_BUILD_TYPE=RelWithDebInfo >/dev/null 2>&1 && cmake --build _build -j8 >/dev/null 2>&1; }
demo() { gcc -g -O1 $XC -I. -Iinclude $(pkg-config --cflags glib-2.0) $D/demo.c _build/libbidib_static.a $(pkg-config --libs glib-2.0) -lyaml -lpthread -ldl -o $D/demo_confirm 2>$D/confirm_cc.log; }
echo "== $WT $M"
build || { echo "RESULT baseline build failed"; exit 1; }
demo || { echo "RESULT demo does not compile (clean)"; cat $D/confirm_cc.log | head; exit 1; }
timeout 300 $D/demo_confirm $RUNARGS > $D/confirm_clean.out 2>&1; c0=$?
git apply $D/patch.diff || { echo "RESULT patch does not apply"; exit 1; }
build || { echo "RESULT mutant build failed"; git checkout -q -- src include; exit 1; }
ctest --test-dir _build -j8 --timeout 900 > $D/confirm_ctest.log 2>&1; ct=$?
demo
timeout 300 $D/demo_confirm $RUNARGS > $D/confirm_mutant.out 2>&1; c1=$?
git checkout -q -- src include
build
echo "RESULT $WT $M clean_demo_exit=$c0 suite_exit=$ct mutant_demo_exit=$c1 $( [ $c0 = 0 ] && [ $ct = 0 ] && [ $c1 != 0 ] && echo CONFIRMED || echo NOT-CONFIRMED )"
