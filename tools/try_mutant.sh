#!/bin/sh
# usage: try_mutant.sh <patch> <prop> [<prop>...]  : apply patch to /repo, run the quick checks, always undo
P="$1"; shift
git -C /repo apply "$(realpath "$P")" || { echo "patch does not apply"; exit 3; }
for p in "$@"; do
  ./vcheck "$p" --tier quick 2>&1 | grep -E "^(VIOLATION|ANALYSIS|KNOWN|  C[0-9]|C[0-9]+ )" | head -12
  echo "-> $p exit=$?"
done
git -C /repo checkout -- .
