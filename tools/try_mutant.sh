#!/bin/sh
# usage: try_mutant.sh <patch> <prop> [<prop>...]  : apply patch to /repo, run the quick checks, always undo (repo and evidence)
P="$1"; shift
if ! git -C /repo diff --quiet; then echo "refusing: /repo has uncommitted changes"; exit 4; fi
rm -rf /tmp/evidence_save && cp -r /verif/evidence /tmp/evidence_save
git -C /repo apply "$(realpath "$P")" || { echo "patch does not apply"; rm -rf /tmp/evidence_save; exit 3; }
for p in "$@"; do
  ./vcheck "$p" --tier quick 2>&1 | grep -E "^(VIOLATION|ANALYSIS|KNOWN|  C[0-9]|C[0-9]+ )" | head -12
  echo "-> $p done"
done
git -C /repo checkout -- .
rm -rf /verif/evidence && mv /tmp/evidence_save /verif/evidence
