#!/usr/bin/env python3
"""Generates /verif/MANIFEST.json from the table below (one place to keep claims, techniques and not-applicable reasons)."""
import json, os, sys

VERIF = os.path.dirname(os.path.dirname(os.path.abspath(__file__)))
sys.path.insert(0, VERIF)

TRUST = ("Trusted base: clang 14 front end and its debug info, the LLVM-14 IR reader (tools/irdump.cc), the Python analyses in /verif/vf, "
         "the rule tables documented in DESIGN.md. ")

CLAIMS = {
    "C11": dict(
        category="proof",
        technique="static analysis: path-sensitive lockset dataflow over LLVM IR, all functions x calling contexts; lock-order graph with modes",
        text=("Every path of every function in every calling context (function x bool/callback arguments x entry lockset) reachable from the "
              "154 public functions and the 3 internal thread roots is covered by an over-approximating lockset analysis: balance at every "
              "return, no release of a lock not held, no self-acquisition, acyclic mode-aware lock-order graph, initialisation before use, "
              "no polling for the receiver / joining while holding a lock that thread needs. Obligations = contexts + acquisition sites + "
              "order edges + init/wait/join sites; all must be discharged."),
        note=(TRUST + "Assumes user callbacks do not re-enter the library, glibc's default (reader-preferring) rwlocks, locks are the named "
              "globals (a lock passed by pointer makes the check exit 2). Unbounded waits that are not on locks (polling for an interface that never answers) are outside the statement."),
        design="DESIGN.md section 4, C11",
    ),
    "C10": dict(
        category="other",
        technique="static analysis: lock-contract check at call sites + context-sensitive pointer provenance to shared regions x locksets x thread classes (race rule)",
        text=("Decides the lock-discipline clause the property rests on: (CON) all documented 'Shall only be called with X acquired' contracts hold at "
              "every call site in every concurrent calling context; (ACC) for every field of every shared region, no two accesses from thread classes "
              "that can run in parallel, one of them a write, lack a common protecting lock; (POP) queue removals hold the queue mutex; (FLAG) the "
              "lock-free flags are volatile single-byte objects. Linearizability of getter results beyond 'copied inside one critical section' and "
              "multi-entity snapshots are not decided."),
        note=(TRUST + "Region->lock table (DESIGN 2.1) cross-checked against majority inference on every run; README exclusivity of start/stop/sys_reset; "
              "glib containers reached only through tabled globals; provenance of values returned by unknown externals is 'unknown' (not a region)."),
        design="DESIGN.md section 4, C10",
    ),
}

NOT_APPLICABLE = {
    "C14": ("Biconditional over all configurations plus value equality between YAML content and getter output: no clause is decided by program "
            "shape alone. Structural neighbours (error propagation, parser range checks tied to memory safety, crash freedom of rejection paths) are hosted under C13/C09 and are not a claim on C14."),
}

PENDING = "check not built yet in this session (planned: DESIGN.md section 4); not claimed until its driver exists"


def main():
    props = [json.loads(l) for l in open(os.path.join(VERIF, "properties.jsonl"))]
    checks = []
    na = []
    for p in props:
        pid = p["id"]
        c = CLAIMS.get(pid)
        have = os.path.exists(os.path.join(VERIF, "vf", "props", pid.lower() + ".py"))
        if c and have:
            checks.append({
                "property_id": pid,
                "quick_cmd": "./vcheck %s --tier quick" % pid,
                "thorough_cmd": "./vcheck %s --tier thorough" % pid,
                "evidence_file": "evidence/%s.json" % pid,
                "replay_cmd_template": "./vcheck %s --explain {path}" % pid,
                "engine": "vcheck",
                "level_claimed": {"category": c["category"], "text": c["text"], "design_ref": c["design"]},
                "level_note": c["note"],
                "technique": c["technique"],
            })
        else:
            na.append({"property_id": pid, "reason": NOT_APPLICABLE.get(pid, PENDING)})
    m = {
        "version": 1,
        "setup_cmd": "./setup.sh",
        "hooks": {
            "guard": "UNIBA_SWT_LIBBIDIB_VERIF",
            "enable": "checks compile /repo's sources to LLVM IR with -DUNIBA_SWT_LIBBIDIB_VERIF; no source line refers to the guard (no hooks were needed)",
            "baseline_off_cmd": "./run_baseline.sh",
            "source_commits": [],
            "add_only": True,
        },
        "engines": [{
            "name": "vcheck", "path": "vcheck", "serves_properties": [c["property_id"] for c in checks],
            "kind_free_text": "static analysis over LLVM IR (-O0 -g) of all 30 units: irdump (C++/LLVM-14 API) -> JSON program model -> Python analyses "
                              "(lockset dataflow, path rules, provenance, abstract interpretation)"}],
        "checks": checks,
        "not_applicable": na,
        "notes": "Static analysis only; see DESIGN.md. Exit 0 = all obligations discharged (KNOWN-FINDING lines for listed findings), 1 = VIOLATION, 2 = analysis broken (never a pass).",
    }
    with open(os.path.join(VERIF, "MANIFEST.json"), "w") as f:
        json.dump(m, f, indent=1)
    try:
        import jsonschema
        jsonschema.validate(m, json.load(open("/root/.vp/MANIFEST.schema.json")))
        print("manifest valid: %d checks, %d not applicable" % (len(checks), len(na)))
    except ImportError:
        print("manifest written (jsonschema not available): %d checks" % len(checks))


if __name__ == "__main__":
    main()
