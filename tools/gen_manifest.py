#!/usr/bin/env python3
"""Generates /verif/MANIFEST.json from the table below (one place to keep claims, techniques and not-applicable reasons)."""
import json, os, sys

VERIF = os.path.dirname(os.path.dirname(os.path.abspath(__file__)))
sys.path.insert(0, VERIF)

TRUST = ("Trusted base: clang 14 front end and its debug info, the LLVM-14 IR reader (tools/irdump.cc), the Python analyses in /verif/vf, "
         "the rule tables documented in DESIGN.md. ")

CLAIMS = {
    "C07": dict(
        category="other",
        technique="static analysis: record-window/stride inequality over induction variables of list-walking loops, provenance of every state write in the message-effect functions to a keyed lookup with dominating non-NULL test (interprocedural through helpers), path-segment write sets of boolean status fields (co-occurrence belief), interval-by-interval comparison of sibling conversion ladders, must-pass-through of the optimistic update",
        text=("Decides structural necessary conditions only: list payloads are walked in non-overlapping record windows (no byte read in two roles); in the 21 message-effect functions "
              "every write to tracked state goes through a keyed-lookup reference behind its non-NULL test, so unknown keys write nothing; status flags assigned together on one path are "
              "assigned together on every path raising one of them; the two current-code ladders agree on all 22 interval/assignment pairs; the optimistic update runs on exactly the "
              "submitting paths. Conversion values against the BiDiB tables, reset values and order dependence of the fold are not decided."),
        note=TRUST + "Effect functions = void functions of src/state called by the dispatcher plus the two optimistic-update entry points.",
        design="DESIGN.md section 4, C07",
    ),
    "C09": dict(
        category="other",
        technique="static analysis: constant-propagating path walk of every command function (result vs. submit calls vs. direct state writes), must-pass-through of the optimistic update, who-may-compare rule for identifier matching with canary, interval analysis of the speed magnitude and calibration subscript, parser-derived field invariants (function bit <= 31, calibration length) by exact state-machine walk, range tiling of the function-group ladder, provenance of destinations to a connected board's stored address",
        text=("Decides structural necessary conditions only: in the 15 command functions a non-zero result implies no submit and no state write, a zero result implies a submit call (83 paths); "
              "every submit takes its destination from a configured board's stored address behind that board's connected test; identifiers are compared exactly (115 sites); the speed "
              "magnitude handed to the encoder is within 0..126 and the calibrated step index within the parser-guaranteed list length; each function-group branch preserves the bits of "
              "its group byte that the branch can be handling, and the group index is bounded by the parser's bit <= 31 rule. Encoded values (aspect bytes, speed byte, function bits) are not decided."),
        note=TRUST + "Two construction-table exemptions (DCC accessory state exists for every DCC mapping) are listed in the evidence notes.",
        design="DESIGN.md section 4, C09",
    ),
    "C13": dict(
        category="other",
        technique="static analysis: lockset balance over the start call tree, constant-propagating path walk of the start functions (error => stop, result in {0,1}), result-consumption rule, loop-progress rule, exact exploration of the parser state machines with NULL/uninitialised tracking of record fields (incl. by-value callees in the caller's abstract record), by-value double-free rule",
        text=("Decides: all 281 contexts of the start call tree return with their entry lockset; error paths of both start functions call stop and results are 0/1; results of parser/"
              "validation/registration functions are consumed; every parser loop consumes an event or counts; in 41 parser/registration functions no pointer field of a record under "
              "construction is dereferenced, compared or freed while NULL/uninitialised on any abstract path (free helpers analysed in the caller's record); a record handed by value to "
              "its free helper is not freed again. Memory release and raw byte noise inside libyaml are not decided."),
        note=TRUST + "Allocation failure is out of scope; glib accessors are assumed to return non-NULL for non-NULL containers.",
        design="DESIGN.md section 4, C13",
    ),
    "C14": dict(
        category="other",
        technique="static analysis: who-appends rule over the configuration registries with membership-test scope (which containers the duplicate test scans), per-record key-comparison rule on the parser's list appends (incl. comparison helpers), exhaustive evaluation of range guards over all byte values, exact-string-comparison lint, explicit-base rule on the strtol-family calls of the parsers, container agreement and count/fill agreement of the enumeration getters",
        text=("Decides the structural part of the rejection clauses and of the getters, not the biconditional: every append to a global registry (boards, trains, points, signals, "
              "peripherals, segments, reversers) lies behind negative membership tests on the keys the statement names, and the test on a DCC address looks through trains and both "
              "kinds of DCC accessories, the test on a point/signal id through both kinds of points/signals; every per-board / per-train list append is accompanied by a comparison "
              "of each named key (number, port, address, CV, aspect id/value, function id/bit) with the existing entries whose match raises the error result; the guards on function "
              "bits and speed steps accept exactly 0..31 and {14, 28, 126}; ids are matched with exact string comparison only; in the enumeration getters the containers whose "
              "length sizes the result are the containers walked, and two-pass getters count and fill under the same nesting and tests. Not decided: that every well-formed "
              "configuration is accepted, the digit arithmetic of the text-to-number conversion beyond its base (every strtol-family call of the parsers names base 10 or 16, so a leading zero is never read as octal), calibration length, cross-file board consistency beyond the lookup, and equality "
              "of getter output with the declared values."),
        note=TRUST + "The key lists per record type and the documented ranges are transcribed from the property statement (vf/props/c14.py LOCAL_KEYS / REG_KEYS / RANGES).",
        design="DESIGN.md section 4, C14",
    ),
    "C08": dict(
        category="other",
        technique="static analysis: who-may-write on the derived fields, per-iteration must-assign and guard-independence of the derivation, must-follow path rule (mutation -> derivation before unlock), path-sensitive walk with constant propagation for 'marked free => list emptied' incl. helper summaries",
        text=("Decides: on_track/orientation are written only by the derivation, the reset and creation code; the derivation assigns on_track on every path of every iteration, "
              "orientation with every on_track=true, and no assignment depends on the old derived values; every address-list mutation is followed by the derivation before the "
              "segment/train mutexes are released; whenever a segment is marked free (directly or through a helper) its address list is emptied or known empty on that path. "
              "Equality of the reported position set with the lists is not decided."),
        note=TRUST,
        design="DESIGN.md section 4, C08",
    ),
    "C16": dict(
        category="other",
        technique="static analysis: partial order of call sites by dominance in the stop routine, guard provenance (running flag), thread-handle typestate (create/join/reset), ownership rule for queue entries, alloc/free pairing of global containers over the start and stop call trees",
        text=("Decides: stop commands soft-stop < flush < zero speed < flush < track-off < flush < running=false < every join < every free; start bodies guarded by !running and the stop body "
              "by running; every created thread handle is joined behind a creation test and reset afterwards; an entry owning a heap buffer is never freed without it (also not via "
              "g_queue_free_full(.., free)); every global container allocated on the start path is freed on the stop path. Traffic content and full leak freedom are not decided."),
        note=TRUST,
        design="DESIGN.md section 4, C16",
    ),
    "C20": dict(
        category="other",
        technique="static analysis: dominance/post-dominance partial order in the reset routine, guard and argument provenance of the feature transmit, loop-nesting rule (no re-send in the answer wait loop), who-may-mutate the configured lists, call-site guard in the start functions",
        text=("Decides: reset message and table reset < enumeration < features < enable < GO < flush < initial values, each on every path; features only behind the board's connected test, to that "
              "board's address, number/value from one record, not re-sent inside the wait loop; initial values only through public high-level setters over all four lists; configured lists "
              "not modified after parsing; both start functions reach the reset routine only on the connection-established branch. 'Exactly once' per configuration is not decided."),
        note=TRUST,
        design="DESIGN.md section 4, C20",
    ),
    "C17": dict(
        category="other",
        technique="static analysis: forward must-initialised dataflow over the leaves of every result type (DWARF), per-iteration must-analysis for result arrays, entity-field read coverage, pointer provenance (allocator-only) and shallow-copy detection, structural comparison of count and fill guards",
        text=("Decides for all 41 struct-returning public getters, the 8 snapshot helpers and the 11 free functions: every leaf of every result assigned on every return path; every leaf of every "
              "array element assigned per iteration and, in snapshot helpers, unconditionally; single getters read every data field of the looked-up entity; pointer leaves of results "
              "only from allocators/NULL and no shallow block copy of pointer-bearing elements from library state; list length and fill loop guarded identically; no double free. "
              "Equality of values at a quiescent moment is not decided."),
        note=TRUST + "Leaves come from DWARF type info of the result types; padding bytes are not leaves.",
        design="DESIGN.md section 4, C17",
    ),
    "C18": dict(
        category="other",
        technique="static analysis: interval abstract interpretation with relational guard facts at all constructor call sites and in the encoders (length, VLA and array bounds), literal-type rule, CFG path rule (one transmit, none after rejection), exhaustive constant-propagation over 0..255 of documented parameter ranges",
        text=("Decides for all 73 constructor call sites / 66 encoders: literal type < 0x80; payload length <= 121 (length byte <= 127, no 8-bit wrap); at most one transmit per path and "
              "none after a logged rejection; every variable subscript of encoder/constructor arrays and VLAs in range (call-site bounds used as parameter ranges); no negative index into "
              "caller buffers; the accepted set of every documented 'range A...B / divisible by N' parameter equals the documented set for all 256 values. That the bytes are the specified "
              "encoding is value-level and not decided."),
        note=TRUST + "Encoders with struct parameters (cs_drive, cs_pom ...) have no machine-readable range documentation; their checks are covered by ONE/LEN/BND only.",
        design="DESIGN.md section 4, C18",
    ),
    "C12": dict(
        category="other",
        technique="static analysis: interval abstract interpretation with guard facts over the receiver thread's call tree (table subscripts, packet reads), length-guard dominance for message field reads, NULL-guard dominance for lookup results, lockset balance of receiver contexts, loop-progress rule",
        text=("Decides over all paths of everything the receiver thread executes: variable subscripts of fixed tables/arrays in range; packet reads below the packet size; "
              "message field reads covered by a length guard (none exist: 25 cases + 3 unbounded address scans are recorded known findings, each demonstrated under ASan); lookup "
              "results dereferenced only behind NULL tests (5 configuration-derived sites listed with reasons); receiver contexts return with their entry lockset; receive loops "
              "read or count. It does not explore byte streams: these are the bounds any stream would have to violate."),
        note=TRUST + "Known findings: 28 entries (C12-LEN per dispatcher case, C12-SCAN per helper) in known_findings.json; demonstration in findings/c12_demo.c.",
        design="DESIGN.md section 4, C12",
    ),
    "C02": dict(
        category="other",
        technique="static analysis: guard-dominance (CRC gate), same-block fold pairing, path rules (raw-byte tests, exactly-one dispatch, CRC-independent return), interval abstract interpretation (bounds, progress)",
        text=("Decides: dispatch only on the 'CRC accumulator == 0' edge; every stored packet byte folded into the accumulator; delimiter/escape tests see the raw byte; "
              "receiver un-escapes with 0x20 and tests 0xFE/0xFD; each split message dispatched exactly once on every path; a CRC failure returns like a good packet; "
              "packet buffer index bounded; split loop advances by >= 1 byte. Stream order, field equality and round-trip with the sender are not decided."),
        note=TRUST + "Interval engine assumptions: 64-bit counters do not wrap; allocation failure out of scope.",
        design="DESIGN.md section 4, C02",
    ),
    "C15": dict(
        category="other",
        technique="static analysis: dispatcher path summaries (ack once, to sender, with announced version, flushed), field writer roles + write-lock mode, guard-dominance of board-addressed sends by the connected flag, drain-before-restart path rule",
        text=("Decides: node-new/lost dispatch updates the table once and acknowledges once to the sender with the announced version and flushes; connected/node_addr have fixed "
              "writer roles and are written under the boards write lock; an address is assigned only where the board is marked connected; every message addressed to a board's "
              "stored address is sent behind a test of that board's connected flag; a restart of the enumeration empties the pending sub-interface list first. Correctness for all "
              "trees and event sequences is not decided."),
        note=TRUST,
        design="DESIGN.md section 4, C15",
    ),
    "C19": dict(
        category="other",
        technique="static analysis: dispatcher path summaries per report type, guard provenance (secack_on of the sender's board), argument provenance (report bytes in order), who-may-call, who-may-write",
        text=("Decides for the four occupancy report types: mirror sent exactly on the paths where the sender board's secack_on flag is true, at most once, of the matching type, with the "
              "sender's address and the report's leading data bytes in order, followed by a flush; mirror encoders have no other caller; secack_on written only by the board parser "
              "(false at creation, true under feature 0x03 with value > 0). Delivery under stall/budget exhaustion is not decided."),
        note=TRUST,
        design="DESIGN.md section 4, C19",
    ),
    "C01": dict(
        category="other",
        technique="static analysis: lockset/region discipline, escape-guard and CRC-fold data-flow rules over the flush routine, reference CRC table, stale-index and capacity-guard path rules",
        text=("Decides, over all paths of the sender's functions: the send-buffer mutex covers every access to batch/staging buffer, fill index, capacity and every "
              "write-callback call (no torn/interleaved packets); the CRC table equals CRC-8/0x8C computed by the checker; every byte stored to the staging buffer is a "
              "delimiter literal, escape prefix + v^0x20, or guarded against 0xFE/0xFD (payload and CRC trailer); the emitted byte is the byte folded into the CRC; the "
              "append offset is the current fill index (no stale copy across a flush); appends happen behind the capacity comparison and capacity stores are >= 64; "
              "appends happen only behind admission. 'Exactly once' and byte identity with the arguments are value-level and not decided."),
        note=TRUST + "Roles (flush routine, staging/batch buffer, fill index) are located structurally; if a role cannot be located the check exits 2.",
        design="DESIGN.md section 4, C01",
    ),
    "C03": dict(
        category="other",
        technique="static analysis: who-may-write + guard-dominance on the budget counter, queue API typestate, must-pass-through (retry after release), value provenance of expiry clock",
        text=("Decides structural necessary conditions of the per-node response budget: counter written only as =0 / +=r behind 'counter+r<=48' with the same r / -=r; r always "
              "bidib_response_info[type][1]; deferred and awaited queues used as FIFOs of fresh entries; admission 'true' only behind an empty deferred queue; a deferred "
              "message leaves the queue only where it is transmitted; every release of budget is followed by a retry before the mutex is dropped; expiry age counts from "
              "admission time. The 48-byte bound over histories, expiry timing and answer matching are not decided."),
        note=TRUST + "Roles located by field use (current_max_respond, message_queue, response_queue).",
        design="DESIGN.md section 4, C03",
    ),
    "C04": dict(
        category="other",
        technique="static analysis: guard-dominance of transmit points by the stall check (interprocedural), loop/registration path rules, drain must-pass-through, constant-propagating walk of the dispatcher",
        text=("Decides: every append to the wire buffer is gated by a successful stall check (in the function or at all call sites); the stall check walks ancestors and "
              "registers the waiter before reporting 'stalled'; clearing a stall drains the waiter list until empty and retries each waiter; the stall flag has two writers; "
              "MSG_STALL always reaches the stall handler (debug mode too). Nested stall histories are not decided."),
        note=TRUST + "Reading note: the ancestor walk stops at address byte 0, so a stall reported by the root interface is never consulted (not decidable by a path rule).",
        design="DESIGN.md section 4, C04",
    ),
    "C05": dict(
        category="other",
        technique="static analysis: critical-section span rule on the lockset engine, inductive store invariant on the counter, dominance (reset before enumeration)",
        text=("Decides the structural necessary conditions of consecutive numbering: one lock must span allocation..hand-off (SPAN; today violated by design and recorded as "
              "known findings), counter stores keep it in [1,255] with wrap 255->1, 0 stamped only when numbering is disabled, node table reset precedes re-enumeration, "
              "counter accessed under the node-table mutex. Consecutiveness of concrete transcripts under every schedule is not decided."),
        note=TRUST + "Known findings: three C05-SPAN entries in known_findings.json (non-atomic allocate/admit/append).",
        design="DESIGN.md section 4, C05",
    ),
    "C06": dict(
        category="other",
        technique="static analysis: exhaustive path-sensitive walk of the dispatcher for all 256 type codes (ownership typestate), README table cross-check, queue API/eviction/ownership rules",
        text=("For each of the 256 type codes, on every path of the dispatcher the buffer is consumed exactly once and never used afterwards; destinations agree with the README "
              "lists parsed at run time; destination-selecting branches depend on message bytes only; debug shortcut for all types but MSG_STALL; uplink queues FIFO-only, "
              "eviction test (128) precedes push, reader returns the stored buffer and frees only the entry, every queue access under the queue mutex. Byte equality is not decided."),
        note=TRUST + "Message type names from clang -E -dM; several macro names share values (category bases).",
        design="DESIGN.md section 4, C06",
    ),
    "C11": dict(
        category="proof",
        technique="static analysis: path-sensitive lockset dataflow over LLVM IR, all functions x calling contexts; lock-order graph with modes",
        text=("Every path of every function in every calling context (function x bool/callback arguments x entry lockset) reachable from the "
              "154 public functions and the 3 internal thread roots is covered by an over-approximating lockset analysis: balance at every "
              "return, no release of a lock not held, no self-acquisition, acyclic mode-aware lock-order graph, initialisation before use, "
              "no polling for the receiver / joining while holding a lock that thread needs. Obligations = contexts + acquisition sites + "
              "order edges + init/wait/join sites; all must be discharged."),
        note=(TRUST + "Assumes user callbacks do not re-enter the library, glibc's default (reader-preferring) rwlocks, locks are the named "
              "globals (a lock passed by pointer makes the check exit 2). Unbounded waits that are not on locks (polling for an interface that never answers) are outside the statement."),
        design="DESIGN.md section 4, C11",
    ),
    "C10": dict(
        category="other",
        technique="static analysis: lock-contract check at call sites + context-sensitive pointer provenance to shared regions x locksets x thread classes (race rule)",
        text=("Decides the lock-discipline clause the property rests on: (CON) all documented 'Shall only be called with X acquired' contracts hold at "
              "every call site in every concurrent calling context; (ACC) for every field of every shared region, no two accesses from thread classes "
              "that can run in parallel, one of them a write, lack a common protecting lock; (POP) queue removals hold the queue mutex; (FLAG) the "
              "lock-free flags are volatile single-byte objects. Linearizability of getter results beyond 'copied inside one critical section' and "
              "multi-entity snapshots are not decided."),
        note=(TRUST + "Region->lock table (DESIGN 2.1) cross-checked against majority inference on every run; README exclusivity of start/stop/sys_reset; "
              "glib containers reached only through tabled globals; provenance of values returned by unknown externals is 'unknown' (not a region)."),
        design="DESIGN.md section 4, C10",
    ),
}

# rules added after the first round of independent seeded changes (appended to the claim texts and techniques above)
ADDED = {
    "C01": (" Also: every path through the append routine appends (an admitted message is never dropped); the CRC accumulator is not re-initialised between a fold and the trailer. "
            "Single-caller static helpers of the sender unit are inlined into their callers before the rules run.",
            "; must-pass-through (append), re-initialisation path rule, model-level inlining of helpers"),
    "C02": (" Also: a polled byte is used only after the success flag of that poll was tested; every byte is compared with the delimiter before it can be stored as payload.",
            "; taint path rule on the read callback's result, delimiter must-pass-through"),
    "C04": (" Also: held messages leave their queue first-in-first-out and are never overtaken by a directly admitted one; every path through the stall-notice handler records the notice.",
            "; FIFO/no-overtake rule on the deferred queue, must-write path rule in the stall handler"),
    "C05": (" Also: no message overtakes held ones (numbers are stamped before admission), the append routine never drops a numbered message, the message is assembled in storage private to the call.",
            "; no-overtake and must-append rules, provenance of the assembly buffer"),
    "C06": (" The 128 bound may equally be enforced by a trim loop after the append, provided every wrapper runs it before releasing the queue mutex (path-sensitive must-follow).",
            "; path-sensitive must-follow (trim before unlock)"),
    "C08": (" The must-follow rule follows boolean 'changed' flags and helper results exactly (|= accumulates, = does not).",
            "; constant-propagating pending-event walk with helper summaries"),
    "C09": (" Also: every node-new notice for a configured board rewrites the stored address the commands use.",
            "; must-write path rule in the connect routine"),
    "C10": (" Also: the user's write callback is only invoked with the send-buffer mutex held (never by two threads at once); a value read from a shared field in one critical section and written back modified in a later one (value flow through the caller's locals) is covered by a lock held exclusively across both (no lost update).",
            "; lockset at every callback invocation, split read-modify-write rule (frame-level value flow x locksets)"),
    "C12": (" Also: every byte is compared with the packet delimiter before it can be stored as payload (a packet cut off after an escape byte cannot swallow the next one).",
            "; delimiter must-pass-through"),
    "C13": (" Also: every file / YAML parser opened while reading the configuration is closed / deleted on every path, with the acquiring helper analysed inlined into its callers.",
            "; acquire/release typestate over all paths with constant propagation and helper inlining"),
    "C15": (" Also: in the connect / lost routines every path on which the board lookup succeeded writes the connected flag and (connect) the node address, unless it first compared the current value.",
            "; must-write path rule behind the found edge"),
    "C16": (" Also: in the start routines every call that changes library state lies inside the !running guard (start while running is a no-op).",
            "; effect summary + guard dominance in the start routines"),
    "C17": (" Also: once the entity was found, no path of a single getter returns without reading every copied field (no early return on another field of the entity). Void static copy helpers are inlined into their callers first.",
            "; must-read path rule behind the found edge, model-level inlining of copy helpers"),
    "C18": (" Also: bit-layout documentation ('100HHHHH, value range 0...23') is turned into the accepted byte set; the message is assembled in storage private to the call; mutable global arrays used by the constructors are bounds-checked as well.",
            "; bit-layout range oracle, provenance of the assembly buffer"),
    "C19": (" The flush may sit in the dispatcher's caller if every path with a buffered mirror reaches it (boolean result / flag correlation followed exactly).",
            "; path-sensitive must-follow across the dispatcher's return value"),
    "C20": (" Also: no initial-value command is issued under a condition on tracked feedback state; the connected flag / node address that gate and direct the start-up commands have fixed writers.",
            "; guard-provenance rule (no feedback state), writer roles of the gating fields"),
}
for _k, (_t, _q) in ADDED.items():
    CLAIMS[_k]["text"] = CLAIMS[_k]["text"] + _t
    CLAIMS[_k]["technique"] = CLAIMS[_k]["technique"] + _q

# rules added in session 3 (DESIGN.md section 4 marks each "added in session 3")
ADDED3 = {
    "C01": (" The message a packet is built from is assembled in storage private to the call.", "; provenance of the assembly buffer"),
    "C02": (" Also: every byte poll that follows a delimiter finds the per-packet framing locals (index, escape flag, CRC accumulator, oversize flag) at their initial values; "
            "the field extractors derive seq/type/data from the established position of the address terminator at offsets +1/+2/+3.",
            "; path-sensitive abstract interpretation of the framing locals (constant / non-zero / overwritten), forward must-analysis of the terminator offset"),
    "C03": (" Also: budget is released only behind the match of the received type with the oldest request's table-defined answers or behind that request's age test.",
            "; guard-on-all-paths rule for the release"),
    "C04": (" Also: a 'ready' result outside the ancestor walk is accepted only for a shortcut on the arguments or on a global counter that provably mirrors the stall flags.",
            "; dominance of the walk over 'ready' results, counter-discipline rule"),
    "C07": (" Also: no direction flag is computed from the decoded speed; a failed lookup never ends a walk over a container; a lookup memo is forgotten by every writer of what the lookup reads.",
            "; expression-provenance rule, loop-exit rule on NULL lookups, memo-invalidation rule over all writers"),
    "C08": (" Also: the position / on-track getters size and fill their results from the same containers, at the same loop depth and under the same record tests; a failed lookup never ends a walk.",
            "; container and count/fill agreement with helper inlining, loop-exit rule on NULL lookups"),
    "C09": (" Also: no direction flag from the decoded speed; no transmit guarded by tracked feedback state; string parameters reach string functions only behind a NULL test.",
            "; expression provenance, control-dependence guard-provenance rule, interprocedural NULL-parameter rule"),
    "C12": (" Also: buffers written with an extent taken from the length byte (formatted dumps, block copies) are sized by an expression that covers it; a loop that runs until a queue is empty never appends to that queue.",
            "; linear-form comparison of allocation size and write extent (format strings evaluated), drain-loop rule"),
    "C15": (" Also: the node-table query queues every interface row for enumeration independently of the configured-board lookup.", "; control-dependence rule on the enqueue"),
    "C16": (" Also: no shutdown command is guarded by tracked feedback state.", "; control-dependence guard-provenance rule"),
    "C17": (" Also: a result field copied from an entity comes from the entity's member of the same name when one exists; string parameters of the getters reach string functions only behind a NULL test (also inside the lookups they are handed to).",
            "; same-name copy rule over expression provenance, interprocedural NULL-parameter rule"),
    "C18": (" Also: local arrays / VLAs / heap blocks that receive a data-dependent number of bytes on the encoders' call tree are sized by an expression that covers it.",
            "; linear-form comparison of allocation size and write extent"),
    "C19": (" When the guarding flag is computed by a helper, every path through the helper consults the sender board.", "; must-pass-through of the board lookup in flag helpers"),
    "C20": (" Also: the feature answers are awaited before the enable step; no start-up command is guarded by tracked feedback state.", "; dominance of the answer wait over enable, control-dependence guard-provenance rule"),
}
ADDED4 = {
    "C02": (" The address extractor writes all bytes of the splitter's address array per message (copy + zero padding).", "; must-write (padding loop) rule on the extractor's output"),
    "C03": (" Every received message passes the node-state update between its allocation and its dispatch.", "; must-pass-through in the splitter"),
    "C05": (" The numbering switch is only ever assigned constants.", "; constant-store rule on the switch"),
    "C09": (" No range check is applied to a narrowed copy of a wider value that may not fit.", "; interval analysis at narrowing conversions feeding comparisons"),
    "C10": (" A tracked-state store that follows the submit of a message in the same function is made under a lock already held exclusively at the submit.",
            "; lockset comparison between submit and later store per concurrent frame"),
    "C12": (" The splitter allocates each message with (length byte + 1) bytes.", "; symbolic size check of the message allocation"),
    "C13": (" Also: a record is appended to a list only with the pointer members non-NULL that a free routine dereferences without a test; every printf-style call has a literal format; "
            "both start functions store the same constants to the same globals.",
            "; consumer-derived non-NULL obligations at list appends, format-argument lint over wrappers, sibling agreement of the start functions"),
    "C16": (" Both start functions store the same constants to the same library globals.", "; sibling agreement of the start functions"),
    "C20": (" The loops applying the initial values are left only through their own bound.", "; loop-exit rule in the initial-value routine"),
}
for _k, (_t, _q) in ADDED3.items():
    CLAIMS[_k]["text"] = CLAIMS[_k]["text"] + _t
    CLAIMS[_k]["technique"] = CLAIMS[_k]["technique"] + _q
for _k, (_t, _q) in ADDED4.items():
    CLAIMS[_k]["text"] = CLAIMS[_k]["text"] + _t
    CLAIMS[_k]["technique"] = CLAIMS[_k]["technique"] + _q

NOT_APPLICABLE = {}

PENDING = "check not built yet in this session (planned: DESIGN.md section 4); not claimed until its driver exists"


def main():
    props = [json.loads(l) for l in open(os.path.join(VERIF, "properties.jsonl"))]
    checks = []
    na = []
    for p in props:
        pid = p["id"]
        c = CLAIMS.get(pid)
        have = os.path.exists(os.path.join(VERIF, "vf", "props", pid.lower() + ".py"))
        if c and have:
            checks.append({
                "property_id": pid,
                "quick_cmd": "./vcheck %s --tier quick" % pid,
                "thorough_cmd": "./vcheck %s --tier thorough" % pid,
                "evidence_file": "evidence/%s.json" % pid,
                "replay_cmd_template": "./vcheck %s --explain {path}" % pid,
                "engine": "vcheck",
                "level_claimed": {"category": c["category"], "text": c["text"], "design_ref": c["design"]},
                "level_note": c["note"],
                "technique": c["technique"],
            })
        else:
            na.append({"property_id": pid, "reason": NOT_APPLICABLE.get(pid, PENDING)})
    m = {
        "version": 1,
        "setup_cmd": "./setup.sh",
        "hooks": {
            "guard": "UNIBA_SWT_LIBBIDIB_VERIF",
            "enable": "checks compile /repo's sources to LLVM IR with -DUNIBA_SWT_LIBBIDIB_VERIF; no source line refers to the guard (no hooks were needed)",
            "baseline_off_cmd": "./run_baseline.sh",
            "source_commits": [],
            "add_only": True,
        },
        "engines": [{
            "name": "vcheck", "path": "vcheck", "serves_properties": [c["property_id"] for c in checks],
            "kind_free_text": "static analysis over LLVM IR (-O0 -g) of all 30 units: irdump (C++/LLVM-14 API) -> JSON program model -> Python analyses "
                              "(lockset dataflow, path rules, provenance, abstract interpretation)"}],
        "checks": checks,
        "not_applicable": na,
        "notes": ("Static analysis only; see DESIGN.md. Exit 0 = all obligations discharged (KNOWN-FINDING lines for listed findings), 1 = VIOLATION, 2 = analysis broken (never a pass). "
                  "If the program as written does not satisfy a check, the same rules are re-run on a canonical form in which static helpers that do not exist at the pinned commit "
                  "(reference_functions.json) are inlined; a violation is reported only if both forms fail (DESIGN.md section 13). The thorough tier additionally re-applies the seeded "
                  "changes of the property (seeded/) to a scratch copy of the current tree and requires that they are still reported (DESIGN.md section 11.2). "
                  "Self-test suites: seeded/ (must be reported) and refactors/ (must stay silent), driven by tools/sweep_par.py."),
    }
    with open(os.path.join(VERIF, "MANIFEST.json"), "w") as f:
        json.dump(m, f, indent=1)
    try:
        import jsonschema
        jsonschema.validate(m, json.load(open("/root/.vp/MANIFEST.schema.json")))
        print("manifest valid: %d checks, %d not applicable" % (len(checks), len(na)))
    except ImportError:
        print("manifest written (jsonschema not available): %d checks" % len(checks))


if __name__ == "__main__":
    main()
