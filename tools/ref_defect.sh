#!/bin/sh
# usage: run.sh <refactor-id> <sed-expr> <file> props...   : refactor + one seeded defect in a scratch worktree, checks via VERIF_REPO
mkdir -p /tmp/vfrd
ID="$1"; SED="$2"; FILE="$3"; shift 3
WT=/tmp/vfrd/wt_$$
git -C /repo worktree add -q --detach $WT HEAD || exit 3
git -C $WT apply --whitespace=nowarn /verif/refactors/$ID/patch.diff || { echo "refactor does not apply"; git -C /repo worktree remove --force $WT; exit 3; }
cp $WT/$FILE /tmp/vfrd/before_$$
sed -i "$SED" $WT/$FILE
if cmp -s $WT/$FILE /tmp/vfrd/before_$$; then echo "!! sed changed nothing"; fi
cd /verif
for p in "$@"; do
  VERIF_REPO=$WT VERIF_OUT=/tmp/vfrd/out_$$ ./vcheck "$p" --tier quick > /tmp/vfrd/log_$p 2>&1; rc=$?
  echo "== $ID+defect vs $p exit=$rc"; grep -E "^  C[0-9]+-|^ANALYSIS" /tmp/vfrd/log_$p | cut -c1-260 | head -4
done
git -C /repo worktree remove --force $WT; rm -rf /tmp/vfrd/out_$$ /tmp/vfrd/before_$$
