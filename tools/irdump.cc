// irdump: LLVM-14 bitcode -> JSON "program model" (see DESIGN.md appendix A).
// Build: clang++ $(llvm-config-14 --cxxflags) -fno-rtti irdump.cc -o irdump /usr/lib/llvm-14/lib/libLLVM-14.so
#include "llvm/IR/Constants.h"
#include "llvm/IR/DataLayout.h"
#include "llvm/IR/DebugInfoMetadata.h"
#include "llvm/IR/DerivedTypes.h"
#include "llvm/IR/Function.h"
#include "llvm/IR/GetElementPtrTypeIterator.h"
#include "llvm/BinaryFormat/Dwarf.h"
#include "llvm/IR/GlobalVariable.h"
#include "llvm/IR/InstrTypes.h"
#include "llvm/IR/Instructions.h"
#include "llvm/IR/IntrinsicInst.h"
#include "llvm/IR/LLVMContext.h"
#include "llvm/IR/Module.h"
#include "llvm/IR/Operator.h"
#include "llvm/IRReader/IRReader.h"
#include "llvm/Support/SourceMgr.h"
#include "llvm/Support/raw_ostream.h"
#include <map>
#include <set>
#include <string>
#include <vector>

using namespace llvm;

static std::string esc(StringRef s) {
  std::string o;
  o.reserve(s.size() + 2);
  o.push_back('"');
  for (unsigned char c : s) {
    switch (c) {
    case '"': o += "\\\""; break;
    case '\\': o += "\\\\"; break;
    case '\n': o += "\\n"; break;
    case '\t': o += "\\t"; break;
    case '\r': o += "\\r"; break;
    default:
      if (c < 0x20 || c >= 0x7f) {
        char b[8];
        snprintf(b, sizeof b, "\\u%04x", c);
        o += b;
      } else
        o.push_back((char)c);
    }
  }
  o.push_back('"');
  return o;
}

static std::string tystr(Type *t) {
  std::string s;
  raw_string_ostream os(s);
  t->print(os, false, true);
  return os.str();
}

struct Dumper {
  Module &M;
  const DataLayout &DL;
  raw_ostream &O;
  std::map<const Value *, int> ids; // per-function numbering
  std::map<const BasicBlock *, int> bbids;
  std::map<const Metadata *, int> diids;
  std::vector<const DIType *> ditypes;
  std::set<StructType *> structs;

  Dumper(Module &m, raw_ostream &o) : M(m), DL(m.getDataLayout()), O(o) {}

  int diType(const DIType *t) {
    if (!t) return -1;
    auto it = diids.find(t);
    if (it != diids.end()) return it->second;
    int id = (int)ditypes.size();
    diids[t] = id;
    ditypes.push_back(t);
    // recurse
    if (auto *d = dyn_cast<DIDerivedType>(t)) {
      diType(d->getBaseType());
    } else if (auto *c = dyn_cast<DICompositeType>(t)) {
      diType(c->getBaseType());
      for (auto *e : c->getElements())
        if (auto *m = dyn_cast<DIType>(e)) diType(m);
    } else if (auto *s = dyn_cast<DISubroutineType>(t)) {
      for (auto *e : s->getTypeArray())
        if (e) diType(e);
    }
    return id;
  }

  void noteType(Type *t) {
    if (auto *st = dyn_cast<StructType>(t)) {
      if (structs.insert(st).second && !st->isOpaque())
        for (auto *e : st->elements()) noteType(e);
    } else if (auto *at = dyn_cast<ArrayType>(t))
      noteType(at->getElementType());
    else if (auto *pt = dyn_cast<PointerType>(t)) {
      if (!pt->isOpaque()) noteType(pt->getNonOpaquePointerElementType());
    }
  }

  // constant -> JSON value (initialisers)
  void constJson(const Constant *c, int depth = 0) {
    if (auto *ci = dyn_cast<ConstantInt>(c)) {
      O << ci->getValue().getZExtValue();
    } else if (isa<ConstantPointerNull>(c)) {
      O << "null";
    } else if (isa<ConstantAggregateZero>(c)) {
      O << "{\"zero\":" << DL.getTypeAllocSize(c->getType()) << "}";
    } else if (auto *cda = dyn_cast<ConstantDataSequential>(c)) {
      if (cda->getElementType()->isIntegerTy()) {
        O << "[";
        for (unsigned i = 0; i < cda->getNumElements(); i++) {
          if (i) O << ",";
          O << cda->getElementAsInteger(i);
        }
        O << "]";
      } else
        O << "\"fp\"";
    } else if (auto *ca = dyn_cast<ConstantAggregate>(c)) {
      O << "[";
      for (unsigned i = 0; i < ca->getNumOperands(); i++) {
        if (i) O << ",";
        constJson(cast<Constant>(ca->getOperand(i)), depth + 1);
      }
      O << "]";
    } else if (isa<UndefValue>(c)) {
      O << "\"undef\"";
    } else {
      // global / constexpr pointer
      APInt off(64, 0);
      const Value *base = c->stripAndAccumulateConstantOffsets(DL, off, true);
      if (auto *g = dyn_cast<GlobalValue>(base)) {
        O << "{\"g\":" << esc(g->getName()) << ",\"off\":" << off.getSExtValue();
        if (auto *gv = dyn_cast<GlobalVariable>(g)) {
          if (gv->isConstant() && gv->hasInitializer()) {
            if (auto *s = dyn_cast<ConstantDataArray>(gv->getInitializer()))
              if (s->isCString()) O << ",\"str\":" << esc(s->getAsCString());
          }
        }
        O << "}";
      } else if (isa<ConstantFP>(c)) {
        O << "\"fp\"";
      } else
        O << "\"other\"";
    }
  }

  void operand(const Value *v) {
    if (auto *ci = dyn_cast<ConstantInt>(v)) {
      O << "{\"k\":\"const\",\"v\":";
      if (ci->getBitWidth() <= 64)
        O << ci->getSExtValue();
      else
        O << 0;
      O << ",\"w\":" << ci->getBitWidth() << "}";
      return;
    }
    if (isa<ConstantPointerNull>(v)) { O << "{\"k\":\"null\"}"; return; }
    if (isa<UndefValue>(v)) { O << "{\"k\":\"undef\"}"; return; }
    if (auto *a = dyn_cast<Argument>(v)) { O << "{\"k\":\"arg\",\"i\":" << a->getArgNo() << "}"; return; }
    if (auto *bb = dyn_cast<BasicBlock>(v)) { O << "{\"k\":\"bb\",\"id\":" << bbids[bb] << "}"; return; }
    if (isa<Instruction>(v)) { O << "{\"k\":\"inst\",\"id\":" << ids[v] << "}"; return; }
    if (auto *f = dyn_cast<Function>(v)) { O << "{\"k\":\"func\",\"name\":" << esc(f->getName()) << "}"; return; }
    if (auto *c = dyn_cast<Constant>(v)) {
      if (c->getType()->isPointerTy()) {
        APInt off(64, 0);
        const Value *base = c->stripAndAccumulateConstantOffsets(DL, off, true);
        if (auto *f = dyn_cast<Function>(base)) { O << "{\"k\":\"func\",\"name\":" << esc(f->getName()) << "}"; return; }
        if (auto *g = dyn_cast<GlobalVariable>(base)) {
          O << "{\"k\":\"global\",\"name\":" << esc(g->getName()) << ",\"off\":" << off.getSExtValue();
          if (g->isConstant() && g->hasInitializer())
            if (auto *s = dyn_cast<ConstantDataArray>(g->getInitializer()))
              if (s->isCString()) O << ",\"str\":" << esc(s->getAsCString());
          O << "}";
          return;
        }
        if (auto *ce = dyn_cast<ConstantExpr>(c)) {
          if (ce->getOpcode() == Instruction::IntToPtr)
            if (auto *ci = dyn_cast<ConstantInt>(ce->getOperand(0))) {
              O << "{\"k\":\"const\",\"v\":" << ci->getSExtValue() << ",\"w\":64,\"ptr\":true}";
              return;
            }
        }
      }
      if (auto *ce = dyn_cast<ConstantExpr>(c)) {
        // (intptr_t)(array + N): the address of a global plus a constant, as an integer (folded `end - p`)
        if (ce->getOpcode() == Instruction::PtrToInt) {
          APInt off(64, 0);
          const Value *base = ce->getOperand(0)->stripAndAccumulateConstantOffsets(DL, off, true);
          if (auto *g = dyn_cast<GlobalVariable>(base)) {
            O << "{\"k\":\"global\",\"name\":" << esc(g->getName()) << ",\"off\":" << off.getSExtValue() << ",\"ptrtoint\":true}";
            return;
          }
        }
      }
      if (isa<ConstantFP>(c)) { O << "{\"k\":\"fconst\"}"; return; }
      if (isa<ConstantAggregateZero>(c)) { O << "{\"k\":\"zero\"}"; return; }
      O << "{\"k\":\"other\",\"text\":";
      std::string s; raw_string_ostream os(s); c->print(os); O << esc(os.str()) << "}";
      return;
    }
    if (isa<MetadataAsValue>(v)) { O << "{\"k\":\"md\"}"; return; }
    if (isa<InlineAsm>(v)) { O << "{\"k\":\"asm\"}"; return; }
    O << "{\"k\":\"other\"}";
  }

  void dumpFunction(const Function &F) {
    ids.clear(); bbids.clear();
    int n = 0, b = 0;
    for (auto &BB : F) {
      bbids[&BB] = b++;
      for (auto &I : BB) ids[&I] = n++;
    }
    // map alloca -> DILocalVariable
    std::map<const Value *, const DILocalVariable *> vars;
    for (auto &BB : F)
      for (auto &I : BB)
        if (auto *d = dyn_cast<DbgDeclareInst>(&I))
          if (d->getAddress()) vars[d->getAddress()] = d->getVariable();

    O << "{\"name\":" << esc(F.getName()) << ",\"internal\":" << (F.hasLocalLinkage() ? "true" : "false");
    O << ",\"ret\":" << esc(tystr(F.getReturnType()));
    O << ",\"vararg\":" << (F.isVarArg() ? "true" : "false");
    if (auto *sp = F.getSubprogram()) {
      O << ",\"file\":" << esc(sp->getFilename()) << ",\"dir\":" << esc(sp->getDirectory()) << ",\"line\":" << sp->getLine();
      O << ",\"srcname\":" << esc(sp->getName());
      if (auto *st = sp->getType()) {
        O << ",\"ditypes\":[";
        bool first = true;
        for (auto *e : st->getTypeArray()) {
          if (!first) O << ",";
          first = false;
          O << diType(e);
        }
        O << "]";
      }
    }
    O << ",\"params\":[";
    for (auto &A : F.args()) {
      if (A.getArgNo()) O << ",";
      noteType(A.getType());
      O << "{\"type\":" << esc(tystr(A.getType()));
      if (A.hasByValAttr()) {
        Type *bt = A.getParamByValType();
        noteType(bt);
        O << ",\"byval\":" << esc(tystr(bt)) << ",\"byval_size\":" << DL.getTypeAllocSize(bt);
      }
      if (A.hasStructRetAttr()) {
        Type *bt = A.getParamStructRetType();
        noteType(bt);
        O << ",\"sret\":" << esc(tystr(bt)) << ",\"sret_size\":" << DL.getTypeAllocSize(bt);
      }
      // a byval argument is described directly by dbg.declare
      auto it = vars.find(&A);
      if (it != vars.end()) {
        O << ",\"name\":" << esc(it->second->getName()) << ",\"ditype\":" << diType(it->second->getType());
      }
      O << "}";
    }
    O << "],\"blocks\":[";
    bool fb = true;
    for (auto &BB : F) {
      if (!fb) O << ",";
      fb = false;
      O << "\n{\"id\":" << bbids[&BB] << ",\"succ\":[";
      {
        bool f1 = true;
        const Instruction *T = BB.getTerminator();
        if (T)
          for (unsigned i = 0; i < T->getNumSuccessors(); i++) {
            if (!f1) O << ",";
            f1 = false;
            O << bbids[T->getSuccessor(i)];
          }
      }
      O << "],\"insts\":[";
      bool fi = true;
      for (auto &I : BB) {
        if (isa<DbgInfoIntrinsic>(&I)) continue;
        if (!fi) O << ",";
        fi = false;
        O << "\n {\"id\":" << ids[&I] << ",\"op\":" << esc(I.getOpcodeName());
        O << ",\"ty\":" << esc(tystr(I.getType()));
        if (auto &dl = I.getDebugLoc()) {
          O << ",\"line\":" << dl.getLine() << ",\"col\":" << dl.getCol();
        }
        if (auto *AI = dyn_cast<AllocaInst>(&I)) {
          Type *at = AI->getAllocatedType();
          noteType(at);
          O << ",\"aty\":" << esc(tystr(at));
          if (AI->isStaticAlloca()) {
            uint64_t sz = DL.getTypeAllocSize(at);
            if (auto *ci = dyn_cast<ConstantInt>(AI->getArraySize())) sz *= ci->getZExtValue();
            O << ",\"size\":" << sz;
          } else {
            O << ",\"elsize\":" << DL.getTypeAllocSize(at) << ",\"count\":";
            operand(AI->getArraySize());
          }
          auto it = vars.find(AI);
          if (it != vars.end()) {
            O << ",\"var\":" << esc(it->second->getName()) << ",\"ditype\":" << diType(it->second->getType());
            if (it->second->isParameter()) O << ",\"param\":" << it->second->getArg();
          }
        } else if (auto *GI = dyn_cast<GetElementPtrInst>(&I)) {
          noteType(GI->getSourceElementType());
          O << ",\"base\":";
          operand(GI->getPointerOperand());
          O << ",\"srcty\":" << esc(tystr(GI->getSourceElementType()));
          // decompose
          int64_t coff = 0;
          O << ",\"idx\":[";
          bool f2 = true;
          Type *cur = nullptr;
          // path of (type, index) for struct field names
          std::string path = "[";
          bool fp = true;
          auto GTI = gep_type_begin(GI), GTE = gep_type_end(GI);
          for (; GTI != GTE; ++GTI) {
            Value *idx = GTI.getOperand();
            if (StructType *st = GTI.getStructTypeOrNull()) {
              unsigned fi2 = cast<ConstantInt>(idx)->getZExtValue();
              coff += DL.getStructLayout(st)->getElementOffset(fi2);
              if (!fp) path += ",";
              fp = false;
              path += "{\"s\":" + esc(st->hasName() ? st->getName() : StringRef("")) + ",\"f\":" + std::to_string(fi2) + "}";
            } else {
              uint64_t esz = DL.getTypeAllocSize(GTI.getIndexedType());
              if (auto *ci = dyn_cast<ConstantInt>(idx)) {
                coff += ci->getSExtValue() * (int64_t)esz;
                if (!fp) path += ",";
                fp = false;
                path += "{\"a\":" + std::to_string(ci->getSExtValue()) + ",\"es\":" + std::to_string(esz) + "}";
              } else {
                if (!f2) O << ",";
                f2 = false;
                O << "{\"scale\":" << esz << ",\"v\":";
                operand(idx);
                O << "}";
                if (!fp) path += ",";
                fp = false;
                path += "{\"a\":\"var\",\"es\":" + std::to_string(esz) + "}";
              }
            }
            cur = GTI.getIndexedType();
          }
          (void)cur;
          path += "]";
          O << "],\"off\":" << coff << ",\"path\":" << path;
          O << ",\"resty\":" << esc(tystr(GI->getResultElementType()));
          O << ",\"ressize\":" << (GI->getResultElementType()->isSized() ? DL.getTypeAllocSize(GI->getResultElementType()) : 0);
        } else if (auto *LI = dyn_cast<LoadInst>(&I)) {
          O << ",\"ptr\":";
          operand(LI->getPointerOperand());
          O << ",\"size\":" << DL.getTypeStoreSize(LI->getType());
          if (LI->isVolatile()) O << ",\"volatile\":true";
          if (LI->isAtomic()) O << ",\"atomic\":true";
        } else if (auto *SI = dyn_cast<StoreInst>(&I)) {
          O << ",\"ptr\":";
          operand(SI->getPointerOperand());
          O << ",\"val\":";
          operand(SI->getValueOperand());
          O << ",\"vty\":" << esc(tystr(SI->getValueOperand()->getType()));
          O << ",\"size\":" << DL.getTypeStoreSize(SI->getValueOperand()->getType());
          if (SI->isVolatile()) O << ",\"volatile\":true";
          if (SI->isAtomic()) O << ",\"atomic\":true";
        } else if (auto *CB = dyn_cast<CallBase>(&I)) {
          const Value *cv = CB->getCalledOperand()->stripPointerCasts();
          if (auto *cf = dyn_cast<Function>(cv)) {
            O << ",\"callee\":" << esc(cf->getName());
            if (cf->isDeclaration()) O << ",\"ext\":true";
          } else {
            O << ",\"callee\":null,\"fptr\":";
            operand(cv);
          }
          O << ",\"args\":[";
          for (unsigned i = 0; i < CB->arg_size(); i++) {
            if (i) O << ",";
            operand(CB->getArgOperand(i));
          }
          O << "]";
          // byval args
          O << ",\"byval\":[";
          bool f3 = true;
          for (unsigned i = 0; i < CB->arg_size(); i++)
            if (CB->isByValArgument(i)) {
              if (!f3) O << ",";
              f3 = false;
              O << i;
            }
          O << "]";
        } else if (auto *CI = dyn_cast<CmpInst>(&I)) {
          O << ",\"pred\":" << esc(CmpInst::getPredicateName(CI->getPredicate()));
          O << ",\"a\":"; operand(CI->getOperand(0));
          O << ",\"b\":"; operand(CI->getOperand(1));
          O << ",\"opty\":" << esc(tystr(CI->getOperand(0)->getType()));
        } else if (auto *BI = dyn_cast<BranchInst>(&I)) {
          if (BI->isConditional()) {
            O << ",\"cond\":"; operand(BI->getCondition());
            O << ",\"t\":" << bbids[BI->getSuccessor(0)] << ",\"f\":" << bbids[BI->getSuccessor(1)];
          } else
            O << ",\"t\":" << bbids[BI->getSuccessor(0)];
        } else if (auto *SW = dyn_cast<SwitchInst>(&I)) {
          O << ",\"cond\":"; operand(SW->getCondition());
          O << ",\"default\":" << bbids[SW->getDefaultDest()] << ",\"cases\":[";
          bool f4 = true;
          for (auto &c : SW->cases()) {
            if (!f4) O << ",";
            f4 = false;
            O << "[" << c.getCaseValue()->getSExtValue() << "," << bbids[c.getCaseSuccessor()] << "]";
          }
          O << "]";
        } else if (auto *RI = dyn_cast<ReturnInst>(&I)) {
          if (RI->getReturnValue()) { O << ",\"val\":"; operand(RI->getReturnValue()); }
        } else if (auto *PN = dyn_cast<PHINode>(&I)) {
          O << ",\"incoming\":[";
          for (unsigned i = 0; i < PN->getNumIncomingValues(); i++) {
            if (i) O << ",";
            O << "[" << bbids[PN->getIncomingBlock(i)] << ",";
            operand(PN->getIncomingValue(i));
            O << "]";
          }
          O << "]";
        } else if (auto *SEL = dyn_cast<SelectInst>(&I)) {
          O << ",\"cond\":"; operand(SEL->getCondition());
          O << ",\"a\":"; operand(SEL->getTrueValue());
          O << ",\"b\":"; operand(SEL->getFalseValue());
        } else if (isa<CastInst>(&I)) {
          O << ",\"a\":"; operand(I.getOperand(0));
          O << ",\"fromty\":" << esc(tystr(I.getOperand(0)->getType()));
        } else if (isa<BinaryOperator>(&I)) {
          O << ",\"a\":"; operand(I.getOperand(0));
          O << ",\"b\":"; operand(I.getOperand(1));
          if (auto *ob = dyn_cast<OverflowingBinaryOperator>(&I)) {
            if (ob->hasNoSignedWrap()) O << ",\"nsw\":true";
            if (ob->hasNoUnsignedWrap()) O << ",\"nuw\":true";
          }
        } else if (auto *EV = dyn_cast<ExtractValueInst>(&I)) {
          O << ",\"a\":"; operand(EV->getAggregateOperand());
          O << ",\"indices\":[";
          for (unsigned i = 0; i < EV->getNumIndices(); i++) { if (i) O << ","; O << EV->getIndices()[i]; }
          O << "]";
        } else if (auto *IV = dyn_cast<InsertValueInst>(&I)) {
          O << ",\"a\":"; operand(IV->getAggregateOperand());
          O << ",\"b\":"; operand(IV->getInsertedValueOperand());
          O << ",\"indices\":[";
          for (unsigned i = 0; i < IV->getNumIndices(); i++) { if (i) O << ","; O << IV->getIndices()[i]; }
          O << "]";
        } else {
          O << ",\"operands\":[";
          for (unsigned i = 0; i < I.getNumOperands(); i++) {
            if (i) O << ",";
            operand(I.getOperand(i));
          }
          O << "]";
        }
        O << "}";
      }
      O << "]}";
    }
    O << "]}";
  }

  void run() {
    O << "{\"datalayout\":" << esc(DL.getStringRepresentation()) << ",\n\"globals\":[";
    // debug info for globals
    bool fg = true;
    for (auto &G : M.globals()) {
      if (!fg) O << ",";
      fg = false;
      noteType(G.getValueType());
      O << "\n{\"name\":" << esc(G.getName()) << ",\"type\":" << esc(tystr(G.getValueType()));
      O << ",\"size\":" << (G.getValueType()->isSized() ? DL.getTypeAllocSize(G.getValueType()) : 0);
      O << ",\"internal\":" << (G.hasLocalLinkage() ? "true" : "false");
      O << ",\"const\":" << (G.isConstant() ? "true" : "false");
      O << ",\"decl\":" << (G.isDeclaration() ? "true" : "false");
      SmallVector<DIGlobalVariableExpression *, 1> gves;
      G.getDebugInfo(gves);
      if (!gves.empty()) {
        auto *gv = gves[0]->getVariable();
        O << ",\"srcname\":" << esc(gv->getName()) << ",\"file\":" << esc(gv->getFilename()) << ",\"line\":" << gv->getLine();
        O << ",\"ditype\":" << diType(gv->getType());
        if (auto *sc = dyn_cast_or_null<DISubprogram>(gv->getScope()))
          O << ",\"scope_func\":" << esc(sc->getName());
      }
      if (G.hasInitializer()) {
        bool isstr = false;
        if (auto *s = dyn_cast<ConstantDataArray>(G.getInitializer()))
          if (s->isCString() && G.isConstant() && G.hasPrivateLinkage()) {
            isstr = true;
            O << ",\"cstr\":" << esc(s->getAsCString());
          }
        if (!isstr) {
          O << ",\"init\":";
          constJson(G.getInitializer());
        }
      }
      O << "}";
    }
    O << "],\n\"functions\":[";
    bool ff = true;
    for (auto &F : M) {
      if (F.isDeclaration()) continue;
      if (!ff) O << ",";
      ff = false;
      O << "\n";
      dumpFunction(F);
    }
    O << "],\n\"decls\":[";
    ff = true;
    for (auto &F : M) {
      if (!F.isDeclaration()) continue;
      if (!ff) O << ",";
      ff = false;
      O << esc(F.getName());
    }
    O << "],\n\"structs\":{";
    bool fs = true;
    // note: noteType may add while iterating; copy
    std::vector<StructType *> sts(structs.begin(), structs.end());
    for (auto *st : sts) {
      if (!st->hasName()) continue;
      if (!fs) O << ",";
      fs = false;
      O << "\n" << esc(st->getName()) << ":{";
      if (st->isOpaque()) { O << "\"opaque\":true}"; continue; }
      auto *sl = DL.getStructLayout(st);
      O << "\"size\":" << sl->getSizeInBytes() << ",\"elems\":[";
      for (unsigned i = 0; i < st->getNumElements(); i++) {
        if (i) O << ",";
        O << "{\"off\":" << sl->getElementOffset(i) << ",\"size\":" << DL.getTypeAllocSize(st->getElementType(i))
          << ",\"type\":" << esc(tystr(st->getElementType(i))) << "}";
      }
      O << "]}";
    }
    O << "},\n\"ditypes\":[";
    for (size_t i = 0; i < ditypes.size(); i++) {
      const DIType *t = ditypes[i];
      if (i) O << ",";
      O << "\n{\"id\":" << i << ",\"name\":" << esc(t->getName()) << ",\"size\":" << t->getSizeInBits() / 8;
      if (auto *b = dyn_cast<DIBasicType>(t)) {
        O << ",\"kind\":\"base\",\"enc\":" << b->getEncoding();
      } else if (auto *d = dyn_cast<DIDerivedType>(t)) {
        const char *k = "derived";
        switch ((unsigned)d->getTag()) {
        case dwarf::DW_TAG_pointer_type: k = "pointer"; break;
        case dwarf::DW_TAG_typedef: k = "typedef"; break;
        case dwarf::DW_TAG_const_type: k = "const"; break;
        case dwarf::DW_TAG_volatile_type: k = "volatile"; break;
        case dwarf::DW_TAG_member: k = "member"; break;
        case dwarf::DW_TAG_restrict_type: k = "restrict"; break;
        }
        O << ",\"kind\":" << esc(k) << ",\"base\":" << diType(d->getBaseType());
        if (d->getTag() == dwarf::DW_TAG_member) {
          O << ",\"off\":" << d->getOffsetInBits() / 8;
          if (d->isBitField()) O << ",\"bitoff\":" << d->getOffsetInBits() << ",\"bitsize\":" << d->getSizeInBits();
        }
      } else if (auto *c = dyn_cast<DICompositeType>(t)) {
        const char *k = "composite";
        switch ((unsigned)c->getTag()) {
        case dwarf::DW_TAG_structure_type: k = "struct"; break;
        case dwarf::DW_TAG_union_type: k = "union"; break;
        case dwarf::DW_TAG_array_type: k = "array"; break;
        case dwarf::DW_TAG_enumeration_type: k = "enum"; break;
        }
        O << ",\"kind\":" << esc(k) << ",\"base\":" << diType(c->getBaseType());
        if (c->getTag() == dwarf::DW_TAG_enumeration_type) {
          O << ",\"enumerators\":[";
          bool f5 = true;
          for (auto *e : c->getElements())
            if (auto *en = dyn_cast<DIEnumerator>(e)) {
              if (!f5) O << ",";
              f5 = false;
              O << "[" << esc(en->getName()) << "," << en->getValue().getSExtValue() << "]";
            }
          O << "]";
        } else if (c->getTag() == dwarf::DW_TAG_array_type) {
          O << ",\"counts\":[";
          bool f5 = true;
          for (auto *e : c->getElements())
            if (auto *sr = dyn_cast<DISubrange>(e)) {
              if (!f5) O << ",";
              f5 = false;
              if (auto *ci = sr->getCount().dyn_cast<ConstantInt *>())
                O << ci->getSExtValue();
              else
                O << -1;
            }
          O << "]";
        } else {
          O << ",\"members\":[";
          bool f5 = true;
          for (auto *e : c->getElements())
            if (auto *m = dyn_cast<DIDerivedType>(e)) {
              if (!f5) O << ",";
              f5 = false;
              O << diType(m);
            }
          O << "]";
        }
      } else if (isa<DISubroutineType>(t)) {
        O << ",\"kind\":\"subroutine\"";
      } else
        O << ",\"kind\":\"other\"";
      O << "}";
    }
    O << "]}\n";
  }
};

int main(int argc, char **argv) {
  if (argc < 2) {
    errs() << "usage: irdump <file.bc|.ll> [out.json]\n";
    return 2;
  }
  LLVMContext ctx;
  SMDiagnostic err;
  std::unique_ptr<Module> M = parseIRFile(argv[1], err, ctx);
  if (!M) {
    err.print("irdump", errs());
    return 2;
  }
  std::error_code ec;
  std::unique_ptr<raw_fd_ostream> out;
  raw_ostream *os = &outs();
  if (argc > 2) {
    out.reset(new raw_fd_ostream(argv[2], ec));
    if (ec) {
      errs() << "cannot open " << argv[2] << "\n";
      return 2;
    }
    os = out.get();
  }
  Dumper d(*M, *os);
  d.run();
  return 0;
}
