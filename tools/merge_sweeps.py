#!/usr/bin/env python3
"""merge a full refactor sweep log with a later partial re-sweep (some properties only): usage merge_sweeps.py main.log re.log C01,C02,... > merged.log"""
import re, sys
main, re_, props = sys.argv[1], sys.argv[2], set(sys.argv[3].split(","))
def parse(p):
    out = {}
    for l in open(p):
        m = re.match(r'(\S+) (SILENT|ALARM)(.*)$', l.rstrip())
        if m and not l.startswith(" "):
            out[m.group(1)] = dict(x.split(":", 1) for x in m.group(3).split()) if m.group(2) == "ALARM" else {}
    return out
a, b = parse(main), parse(re_)
for k in sorted(a):
    al = {p: v for p, v in a[k].items() if not (k in b and p in props)}
    if k in b:
        al.update(b[k])
    print("%s %s" % (k, "SILENT" if not al else "ALARM " + " ".join("%s:%s" % kv for kv in sorted(al.items()))))
