#!/bin/sh
# usage: try_wt.sh <Cxx> <mN> [props...] : apply the sub-agent's change from its scratch worktree to /repo, run the quick checks
# (default: the owner's), undo, restore evidence.
P="$1"; M="$2"; shift 2
[ $# -eq 0 ] && set -- "$P"
cd /verif
if ! git -C /repo diff --quiet; then echo "refusing: /repo has uncommitted changes"; exit 4; fi
rm -rf /tmp/evidence_save_try && cp -r evidence /tmp/evidence_save_try
git -C /repo apply --whitespace=nowarn /tmp/wt/$P/MUTANTS/$M/patch.diff || { echo "patch does not apply"; exit 3; }
for p in "$@"; do
  ./vcheck "$p" --tier quick > .work/try_$p.log 2>&1; rc=$?
  echo "== $P-$M vs $p exit=$rc"; grep -E "^  C[0-9]+-" .work/try_$p.log | cut -c1-330 | head -6
done
git -C /repo checkout -- .
rm -rf evidence && mv /tmp/evidence_save_try evidence
