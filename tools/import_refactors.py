#!/usr/bin/env python3
"""import_refactors.py <Cxx>... : copy the sub-agent's behaviour-preserving refactorings from /tmp/wt/<Cxx>/REFACTORS/rN into /verif/refactors/A-<Cxx>-rN/"""
import json, os, shutil, sys, glob
for p in sys.argv[1:]:
    for d in sorted(glob.glob('/tmp/wt/%s/REFACTORS/r*/' % p)):
        rn = os.path.basename(d.rstrip('/'))
        if not os.path.exists(d + 'patch.diff'):
            continue
        dst = '/verif/refactors/A-%s-%s/' % (p, rn)
        if os.path.exists(dst + 'patch.diff'):
            continue        # already imported (may have been re-created against a later /repo)
        os.makedirs(dst, exist_ok=True)
        shutil.copy(d + 'patch.diff', dst + 'patch.diff')
        notes = open(d + 'NOTES.md').read() if os.path.exists(d + 'NOTES.md') else ''
        open(dst + 'NOTES.md', 'w').write(notes)
        first = next((l.strip('# ').strip() for l in notes.splitlines() if l.strip()), '')
        json.dump({"id": "A-%s-%s" % (p, rn), "kind": "behaviour-preserving refactor written by an independent sub-agent given only the text of property %s" % p,
                   "what": first[:300], "verified_by_author": "builds without new warnings, ctest 8/8", "expect": "all checks exit 0"}, open(dst + 'meta.json', 'w'), indent=1)
        print('imported', dst)
