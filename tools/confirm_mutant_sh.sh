#!/bin/bash
# like confirm_mutant.sh but the demonstration is MUTANTS/<m>/demo.sh (builds the sources itself, e.g. under ASan)
WT="$1"; M="$2"
cd "$WT" || exit 9
D=MUTANTS/$M
git checkout -q -- src include
build() { cmake -G Ninja -S . -B _build -DCMAKE_BUILD_TYPE=RelWithDebInfo >/dev/null 2>&1 && cmake --build _build -j8 >/dev/null 2>&1; }
echo "== $WT $M (demo.sh)"
build || { echo "RESULT baseline build failed"; exit 1; }
timeout 900 sh $D/demo.sh > $D/confirm_clean.out 2>&1; c0=$?
git apply $D/patch.diff || { echo "RESULT patch does not apply"; exit 1; }
build || { echo "RESULT mutant build failed"; git checkout -q -- src include; exit 1; }
ctest --test-dir _build -j8 --timeout 900 > $D/confirm_ctest.log 2>&1; ct=$?
timeout 900 sh $D/demo.sh > $D/confirm_mutant.out 2>&1; c1=$?
git checkout -q -- src include
build
echo "RESULT $WT $M clean_demo_exit=$c0 suite_exit=$ct mutant_demo_exit=$c1 $( [ $c0 = 0 ] && [ $ct = 0 ] && [ $c1 != 0 ] && echo CONFIRMED || echo NOT-CONFIRMED )"
