#!/usr/bin/env python3
"""Applies every behaviour-preserving change under /verif/refactors to /repo (one at a time, always undone) and runs ALL quick checks:
every check must stay at exit 0 (no alarm on code where the properties hold).  usage: tools/sweep_refactors.py [ids...] [--props C01,C02]"""
import json, os, shutil, subprocess, sys, glob
V = os.path.dirname(os.path.dirname(os.path.abspath(__file__)))
R = '/repo'
def sh(*a, **k):
    return subprocess.run(a, stdout=subprocess.PIPE, stderr=subprocess.STDOUT, text=True, **k)
def main():
    args = sys.argv[1:]
    only = None
    ids = []
    while args:
        a = args.pop(0)
        if a == '--props': only = args.pop(0).split(',')
        else: ids.append(a)
    if sh('git', '-C', R, 'diff', '--quiet').returncode != 0:
        print('refusing: /repo has uncommitted changes'); return 4
    props = only or [c['property_id'] for c in json.load(open(V + '/MANIFEST.json'))['checks']]
    save = '/tmp/evidence_save_refac'
    shutil.rmtree(save, ignore_errors=True); shutil.copytree(V + '/evidence', save)
    bad = 0
    try:
        for d in sorted(glob.glob(V + '/refactors/*/')):
            rid = os.path.basename(d.rstrip('/'))
            if ids and not any(rid.startswith(i) for i in ids): continue
            r = sh('git', '-C', R, 'apply', '--whitespace=nowarn', d + 'patch.diff')
            if r.returncode != 0:
                print(rid, 'PATCH-DOES-NOT-APPLY', r.stdout.strip()[:200]); bad += 1; continue
            try:
                alarms = []
                for p in props:
                    o = sh(V + '/vcheck', p, '--tier', 'quick', cwd=V)
                    if o.returncode != 0:
                        alarms.append((p, o.returncode, [l for l in o.stdout.splitlines() if l.startswith('  C') or l.startswith('ANALYSIS')][:3]))
                print(rid, 'SILENT' if not alarms else 'ALARM')
                for p, rc, ls in alarms:
                    print('    ', p, 'exit', rc)
                    for l in ls: print('        ', l.strip()[:240])
                bad += len(alarms)
                sys.stdout.flush()
            finally:
                sh('git', '-C', R, 'checkout', '--', '.')
    finally:
        shutil.rmtree(V + '/evidence'); shutil.move(save, V + '/evidence')
    print('false alarms:', bad)
    return 1 if bad else 0
if __name__ == '__main__':
    sys.exit(main())
