#!/bin/sh
# runs every claimed check (quick tier by default) on /repo as it is and prints one line per check
T=${1:-quick}
cd "$(dirname "$0")/.."
for p in $(python3 -c "import json;print(' '.join(c['property_id'] for c in json.load(open('MANIFEST.json'))['checks']))"); do
  ./vcheck $p --tier $T > .work/last_$p.log 2>&1; rc=$?
  echo "$p exit=$rc $(head -1 .work/last_$p.log | cut -c1-120)"
done
