#!/bin/sh
# usage: rebase_patch.sh <dir with patch.diff>... : re-create patch.diff against /repo's HEAD by a three-way apply in a scratch worktree
# (used after a fix: commit moved the context of stored seeded changes / refactorings).  Prints REBASED / CONFLICT / UNCHANGED per directory.
for d in "$@"; do
  wt=/tmp/vfrebase.$$
  rm -rf $wt; git -C /repo worktree add --detach -f $wt HEAD >/dev/null 2>&1
  if git -C $wt apply --check "$d/patch.diff" 2>/dev/null; then echo "UNCHANGED $d"
  elif git -C $wt apply --3way "$d/patch.diff" >/dev/null 2>&1 && ! git -C $wt diff --name-only --diff-filter=U | grep -q .; then
    git -C $wt diff HEAD -- src include > "$d/patch.diff.new" && mv "$d/patch.diff.new" "$d/patch.diff"; echo "REBASED $d"
  else echo "CONFLICT $d"; git -C $wt diff --name-only --diff-filter=U; fi
  git -C /repo worktree remove --force $wt
done
