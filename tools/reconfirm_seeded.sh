#!/bin/bash
# usage: reconfirm_seeded.sh <Cxx-mN>... : confirm a stored seeded change against /repo's HEAD in a fresh scratch worktree
# (clean demo exits 0; with the patch the library builds, the suite passes, the demo fails).  Appends RESULT lines to /tmp/cm/reconfirm.log
mkdir -p /tmp/cm
for id in "$@"; do
  P=${id%%-*}; M=${id##*-}
  WT=/tmp/vfrc_$id; rm -rf $WT
  git -C /repo worktree add --detach -f $WT HEAD >/dev/null 2>&1
  mkdir -p $WT/MUTANTS/$M && cp -r /verif/seeded/$id/. $WT/MUTANTS/$M/
  if [ -f $WT/MUTANTS/$M/demo.sh ] && [ ! -f $WT/MUTANTS/$M/demo.c ]; then
    /verif/tools/confirm_mutant_sh.sh $WT $M 2>&1 | tee -a /tmp/cm/reconfirm.log | grep RESULT
  else
    /verif/tools/confirm_mutant.sh $WT $M 2>&1 | tee -a /tmp/cm/reconfirm.log | grep RESULT
  fi
  git -C /repo worktree remove --force $WT
done
