#!/usr/bin/env python3
"""Parallel self-test sweep.  For every seeded change (or refactoring) a scratch copy of /repo's HEAD is made under /tmp/vfsweep/<id>,
the patch is applied there and the quick checks are run against that copy (VERIF_REPO) with their output redirected (VERIF_OUT), so
/repo and /verif/evidence are never touched.  usage: tools/sweep_par.py seeded|refactors [--all] [--jobs N] [--update-meta] [ids...]"""
import json, os, shutil, subprocess, sys, glob, re
from concurrent.futures import ThreadPoolExecutor
V = os.path.dirname(os.path.dirname(os.path.abspath(__file__)))
R = '/repo'
BASE = '/tmp/vfsweep/%d' % os.getpid()     # one directory per sweep process: concurrent sweeps must not share scratch copies

def sh(*a, **k):
    return subprocess.run(a, stdout=subprocess.PIPE, stderr=subprocess.STDOUT, text=True, **k)

def one(job):
    kind, d, props = job
    mid = os.path.basename(d.rstrip('/'))
    wd = os.path.join(BASE, mid)
    shutil.rmtree(wd, ignore_errors=True)
    os.makedirs(wd)
    repo = os.path.join(wd, 'repo')
    out = os.path.join(wd, 'out')
    os.makedirs(out)
    import time
    for attempt in range(4):
        r = sh('git', '-C', R, 'worktree', 'add', '--detach', '-f', repo, 'HEAD')
        if r.returncode == 0:
            break
        time.sleep(1 + attempt)       # concurrent `worktree add` calls occasionally collide on git's bookkeeping
        shutil.rmtree(repo, ignore_errors=True)
    res = {'id': mid, 'alarms': {}, 'error': None}
    try:
        if r.returncode != 0:
            res['error'] = 'worktree: ' + r.stdout[-200:]; return res
        r = sh('git', '-C', repo, 'apply', '--whitespace=nowarn', os.path.join(d, 'patch.diff'))
        if r.returncode != 0:
            res['error'] = 'patch does not apply: ' + r.stdout[-200:]; return res
        env = dict(os.environ, VERIF_REPO=repo, VERIF_OUT=out)
        for p in props:
            o = sh(os.path.join(V, 'vcheck'), p, '--tier', 'quick', cwd=V, env=env)
            if o.returncode != 0:
                res['alarms'][p] = (o.returncode, [l.strip()[:230] for l in o.stdout.splitlines() if re.match(r'\s+C\d\d-', l) or l.startswith('ANALYSIS') or 'Error' in l][:3])
    finally:
        sh('git', '-C', R, 'worktree', 'remove', '--force', repo)
        shutil.rmtree(wd, ignore_errors=True)
    return res

def main():
    args = sys.argv[1:]
    kind = args.pop(0)
    allp = False; upd = False; jobs = 5; ids = []
    while args:
        a = args.pop(0)
        if a == '--all': allp = True
        elif a == '--update-meta': upd = True
        elif a == '--jobs': jobs = int(args.pop(0))
        else: ids.append(a)
    props = [c['property_id'] for c in json.load(open(V + '/MANIFEST.json'))['checks']]
    if os.environ.get('VERIF_SWEEP_PROPS'):
        props = os.environ['VERIF_SWEEP_PROPS'].split(',')
    todo = []
    for d in sorted(glob.glob(V + '/%s/*/' % kind)):
        mid = os.path.basename(d.rstrip('/'))
        if ids and not any(mid.startswith(i) for i in ids): continue
        meta = json.load(open(d + 'meta.json'))
        ps = props if (allp or kind == 'refactors') else [meta['property']]
        todo.append((kind, d, ps))
    os.makedirs(BASE, exist_ok=True)
    bad = 0; det = 0
    with ThreadPoolExecutor(max_workers=jobs) as ex:
        for res in ex.map(one, todo):
            mid = res['id']
            if res['error']:
                print(mid, 'ERROR', res['error']); bad += 1; continue
            al = res['alarms']
            if kind == 'refactors':
                print(mid, 'SILENT' if not al else 'ALARM ' + ' '.join('%s:exit%d' % (p, rc) for p, (rc, _) in al.items()))
                bad += len(al)
            else:
                d = V + '/seeded/' + mid + '/'
                meta = json.load(open(d + 'meta.json'))
                names = [p if rc == 1 else '%s:exit%d' % (p, rc) for p, (rc, _) in al.items()]
                own = meta['property'] in [p for p, (rc, _) in al.items() if rc == 1]
                print(mid, 'DETECTED-BY ' + ' '.join(names) if al else 'MISSED', '' if own or not al else '(not by its own property)')
                det += 1 if al else 0
                if upd:
                    meta['detected_by'] = names
                    meta['detected_tier'] = 'quick'
                    meta['detected_rules'] = {p: sorted({l.split()[0] for l in ls if l.startswith('C')}) for p, (rc, ls) in al.items()}
                    json.dump(meta, open(d + 'meta.json', 'w'), indent=1)
            for p, (rc, ls) in al.items():
                for l in ls[:2]: print('      ', l[:200])
            sys.stdout.flush()
    sh('git', '-C', R, 'worktree', 'prune')
    if kind == 'refactors':
        print('false alarms:', bad); return 1 if bad else 0
    print('detected %d of %d' % (det, len(todo)))
    return 0
if __name__ == '__main__':
    sys.exit(main())
