#!/usr/bin/env python3
"""import_mutant.py <worktree> <mN> <property> "<needs>" : copy a confirmed seeded change into /verif/seeded/<prop>-<mN>/"""
import json, os, re, shutil, sys
wt, m, prop, needs = sys.argv[1:5]
src = os.path.join(wt, "MUTANTS", m)
dst = os.path.join("/verif/seeded", "%s-%s" % (prop, m))
os.makedirs(dst, exist_ok=True)
for f in os.listdir(src):
    p = os.path.join(src, f)
    if f in ("patch.diff", "NOTES.md") or f.startswith("demo.") or f == "config":
        if os.path.isdir(p):
            shutil.copytree(p, os.path.join(dst, f), dirs_exist_ok=True)
        elif os.path.getsize(p) < 400000:
            shutil.copy(p, os.path.join(dst, f))
res = ""
import glob
for log in sorted(glob.glob("/tmp/cm/*.log")):
    if os.path.exists(log):
        for line in open(log):
            if line.startswith("RESULT %s %s " % (wt, m)):
                res = line.strip()
meta = {"property": prop, "id": "%s-%s" % (prop, m), "needs_to_manifest": needs,
        "confirmed_by": "tools/confirm_mutant.sh in the scratch worktree %s: demo built against the clean library exits 0; with patch.diff applied the library builds, ctest passes 8/8, the demo exits non-zero" % wt,
        "confirm_result": res, "detected_by": []}
json.dump(meta, open(os.path.join(dst, "meta.json"), "w"), indent=1)
print("imported", dst, res[-60:])
