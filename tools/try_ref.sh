#!/bin/sh
# usage: try_ref.sh <refactor-id> [props...] : apply a refactoring from /verif/refactors to /repo, run checks, undo
ID="$1"; shift
cd /verif
if ! git -C /repo diff --quiet; then echo "refusing: /repo has uncommitted changes"; exit 4; fi
rm -rf /tmp/evidence_save_try && cp -r evidence /tmp/evidence_save_try
git -C /repo apply --whitespace=nowarn /verif/refactors/$ID/patch.diff || { echo "patch does not apply"; exit 3; }
for p in "$@"; do
  ./vcheck "$p" --tier quick > .work/try_$p.log 2>&1; rc=$?
  echo "== $ID vs $p exit=$rc"; grep -E "^  C[0-9]+-|^ANALYSIS|^NOTE|Error" .work/try_$p.log | cut -c1-400 | head -6
done
git -C /repo checkout -- .
rm -rf evidence && mv /tmp/evidence_save_try evidence
