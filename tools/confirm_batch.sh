#!/bin/bash
# usage: confirm_batch.sh <Cxx> [mN...] : confirm the sub-agent's changes in its scratch worktree /tmp/wt/<Cxx> (clean demo passes, suite passes with the
# change, demo fails with the change); appends RESULT lines to /tmp/cm/<Cxx>.log
P="$1"; shift
WT=/tmp/wt/$P
mkdir -p /tmp/cm
for m in "$@"; do
  if [ -f $WT/MUTANTS/$m/demo.sh ] && [ ! -f $WT/MUTANTS/$m/demo.c ]; then
    /verif/tools/confirm_mutant_sh.sh $WT $m 2>&1 | tee -a /tmp/cm/$P.log | grep RESULT
  else
    /verif/tools/confirm_mutant.sh $WT $m 2>&1 | tee -a /tmp/cm/$P.log | grep RESULT
  fi
done
