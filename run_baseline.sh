#!/bin/sh
# Builds /repo with its own CMake (no verification guard defined) into a scratch directory and runs the pinned test suite.
set -e
B=/verif/.work/baseline_build
rm -rf "$B"
mkdir -p "$B"
cmake -G Ninja -S /repo -B "$B" -DCMAKE_BUILD_TYPE=RelWithDebInfo >/dev/null
cmake --build "$B" -j16 >/dev/null
set +e
ctest --test-dir "$B" -j8 --timeout 900 --output-junit "$B/junit.xml"
rc=$?
python3 - "$B/junit.xml" <<'PY'
import sys, xml.etree.ElementTree as ET
t = ET.parse(sys.argv[1]).getroot()
tot = fail = 0
for tc in t.iter("testcase"):
    tot += 1
    if tc.find("failure") is not None or tc.get("status") not in (None, "run"):
        fail += 1
print("baseline: %d ctest entries, %d failed" % (tot, fail))
PY
rm -rf "$B"
exit $rc
