#!/bin/sh
# Builds /repo with its own CMake (no verification guard defined) in the repository's own build directory
# (the tests locate their configuration files relative to it) and runs the pinned test suite.
B=/repo/_build
cmake -G Ninja -S /repo -B "$B" -DCMAKE_BUILD_TYPE=RelWithDebInfo >/dev/null || exit 2
cmake --build "$B" -j16 >/dev/null || exit 2
ctest --test-dir "$B" -j8 --timeout 900 --output-junit "$B/junit_verif.xml"
rc=$?
rm -f "$B/junit_verif.xml"
exit $rc
