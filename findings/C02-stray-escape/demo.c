/*
 * C02: a stray escape byte between two delimiters must not disturb the decoding of the following packet.
 *
 * Stream (low-level debug mode, so every message surfaces through bidib_read_message):
 *
 *   FE <good packet A> FE  FD  FE <good packet B> FE <good packet C> FE
 *
 * The lone 0xFD is a corrupted / truncated frame of its own (it sits between two delimiters); B and C behind it are
 * perfectly good packets and must be delivered, in order, exactly once.
 *
 * exit 0 = A, B, C delivered in order; non-zero otherwise.
 */
#include <stdio.h>
#include <stdlib.h>
#include <string.h>
#include <stdint.h>
#include <unistd.h>

#include "include/bidib.h"
#include "src/transmission/bidib_transmission_intern.h" /* bidib_set_lowlevel_debug_mode */

static uint8_t stream[2048];
static volatile size_t stream_len = 0;
static volatile size_t stream_pos = 0;

static uint8_t crc8(const uint8_t *p, size_t n) {
	uint8_t crc = 0;
	for (size_t i = 0; i < n; i++) {
		crc ^= p[i];
		for (int b = 0; b < 8; b++) {
			crc = (crc & 1) ? (uint8_t) ((crc >> 1) ^ 0x8C) : (uint8_t) (crc >> 1);
		}
	}
	return crc;
}

static void put_raw(uint8_t b) {
	stream[stream_len++] = b;
}

static void put_escaped(uint8_t b) {
	if (b == BIDIB_PKT_MAGIC || b == BIDIB_PKT_ESCAPE) {
		put_raw(BIDIB_PKT_ESCAPE);
		put_raw(b ^ 0x20);
	} else {
		put_raw(b);
	}
}

/* one packet = payload + crc + closing delimiter (opening delimiter is shared) */
static void put_packet(const uint8_t *payload, size_t n) {
	for (size_t i = 0; i < n; i++) {
		put_escaped(payload[i]);
	}
	put_escaped(crc8(payload, n));
	put_raw(BIDIB_PKT_MAGIC);
}

static uint8_t read_byte(int *byte_read) {
	if (stream_pos < stream_len) {
		*byte_read = 1;
		return stream[stream_pos++];
	}
	*byte_read = 0;
	return 0;
}

static void write_bytes(uint8_t *msg, int32_t len) {
	(void) msg;
	(void) len;
}

static uint8_t *wait_message(int timeout_ms) {
	for (int waited = 0; waited < timeout_ms; waited += 5) {
		uint8_t *m = bidib_read_message();
		if (m != NULL) {
			return m;
		}
		usleep(5000);
	}
	return NULL;
}

static int expect(const char *name, const uint8_t *want) {
	uint8_t *got = wait_message(4000);
	if (got == NULL) {
		printf("FAIL: %s was never delivered\n", name);
		return 1;
	}
	int bad = memcmp(got, want, (size_t) want[0] + 1) != 0;
	if (bad) {
		printf("FAIL: expected %s, got a different message (len %d type 0x%02x)\n",
		       name, got[0], got[got[0] >= 4 ? 4 : 0]);
	} else {
		printf("ok: %s delivered\n", name);
	}
	free(got);
	return bad;
}

int main(void) {
	/* node 1, seq 1/2/3, MSG_SYS_PONG / MSG_SYS_P_VERSION style payloads */
	const uint8_t msg_a[] = {0x05, 0x01, 0x00, 0x01, MSG_SYS_PONG, 0x11};
	const uint8_t msg_b[] = {0x05, 0x01, 0x00, 0x02, MSG_SYS_PONG, 0x22};
	const uint8_t msg_c[] = {0x05, 0x01, 0x00, 0x03, MSG_SYS_PONG, 0x33};

	/* self check of the crc helper against the vector of the unit tests */
	const uint8_t vec[] = {0x04, 0x01, 0x00, 0x01, MSG_SYS_MAGIC,
	                       0x04, 0x01, 0x00, 0x02, MSG_SYS_MAGIC};
	if (crc8(vec, sizeof(vec)) != 0x84) {
		printf("demo self check failed\n");
		return 99;
	}

	put_raw(BIDIB_PKT_MAGIC);
	put_packet(msg_a, sizeof(msg_a));
	/* a frame that consists of nothing but an escape byte */
	put_raw(BIDIB_PKT_ESCAPE);
	put_raw(BIDIB_PKT_MAGIC);
	put_packet(msg_b, sizeof(msg_b));
	put_packet(msg_c, sizeof(msg_c));

	bidib_set_lowlevel_debug_mode(true);
	if (bidib_start_pointer(&read_byte, &write_bytes, NULL, 0)) {
		printf("start failed\n");
		return 98;
	}

	int rc = 0;
	rc |= expect("packet A (before the stray escape)", msg_a);
	rc |= expect("packet B (after the stray escape)", msg_b);
	rc |= expect("packet C (after the stray escape)", msg_c);
	if (rc == 0) {
		/* nothing else may surface */
		uint8_t *extra = wait_message(300);
		if (extra != NULL) {
			printf("FAIL: unexpected extra message delivered\n");
			free(extra);
			rc = 1;
		}
	}
	bidib_stop();
	printf(rc ? "PROPERTY VIOLATED\n" : "property held\n");
	return rc;
}
