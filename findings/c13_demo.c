/* Demonstrates the C13 parser finding fixed in /repo: an aspect entry whose first key is not "id" made
 * bidib_config_parse_aspect dereference aspect.id == NULL in the post-loop duplicate scan (crash instead of 'return 1').
 *   gcc -g -w $(pkg-config --cflags glib-2.0) -I/repo/include /repo/src/[a-z]*[a-z]/[a-z]*.c /verif/findings/c13_demo.c $(pkg-config --libs glib-2.0) -lyaml -lpthread -o /tmp/c13_demo
 *   /tmp/c13_demo <config dir whose track config has an aspect entry '- value: 0x00 / id: reverse'>   -> must print "start returned 1" */
#include <stdio.h>
#include <stdint.h>
#include <bidib.h>
static uint8_t rd(int *ok) { *ok = 0; return 0; }
static void wr(uint8_t *b, int32_t n) { (void)b; (void)n; }
int main(int argc, char **argv) {
	int r = bidib_start_pointer(rd, wr, argv[1], 0);
	printf("start returned %d\n", r);
	return r == 1 ? 0 : 1;
}
