/* Demonstrates the C07 finding fixed in /repo: bidib_state_boost_diagnostic walked the (key, value) list with step 1, so a *value*
 * byte equal to a key code was interpreted as a key.  The message below reports voltage = 0 and temperature = 2; before the fix the
 * value byte 0x00 was taken as the key "current" with the following byte (the temperature key 0x02) as its value, so the booster's
 * current became "known, 2 mA" although the message does not mention the current.  The simulated node of the repo's own
 * feedback test is reused for the connection (its main is renamed).
 *   cd /repo/_build && gcc -g -w $(pkg-config --cflags glib-2.0) -I/repo/include -I/repo/src /repo/src/[a-z]*[a-z]/[a-z]*.c /verif/findings/c07_demo.c \
 *        $(pkg-config --libs glib-2.0) -lyaml -lpthread -lcmocka -o /tmp/c07_demo && /tmp/c07_demo      -> exit 0 iff the current stays unknown */
#define main feedback_tests_main
#include "/repo/test/unit/bidib_feedback_tests.c"
#undef main
#include <stdio.h>
int main(void) {
	test_setup();
	if (bidib_start_pointer(&read_byte, &write_bytes, "../test/unit/state_tests_config", 250)) { printf("start failed\n"); return 2; }
	uint8_t addr_stack[] = {0x00, 0x00, 0x00, 0x00};
	uint8_t *m = malloc(8);
	m[0] = 0x07; m[1] = 0x00; m[2] = 0x01; m[3] = MSG_BOOST_DIAGNOSTIC;
	m[4] = 0x01; m[5] = 0x00;      /* voltage = 0 */
	m[6] = 0x02; m[7] = 0x02;      /* temperature = 2 */
	bidib_handle_received_message(m, MSG_BOOST_DIAGNOSTIC, addr_stack, 0x01, 1);
	t_bidib_booster_state_query q = bidib_get_booster_state("board1");
	printf("known=%d current.known=%d current=%d voltage_known=%d voltage=%d temp=%d\n", q.known, q.data.power_consumption.known,
	       q.data.power_consumption.current, q.data.voltage_known, q.data.voltage, q.data.temp_celsius);
	int bad = q.data.power_consumption.known;
	bidib_stop();
	return bad ? 1 : 0;
}
