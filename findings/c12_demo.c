/* Demonstrates the recorded C12 findings against the real code (run under AddressSanitizer):
 *   gcc -g -fsanitize=address -fno-omit-frame-pointer -w $(pkg-config --cflags glib-2.0) -I/repo/include /repo/src/[a-z]*[a-z]/[a-z]*.c \
 *       /verif/findings/c12_demo.c $(pkg-config --libs glib-2.0) -lyaml -lpthread -o /tmp/c12_demo
 *   /tmp/c12_demo scan ; /tmp/c12_demo len
 * scan: bidib_extract_msg_type on a 4-byte message without address terminator -> heap-buffer-overflow (C12-SCAN)
 * len : MSG_NODE_NEW without data bytes dispatched in normal mode -> heap-buffer-overflow read at data_index+k (C12-LEN) */
#include <stdint.h>
#include <stdlib.h>
#include <string.h>
#include <stdio.h>
#include <bidib.h>
uint8_t bidib_extract_msg_type(const uint8_t *const message);
void bidib_handle_received_message(uint8_t *message, uint8_t type, const uint8_t *const addr_stack, uint8_t seqnum, unsigned int action_id);
void bidib_node_state_table_init(void);
int main(int argc, char **argv) {
	if (argc > 1 && !strcmp(argv[1], "scan")) {
		uint8_t *m = malloc(4);
		m[0] = 3; m[1] = 1; m[2] = 1; m[3] = 1;
		printf("type=%d\n", bidib_extract_msg_type(m));
		return 0;
	}
	uint8_t *m = malloc(4);
	m[0] = 3; m[1] = 0; m[2] = 1; m[3] = MSG_NODE_NEW;
	uint8_t addr[4] = {0, 0, 0, 0};
	bidib_handle_received_message(m, MSG_NODE_NEW, addr, 1, 0);
	return 0;
}
