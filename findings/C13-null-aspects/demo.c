/*
 * C13: "for any content of the three configuration files ... starting the library terminates and returns 0 or 1 without crashing".
 *
 * Five configurations that differ from test/unit/state_tests_config in one entry whose first key is not `id`
 * (a board point, a peripheral, a DCC point, a train peripheral with the keys in another order; the second aspect of a DCC point with a misspelt first key).  The parser rejects the
 * entry, but has already appended the half-built record - with NULL pointer members - to its list; the clean-up of the
 * failed start then walks that list.
 *
 * Each start runs in a forked child on a silent interface.  exit 0 = every start returned 1; non-zero = a child crashed
 * or returned something else.
 */
#include <stdio.h>
#include <stdlib.h>
#include <stdint.h>
#include <unistd.h>
#include <sys/wait.h>

#include "include/bidib.h"

static uint8_t read_byte(int *byte_read) { *byte_read = 0; return 0; }
static void write_bytes(uint8_t *msg, int32_t len) { (void) msg; (void) len; }

static int probe(const char *dir) {
	fflush(stdout);
	pid_t pid = fork();
	if (pid == 0) {
		int r = bidib_start_pointer(&read_byte, &write_bytes, dir, 0);
		_exit(r == 1 ? 0 : 3);
	}
	int st = 0;
	waitpid(pid, &st, 0);
	if (WIFSIGNALED(st)) {
		printf("FAIL: start with %s killed by signal %d\n", dir, WTERMSIG(st));
		return 1;
	}
	if (WEXITSTATUS(st) != 0) {
		printf("FAIL: start with %s did not return 1\n", dir);
		return 1;
	}
	printf("ok: start with %s returned 1\n", dir);
	return 0;
}

int main(int argc, char **argv) {
	const char *base = argc > 1 ? argv[1] : "findings/C13-null-aspects";
	const char *variants[] = {"cfg_point", "cfg_peripheral", "cfg_dccpoint", "cfg_trainperiph", "cfg_dccaspect"};
	int rc = 0;
	char path[512];
	for (int i = 0; i < 5; i++) {
		snprintf(path, sizeof(path), "%s/%s", base, variants[i]);
		rc |= probe(path);
	}
	printf(rc ? "PROPERTY VIOLATED\n" : "property held\n");
	return rc;
}
