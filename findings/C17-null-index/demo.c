/*
 * C17: "for every getter x {known id, unknown id, NULL}".  The three index getters bidib_get_point_state_index,
 * bidib_get_signal_state_index and bidib_get_segment_state_index hand a NULL id straight to strcmp.
 *
 * Each getter is called with NULL in a forked child after the library was started with the unit-test configuration
 * (which has board points, board signals and segments, so the comparison loop runs at least once).
 * exit 0 = every call returned (size_t) -1; non-zero = a child crashed or returned something else.
 */
#include <stdio.h>
#include <stdlib.h>
#include <stdint.h>
#include <unistd.h>
#include <sys/wait.h>

#include <stdbool.h>
#include "include/bidib.h"
#include "src/transmission/bidib_transmission_intern.h"

/* start-up dialogue of a one-node bus (the interface itself), as in the unit tests */
static const uint8_t startup[] = {
	BIDIB_PKT_MAGIC, 0x03, 0x00, 0x00, MSG_SYS_MAGIC, 0x5A, BIDIB_PKT_MAGIC,
	BIDIB_PKT_MAGIC, 0x04, 0x00, 0x01, MSG_NODETAB_COUNT, 0x01, 0xB3, BIDIB_PKT_MAGIC,
	BIDIB_PKT_MAGIC, 0x0C, 0x00, 0x02, MSG_NODETAB, 0x01, 0x00, 0xDA, 0x00, 0x0D, 0x68,
	0x00, 0x01, 0xEE, 0x34, BIDIB_PKT_MAGIC,
	0x05, 0x00, 0x03, MSG_FEATURE, 0x01, 0x00, 0x05, 0x00, 0x04, MSG_FEATURE, 0x04, 0x01,
	0x66, BIDIB_PKT_MAGIC
};
static size_t in_pos = 0;

static uint8_t read_byte(int *ok) {
	if (bidib_discard_rx || in_pos >= sizeof(startup)) {
		*ok = 0;
		return 0;
	}
	if (in_pos == 7) {
		static bool waited = false;
		if (!waited) {
			waited = true;
			usleep(2000000);
		}
	}
	*ok = 1;
	return startup[in_pos++];
}
static void write_bytes(uint8_t *msg, int32_t len) { (void) msg; (void) len; }

static int probe(const char *name, size_t (*getter)(const char *)) {
	fflush(stdout);
	pid_t pid = fork();
	if (pid == 0) {
		size_t r = getter(NULL);
		_exit(r == (size_t) -1 ? 0 : 3);
	}
	int st = 0;
	waitpid(pid, &st, 0);
	if (WIFSIGNALED(st)) {
		printf("FAIL: %s(NULL) killed by signal %d\n", name, WTERMSIG(st));
		return 1;
	}
	if (WEXITSTATUS(st) != 0) {
		printf("FAIL: %s(NULL) did not return -1\n", name);
		return 1;
	}
	printf("ok: %s(NULL) returned -1\n", name);
	return 0;
}

int main(void) {
	if (bidib_start_pointer(&read_byte, &write_bytes, "test/unit/state_tests_config", 250)) {
		printf("start failed\n");
		return 98;
	}
	int rc = 0;
	rc |= probe("bidib_get_point_state_index", bidib_get_point_state_index);
	rc |= probe("bidib_get_signal_state_index", bidib_get_signal_state_index);
	rc |= probe("bidib_get_segment_state_index", bidib_get_segment_state_index);
	bidib_stop();
	printf(rc ? "PROPERTY VIOLATED\n" : "property held\n");
	return rc;
}
