#!/bin/sh
# Builds the IR dumper from files on disk only (offline) and byte-compiles the Python package.
set -e
cd "$(dirname "$0")"
clang++ $(llvm-config-14 --cxxflags) -fno-rtti -O1 tools/irdump.cc -o tools/irdump /usr/lib/llvm-14/lib/libLLVM-14.so
python3 -m compileall -q vf >/dev/null
mkdir -p evidence reports .work
echo "setup ok"
