"""Acquire/release pairing over all paths (files and YAML parsers), with constant propagation so that the failure branch of an
acquisition is not mistaken for a leak, and with the acquiring helper inlined into its caller when the helper hands the resource on."""
from . import inline, pathwalk, rules

KINDS = {
    "file": {"acq": {"fopen": "ptr", "fdopen": "ptr", "open": "fd"}, "rel": {"fclose", "close"}},
    "yaml parser": {"acq": {"yaml_parser_initialize": "nonzero"}, "rel": {"yaml_parser_delete"}},
}
ACQ = {n: (k, how) for k, d in KINDS.items() for n, how in d["acq"].items()}
REL = {n: k for k, d in KINDS.items() for n in d["rel"]}


def _cells(f):
    """non-escaping scalar locals, pointer-typed ones included (NULL = 0, a fresh handle = 1)"""
    cand = {}
    for a in f.allocas().values():
        if "size" in a.d and (a["aty"] in pathwalk.INT_TYPES or a["aty"].endswith("*")) and a.get("size", 0) <= 8:
            cand[a.id] = a
    for i in f.all_insts():
        for k, o in pathwalk.operands(i):
            if o.get("k") == "inst" and o["id"] in cand:
                if i.op in ("load", "store") and k == "ptr":
                    continue
                cand.pop(o["id"], None)
    return cand


def leaks(f):
    """[(ret inst, kind, acquisition inst)] for exits of f reached while a resource acquired in f is still held"""
    out = {}
    W = pathwalk.Walker(f, cells=_cells(f), max_states=150000)

    def on_inst(i, u, facts):
        if i.op == "call" and i.callee in ACQ:
            kind, how = ACQ[i.callee]
            ok_val = 1
            fail_val = 0 if how != "fd" else -1
            held = u | frozenset([(kind, i.id)])
            return [pathwalk.Fork(held, {("ret", i.id): ok_val}), pathwalk.Fork(u, {("ret", i.id): fail_val})]
        if i.op == "call" and i.callee in REL:
            kind = REL[i.callee]
            return [frozenset(x for x in u if x[0] != kind)]
        if i.op == "store" and u and i["ptr"].get("k") in ("global", "cexpr"):
            # the handle is put into a session-level object: ownership moves to whoever tears the session down
            v = f.resolve(rules.strip_casts(f, i["val"]))
            if v is not None and v.op == "call" and any(aid == v.id for (k_, aid) in u):
                return [frozenset(x for x in u if x[1] != v.id)]
        return None

    def on_exit(ret, u, facts):
        for (kind, aid) in u:
            out.setdefault((kind, aid), ret)
    W.walk(frozenset(), on_inst, on_exit)
    if W.truncated:
        return None
    return [(ret, kind, f.insts[aid]) for (kind, aid), ret in out.items()]


def check(P, report_ok, report_bad, report_abstain):
    """every function that acquires a resource (directly or through a helper that hands it on) releases it on every path"""
    acquirers = [f for f in P.repo_functions() if any(c.callee in ACQ for c in f.calls())]
    n = 0
    done = set()

    def examine(f, view, chain, depth):
        nonlocal n
        lk = leaks(view)
        if lk is None:
            report_abstain(f, "path enumeration truncated")
            return
        if not lk:
            n += 1
            report_ok(f, chain)
            return
        callers = P.callers().get(f.name, [])
        if not callers or depth >= 2:
            for (ret, kind, acq) in lk:
                n += 1
                report_bad(f, kind, acq, ret, chain)
            return
        # the function hands the resource to its callers: examine each caller with the chain inlined
        for cf in {cf.name: cf for cf, ci in callers}.values():
            key = (cf.name,) + tuple(chain) + (f.name,)
            if key in done:
                continue
            done.add(key)
            names = set(chain) | {f.name}
            got, nf = inline.inline_helpers(P, cf.name, lambda g, names=names: g.name in names, depth=3, replace=False)
            if nf is None:
                report_abstain(cf, "could not inline %s" % f.name)
                continue
            examine(cf, nf, list(chain) + [f.name], depth + 1)
    for f in acquirers:
        examine(f, f, [], 0)
    return n
