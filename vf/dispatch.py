"""Per message type path summaries of the uplink dispatcher (the function with the big switch over MSG_* constants).

For every type code 0..255 the dispatcher is walked path-sensitively (type is a constant, other branches fork); each path yields
the ordered list of events that matter: consumption of the message buffer (free / hand-over to a queue / hand-over to a consuming
callee), calls into the library (with which message-derived arguments), and uses of the buffer after it was consumed.
"""
from collections import defaultdict

from . import flow, pathwalk, rules
from .build import AnalysisBroken


def type_switches(f):
    """parameter index -> switches of f on that parameter"""
    out = {}
    for i in f.all_insts():
        if i.op == "switch":
            src = rules.load_source(f, i["cond"])
            if src and src[0] == "alloca":
                k = f.param_index_of_alloca(f.insts[src[1]])
                if k is not None:
                    out.setdefault(k, []).append(i)
    return out


def find_dispatcher(P):
    """the function whose switch(es) on one of its parameters distinguish at least 30 message types (one big switch today; the same
    function after its cases were distributed over two switches is still the dispatcher)"""
    best = None
    for f in P.repo_functions():
        for k, sws in type_switches(f).items():
            n = len({c[0] & 0xff for sw in sws for c in sw["cases"]})
            if n >= 30 and (best is None or n > best[0]):
                best = (n, f, max(sws, key=lambda s_: len(s_["cases"])), k)
    if best is None:
        raise AnalysisBroken("dispatcher (switch over >= 30 message types) not found")
    n, f, sw, tparam = best
    # message parameter: the pointer parameter that is freed somewhere in the function
    mparam = None
    for c in f.calls("free"):
        for t in flow.origins(f, c.args[0]):
            if t[0] == "param":
                mparam = t[1]
    if mparam is None:
        raise AnalysisBroken("dispatcher's message parameter (freed pointer parameter) not found")
    return f, sw, tparam, mparam


def queue_namers(P):
    """function name -> queue global it appends to (provenance of the queue argument followed through helper parameters)"""
    out = {}
    for f in P.repo_functions():
        for i in f.calls():
            if i.callee in ("g_queue_push_tail", "g_queue_push_head") and i.args:
                for g, namer in flow.global_sources(P, f, i.args[0]):
                    out.setdefault(namer, set()).add(g)
    roles = queue_roles(P)
    return {k: {roles.get(g, g) for g in v} for k, v in out.items()}


def queue_adders(P):
    """function name -> index of the GQueue* parameter it appends to (a generic `add(queue, message, ...)` helper whose caller names the queue)"""
    out = {}
    for f in P.repo_functions():
        for i in f.calls():
            if i.callee in ("g_queue_push_tail", "g_queue_push_head") and i.args:
                src = rules.load_source(f, i.args[0])
                if src and src[0] == "alloca":
                    k = f.param_index_of_alloca(f.insts[src[1]])
                    if k is not None:
                        out[f.name] = k
    return out


def queue_key(P, name, off):
    """a queue object: the global, or one slot of a file-static array of queues"""
    gd = P.globals.get(name) or {}
    return "%s+%d" % (name, off or 0) if str(gd.get("type") or "").startswith("[") else name


def queue_roles(P):
    """queue object -> canonical role name, by the public reader that pops from it (public API names are the stable anchors):
    bidib_read_message -> 'uplink_queue', bidib_read_error_message -> 'uplink_error_queue', bidib_read_intern_message -> 'uplink_intern_queue'"""
    readers = {"bidib_read_message": "uplink_queue", "bidib_read_error_message": "uplink_error_queue", "bidib_read_intern_message": "uplink_intern_queue"}
    roles = {}
    for rn, role in readers.items():
        f = P.functions.get(rn)
        if f is None or not f.blocks:
            continue
        seen = set()
        work = [f]
        while work:
            g = work.pop()
            if g.name in seen:
                continue
            seen.add(g.name)
            for i in g.all_insts():
                if i.op == "load" and i["ptr"].get("k") == "global":
                    gd = P.globals.get(i["ptr"]["name"])
                    qk = queue_key(P, i["ptr"]["name"], i["ptr"].get("off", 0))
                    if gd and gd.get("internal") and "GQueue" in (gd.get("type") or "") and qk not in roles:
                        roles[qk] = role
            # only the reader itself: helpers receive the queue as an argument
    return roles


def consuming_params(P):
    """(function, param index) pairs where the callee takes ownership: frees it, stores it into non-local memory, or passes it on to such a callee"""
    cons = set()
    changed = True
    while changed:
        changed = False
        for f in P.repo_functions():
            for k in range(len(f.params)):
                if (f.name, k) in cons or not f.params[k]["type"].endswith("*") or "byval" in f.params[k]:
                    continue
                hit = False
                for i in f.all_insts():
                    if i.op == "call":
                        for j, a in enumerate(i.args):
                            if a.get("k") not in ("inst", "arg"):
                                continue
                            tags = _deep_param(f, a)
                            if ("param", k) in tags:
                                if i.callee == "free" or (i.callee, j) in cons:
                                    hit = True
                    elif i.op == "store" and i["val"].get("k") in ("inst", "arg"):
                        if ("param", k) in _deep_param(f, i["val"]):
                            ptags = flow.origins(f, i["ptr"])
                            if any(t[0] not in ("alloca",) for t in ptags):
                                hit = True
                if hit:
                    cons.add((f.name, k))
                    changed = True
    return cons


def prepare(w):
    """inline (once per run) the static helpers that only the dispatcher calls and that do part of a case's work (state update, transmit,
    queueing or freeing the message), so that a case body folded into a helper is still seen as part of the case.  Pure log helpers stay calls."""
    if getattr(w, "_disp_prepared", False):
        return w._disp_inlined
    from . import inline
    P = w.P
    f, sw, tparam, mparam = find_dispatcher(P)
    logs = {"syslog_libbidib", "syslog", "vsyslog"}

    namers = queue_namers(P)

    def works(g, depth=0):
        """the helper does part of a case's work: it calls into state tracking or an encoder, decides where the message goes (frees it or
        hands it to a queue wrapper without being one), or computes a value from tracked state that the case branches on
        (pure log / extract helpers and the queue wrappers themselves do not)"""
        if g.name in namers:
            return False
        for c in g.calls():
            if c.callee == "free" or c.callee in namers:
                return True
            h = P.functions.get(c.callee or "")
            if h is None or not h.blocks or c.callee in logs:
                continue
            if g.ret != "void" and h.relfile.startswith("src/state/"):
                return True
            if h.relfile.startswith(("src/state/", "src/lowlevel/", "src/highlevel/")) and not h.ret.endswith("*"):
                return True
            if h.internal and h.relfile == g.relfile and depth < 2 and works(h, depth + 1):
                return True
        return False

    adders = queue_adders(P)

    def pred(g):
        if not g.internal or g.relfile != f.relfile or g.name in P.addr_taken():
            return False
        if g.name in adders:
            return False        # the generic `add(queue, message)` primitive stays a call: it is the hand-over event itself
        cs = P.callers().get(g.name, [])
        return bool(cs) and all(cf.name == f.name for cf, ci in cs) and works(g)
    done = inline.inline_helpers(P, f.name, pred)
    w._disp_prepared = True
    w._disp_inlined = done
    return done


class Dispatch:
    def __init__(self, w):
        self.w = w
        prepare(w)
        P = self.P = w.P
        self.fn, self.sw, self.tparam, self.mparam = find_dispatcher(P)
        self.namers = queue_namers(P)
        self.adders = queue_adders(P)
        self.qroles = queue_roles(P)
        self.cons = consuming_params(P)
        f = self.fn
        # instructions whose operand derives from the message parameter
        self.msg_uses = {}
        for i in f.all_insts():
            if i.op == "load":
                if ("param", self.mparam) in _deep_param(f, i["ptr"]):
                    # loading the spilled parameter itself is not a use of the buffer
                    a = f.resolve(i["ptr"])
                    if a is not None and a.op == "alloca":
                        continue
                    self.msg_uses[i.id] = "read"
            elif i.op == "call":
                for j, a in enumerate(i.args):
                    if a.get("k") in ("inst", "arg") and ("param", self.mparam) in _deep_param(f, a):
                        self.msg_uses[i.id] = "arg%d" % j
        self.switches = type_switches(f).get(self.tparam, [self.sw])
        self.case_values = sorted({c[0] & 0xff for sw_ in self.switches for c in sw_["cases"]})
        self._summ = {}

    def _queue_arg(self, call):
        k = self.adders.get(call.callee)
        if k is None or k >= len(call.args):
            return None
        a = rules.resolve_local(self.fn, rules.strip_casts(self.fn, call.args[k]))
        src = rules.load_source(self.fn, a)
        if src and src[0] == "global":
            qk = queue_key(self.P, src[1], src[2] if len(src) > 2 else 0)
            return self.qroles.get(qk, qk)
        return None

    def msg_arg_positions(self, call):
        f = self.fn
        out = []
        for j, a in enumerate(call.args):
            if a.get("k") in ("inst", "arg") and ("param", self.mparam) in _deep_param(f, a):
                out.append(j)
        return out

    def summaries(self, tval):
        """set of paths; each path = tuple of events:
           ('free', line) ('queue', global, line) ('consume', callee, line) ('call', callee, line, inst id) ('use-after', line)"""
        if tval in self._summ:
            return self._summ[tval]
        f = self.fn
        P = self.P
        paths = set()

        def on_inst(inst, u, facts):
            ev = None
            consumed = any(e[0] in ("free", "queue", "consume") for e in u)
            if inst.id in self.msg_uses and consumed:
                if not (inst.op == "call" and inst.callee and inst.callee.startswith("llvm.")):
                    ev = ("use-after", inst.line)
            if inst.op == "call" and inst.callee and not inst.callee.startswith("llvm."):
                pos = self.msg_arg_positions(inst)
                if inst.callee == "free" and pos:
                    ev2 = ("free", inst.line)
                elif inst.callee in self.adders and pos and self._queue_arg(inst) is not None:
                    # the generic adder called directly with the queue object (the per-queue wrapper inlined into the case)
                    ev2 = ("queue", self._queue_arg(inst), inst.line)
                elif inst.callee in self.namers and pos:
                    ev2 = ("queue", tuple(sorted(self.namers[inst.callee]))[0], inst.line)
                elif pos and any((inst.callee, j) in self.cons for j in pos):
                    ev2 = ("consume", inst.callee, inst.line)
                elif inst.callee in P.functions and P.functions[inst.callee].blocks:
                    ev2 = ("call", inst.callee, inst.line, inst.id)
                else:
                    ev2 = None
                evs = [e for e in (ev, ev2) if e]
                if evs and len(u) < 40:
                    return [u + tuple(evs)]
                return None
            if ev and len(u) < 40:
                return [u + (ev,)]
            return None

        def on_exit(ret, u, facts):
            paths.add(u)

        wk = pathwalk.Walker(f, argvals={self.tparam: tval}, max_states=400000)
        wk.walk((), on_inst, on_exit)
        if wk.truncated:
            raise AnalysisBroken("dispatcher walk truncated for type 0x%02x" % tval)
        if not paths:
            raise AnalysisBroken("no path through the dispatcher for type 0x%02x" % tval)
        self._summ[tval] = paths
        return paths


def _deep_param(f, o, depth=0):
    """origins that denote the *pointer* (the parameter itself or the address of one of its elements), not values loaded through it"""
    out = set()
    for t in flow.origins(f, o):
        x = t
        while x[0] == "elem" and isinstance(x[1], tuple):
            x = x[1]
        if x[0] == "param":
            out.add(x)
    return out
