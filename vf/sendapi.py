"""The downlink message constructors and their call sites (roles, not names)."""
from . import rules
from .build import AnalysisBroken

SEND_FIELD = "t_bidib_node_state.send_seqnum"


class SendAPI:
    def __init__(self, w):
        P = self.P = w.P
        # sequence-number allocators
        allocs = set()
        for f in P.repo_functions():
            if f.ret == "void":
                continue
            for i in f.all_insts():
                if i.op == "getelementptr" and rules.field_path_of_ptr(P, f, {"k": "inst", "id": i.id}) == SEND_FIELD:
                    if not any(s.op == "store" and s["ptr"].get("k") == "inst" and s["ptr"]["id"] == i.id and s["val"].get("k") == "const" for s in f.all_insts()):
                        allocs.add(f.name)
        if not allocs:
            raise AnalysisBroken("sequence-number allocator not found")
        self.allocators = allocs
        # constructors: call an allocator
        self.constructors = {}
        def reaches_alloc_through_statics(f, depth=0, seen=None):
            seen = seen if seen is not None else set()
            for c in f.calls():
                if c.callee in allocs:
                    return True
                g = P.functions.get(c.callee or "")
                if g is not None and g.blocks and g.internal and g.name not in seen and depth < 3:
                    seen.add(g.name)
                    if reaches_alloc_through_statics(g, depth + 1, seen):
                        return True
            return False
        for f in P.repo_functions():
            # a constructor is the externally visible function that draws the number itself or through its own static helpers
            if not f.internal and f.name not in allocs and reaches_alloc_through_statics(f):
                # parameter roles: the i8 parameter stored as the type byte = the one also passed on to the hand-off; use DI names when present
                names = [a.get("var") for a in sorted(f.allocas().values(), key=lambda a: a.id) if a.get("param")]
                pidx = {}
                for a in f.allocas().values():
                    if a.get("param"):
                        pidx[a["var"]] = a["param"] - 1
                self.constructors[f.name] = pidx
        if len(self.constructors) < 2:
            raise AnalysisBroken("message constructors not found")
        # call sites
        self.sites = []   # (fn, call, constructor name)
        for f in P.repo_functions():
            for c in f.calls():
                if c.callee in self.constructors and f.name not in self.constructors:
                    self.sites.append((f, c, c.callee))

    def type_arg(self, call):
        pidx = self.constructors[call.callee]
        k = pidx.get("msg_type")
        if k is None:
            # second parameter by position (addr_stack, type, ...)
            k = 1
        return call.args[k]

    def len_arg(self, call):
        pidx = self.constructors[call.callee]
        k = pidx.get("data_length")
        return call.args[k] if k is not None and k < len(call.args) else None

    def data_arg(self, call):
        pidx = self.constructors[call.callee]
        k = pidx.get("data")
        return call.args[k] if k is not None and k < len(call.args) else None

    def addr_arg(self, call):
        pidx = self.constructors[call.callee]
        k = pidx.get("addr_stack", 0)
        return call.args[k]

    def type_values(self, f, c, depth=0):
        """[(function that supplies the literal, call there, literal)] for the type argument of constructor call c in f; when f is a static
        helper that forwards one of its parameters, the literals are taken from its call sites; None if some site passes no literal"""
        o = rules.resolve_local(f, rules.strip_casts(f, self.type_arg(c)))
        t = rules.const_of(f, o)
        if t is not None:
            return [(f, c, t & 0xff)]
        src = rules.load_source(f, o)
        k = None
        if o.get("k") == "arg":
            k = o["i"]
        elif src and src[0] == "alloca":
            stores = [s_ for s_ in f.all_insts() if s_.op == "store" and s_["ptr"].get("k") == "inst" and s_["ptr"]["id"] == src[1]]
            if len(stores) == 1:
                k = f.param_index_of_alloca(f.insts[src[1]])
        if depth < 2 and f.internal and k is not None:
            if True:
                out = []
                cs = self.P.callers().get(f.name, [])
                for cf, ci in cs:
                    tv = rules.const_of(cf, rules.resolve_local(cf, rules.strip_casts(cf, ci.args[k]))) if k < len(ci.args) else None
                    if tv is None:
                        return None
                    out.append((cf, ci, tv & 0xff))
                return out or None
        return None

    def senders_of(self, types):
        """functions that submit a message with a constant type in `types` (directly or through a static helper they hand the type to)"""
        out = {}
        for (f, c, ctor) in self.sites:
            for (g, cc, t) in (self.type_values(f, c) or []):
                if t in types:
                    out.setdefault(g.name, []).append((cc, t))
        return out

    def transmit_reaching_calls(self, fn):
        """calls in fn that (transitively) reach a constructor"""
        return [c for c in fn.calls() if c.callee and (c.callee in self.constructors or rules.call_reaches(self.P, c, set(self.constructors)))]
