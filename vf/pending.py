"""'An event must be followed by a discharge before control leaves the scope' - decided path-sensitively.

The walk propagates constants through _Bool locals, so the idiom
        changed |= helper(...);  ...  if (changed) discharge();
is followed exactly (and its broken sibling `changed = helper(...)` inside a loop is not).  Helpers that contain the event are
summarised as a set of outcomes (event still pending?, returned constant or None) and the caller is walked with those outcomes.
"""
from . import pathwalk


def bool_cells(f):
    t = pathwalk.tracked_cells(f)
    return {k: a for k, a in t.items() if f.is_bool_alloca(a) or a["aty"] == "i1"}


class Pending:
    def __init__(self, P, is_event, is_discharge, max_states=150000):
        """is_event(fn, inst) / is_discharge(fn, inst): predicates on call (or other) instructions"""
        self.P = P
        self.is_event = is_event
        self.is_discharge = is_discharge
        self.max_states = max_states
        self._sum = {}
        self._reach = {}

    def reaches_event(self, g):
        if g.name in self._reach:
            return self._reach[g.name]
        self._reach[g.name] = False
        r = False
        for i in g.all_insts():
            if self.is_event(g, i):
                r = True
                break
            if i.op == "call" and i.callee in self.P.functions:
                h = self.P.functions[i.callee]
                if h.blocks and h is not g and self.reaches_event(h):
                    r = True
                    break
        self._reach[g.name] = r
        return r

    def _on_inst(self, f, depth):
        def on_inst(i, u, facts):
            if self.is_event(f, i):
                return [True]
            if self.is_discharge(f, i):
                return [False]
            if i.op == "call" and i.callee in self.P.functions:
                g = self.P.functions[i.callee]
                if g.blocks and g is not f and depth < 3 and self.reaches_event(g):
                    return [pathwalk.Fork(u or m, {("ret", i.id): r}) for (m, r) in self.summary(g, depth + 1)]
            return None
        return on_inst

    def summary(self, f, depth=0):
        """set of (pending at return, returned constant or None)"""
        if f.name in self._sum:
            return self._sum[f.name]
        self._sum[f.name] = {(True, None)}
        out = set()
        W = pathwalk.Walker(f, cells=bool_cells(f), max_states=self.max_states)

        def on_exit(ret, u, facts):
            out.add((bool(u), W.ev(ret["val"], facts) if "val" in ret.d else None))
        W.walk(False, self._on_inst(f, depth), on_exit)
        if W.truncated:
            out.add((True, None))
        self._sum[f.name] = out
        return out

    def leaks_at(self, f, leaves=None):
        """instructions at which control leaves f's scope (return, or an instruction satisfying leaves) with the event pending; [] if none;
        None if the walk was truncated"""
        bad = []
        W = pathwalk.Walker(f, cells=bool_cells(f), max_states=self.max_states)
        base = self._on_inst(f, 0)

        def on_inst(i, u, facts):
            if leaves is not None and leaves(i):
                if u:
                    bad.append(i)
                return [False]
            return base(i, u, facts)

        def on_exit(ret, u, facts):
            if u:
                bad.append(ret)
        W.walk(False, on_inst, on_exit)
        if W.truncated and not bad:
            return None
        return bad
