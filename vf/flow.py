"""Flow-insensitive value provenance inside a function, plus expansion through parameters over all callers."""


def origins(fn, o, depth=0, seen=None):
    """operand -> set of tags:
       ('gload', g, off)  value loaded from global g at byte offset off
       ('gaddr', g, off)  address of global g (+off)
       ('param', k)       value of parameter k
       ('call', callee, inst id)
       ('alloca', id)     address of a local
       ('const', v) / ('null',) / ('func', name) / ('field', inner-tag, off) load through a pointer / ('unknown',)
    """
    seen = seen if seen is not None else set()
    k = o.get("k")
    if k == "global":
        return {("gaddr", o["name"], o.get("off", 0))}
    if k == "arg":
        return {("param", o["i"])}
    if k == "const":
        return {("const", o["v"])}
    if k == "null":
        return {("null",)}
    if k == "func":
        return {("func", o["name"])}
    if k != "inst":
        return {("unknown",)}
    if depth > 12 or o["id"] in seen:
        return {("unknown",)}
    seen = seen | {o["id"]}
    i = fn.insts[o["id"]]
    op = i.op
    if op == "alloca":
        return {("alloca", i.id)}
    if op in ("bitcast", "zext", "sext", "trunc", "ptrtoint", "inttoptr", "addrspacecast"):
        return origins(fn, i["a"], depth + 1, seen)
    if op == "getelementptr":
        base = origins(fn, i["base"], depth + 1, seen)
        out = set()
        var = bool(i["idx"])
        for t in base:
            if t[0] == "gaddr":
                out.add(("gaddr", t[1], None if var or t[2] is None else t[2] + i["off"]))
            elif t[0] == "alloca":
                out.add(("alloca", t[1]))
            else:
                out.add(("elem", t, None if var else i["off"]))
        return out
    if op == "load":
        p = origins(fn, i["ptr"], depth + 1, seen)
        out = set()
        for t in p:
            if t[0] == "gaddr":
                out.add(("gload", t[1], t[2]))
            elif t[0] == "alloca":
                # all stores to this local (flow-insensitive)
                found = False
                for s in fn.all_insts():
                    if s.op == "store":
                        sp = s["ptr"]
                        if sp.get("k") == "inst" and sp["id"] == t[1]:
                            found = True
                            out |= origins(fn, s["val"], depth + 1, seen)
                if not found:
                    out.add(("unknown",))
            elif t[0] == "elem":
                out.add(("field", t[1], t[2]))
            else:
                out.add(("field", t, 0))
        return out
    if op == "phi":
        out = set()
        for b, v in i["incoming"]:
            out |= origins(fn, v, depth + 1, seen)
        return out
    if op == "select":
        return origins(fn, i["a"], depth + 1, seen) | origins(fn, i["b"], depth + 1, seen)
    if op == "call":
        return {("call", i.callee, i.id)}
    return {("unknown",)}


def expand_params(P, fn, tags, depth=0, visited=None):
    """replace ('param', k) tags by the origins of the k-th argument at every call site of fn (transitively).
    Returns set of (tag, function in which the tag was found)."""
    visited = visited if visited is not None else set()
    out = set()
    for t in tags:
        if t[0] == "param":
            key = (fn.name, t[1])
            if key in visited or depth > 8:
                out.add((("unknown",), fn.name))
                continue
            visited = visited | {key}
            cs = P.callers().get(fn.name, [])
            if not cs:
                out.add((t, fn.name))
            for cf, ci in cs:
                if t[1] < len(ci.args):
                    out |= expand_params(P, cf, origins(cf, ci.args[t[1]]), depth + 1, visited)
        else:
            out.add((t, fn.name))
    return out


def global_sources(P, fn, o):
    """set of (global name, naming function) the operand's value may have been loaded from"""
    out = set()
    for t, f in expand_params(P, fn, origins(fn, o)):
        if t[0] == "gload":
            gd = P.globals.get(t[1]) or {}
            if str(gd.get("type") or "").startswith("[") and str(gd.get("type")).rstrip("]").endswith("*") and gd.get("internal") and len(t) > 2 and t[2] is not None:
                out.add(("%s+%d" % (t[1], t[2]), f))          # one slot of a file-static array of object pointers is an object of its own
            else:
                out.add((t[1], f))
    return out
