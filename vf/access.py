"""Shared-region accesses joined with locksets and thread classes (E3 x E4)."""
import re
from collections import defaultdict

from . import locks, lockrun, regions
from .build import AnalysisBroken

# region root -> lock.  One line of reason each; cross-checked against inference on every run (majority lock at the
# accesses must be the tabled one); when a tabled name no longer exists the row falls back to the inferred lock.
TABLE = {
    "bidib_boards": ("bidib_boards_rwlock", "comment in bidib_highlevel_util.c: rwlocks protect bidib_boards/bidib_trains; getter contracts"),
    "bidib_trains": ("bidib_trains_rwlock", "same"),
    "node_state_table": ("bidib_node_state_table_mutex", "TU-static table, every accessor takes the mutex"),
    "buffer": ("bidib_send_buffer_mutex", "comment on bidib_flush_impl"),
    "buffer_aux": ("bidib_send_buffer_mutex", "same"),
    "buffer_index": ("bidib_send_buffer_mutex", "same"),
    "pkt_max_cap": ("bidib_send_buffer_mutex", "same"),
    "uplink_queue": ("bidib_uplink_queue_mutex", "TU-static queue with mutex wrappers"),
    "uplink_error_queue": ("bidib_uplink_error_queue_mutex", "same"),
    "uplink_intern_queue": ("bidib_uplink_intern_queue_mutex", "same"),
    "action_id": ("bidib_action_id_mutex", "sole accessor takes the mutex"),
}
# globals that are configuration, callbacks or flags rather than lock-protected regions; handled by their own rules
FLAGS = ("bidib_running", "bidib_discard_rx", "bidib_lowlevel_debug_mode", "bidib_seq_num_enabled")


class Access:
    __slots__ = ("region", "field", "mode", "ls", "labels", "fn", "inst", "what", "ctx")

    def __init__(self, region, field, mode, ls, labels, fn, inst, what, ctx):
        self.region, self.field, self.mode, self.ls, self.labels = region, field, mode, ls, labels
        self.fn, self.inst, self.what, self.ctx = fn, inst, what, ctx

    def loc(self):
        return self.inst.loc()


def interesting(inst):
    if inst.op in ("load", "store"):
        p = inst["ptr"]
        if p.get("k") == "global":
            return True
        if p.get("k") == "inst":
            q = inst.fn.insts[p["id"]]
            return q.op != "alloca"
        return True
    return False


def parallel(la, lb):
    """can an access from root class set la run in parallel with one from lb?"""
    for a in la:
        for b in lb:
            if a == "ORPHAN" or b == "ORPHAN":
                continue
            if a == "API" and b == "API":
                return True
            if a == "ADMIN" and b == "ADMIN":
                continue
            if {a, b} == {"ADMIN", "API"}:
                continue
            if a.startswith("THREAD") and b.startswith("THREAD"):
                if a != b:
                    return True
                continue
            return True     # API/ADMIN with a THREAD
    return False


class AccessDB:
    def __init__(self, world):
        self.w = world
        P = world.P
        self.E = world.lock_engine(interesting=interesting)
        self.labels, self.st_edges, self.st_why = lockrun.concurrent_contexts(world, self.E)
        self.R = regions.Regions(world, self.E, allowed=set(self.labels), excluded_edges=self.st_edges)
        self.guard = regions.guarded_by_comments(world.repo)
        self.accesses = []
        self.unlocked_insts = 0
        for key, labs in self.labels.items():
            ctx = self.E.ctxs[key]
            fn = ctx.fn
            if not fn.relfile.startswith("src/"):
                continue
            for (inst, mode, roots, field, what) in self.R.accesses(key):
                states = ctx.inst_states.get(inst.id)
                if states is None:
                    continue
                for r in roots:
                    g = P.globals.get(r[1])
                    if g is None or g.get("const") or r[1].startswith(".str") or r[1].startswith("__const"):
                        continue
                    if "pthread_" in g["type"]:
                        continue
                    top = self.R.top_field(r[1], r[2]) if g["type"].startswith("%struct") else None
                    if g["type"].startswith("[") and g["type"].rstrip("]").endswith("*") and r[2] is not None and g.get("internal"):
                        # a file-static array of object pointers used slot by slot (`queues[ERROR_QUEUE]`): every constant slot is an object of its own
                        top = "[%d]" % (r[2] // 8)
                    region = (r[1], top)
                    for ls in states:
                        # unknown location inside a heap object is a wildcard (None) for the race rule; the global slot itself is "<in>"
                        self.accesses.append(Access(region, field or ("<in>" if r[0] == "in" else None), mode, ls, labs, fn, inst, what, key))
        self.by_region = defaultdict(list)
        for a in self.accesses:
            self.by_region[a.region].append(a)

    def lock_of(self, region):
        """(lock, source) for a region; None when the region has no designated lock"""
        g, top = region
        E = self.E
        gd = self.w.P.globals.get(g)
        tname = self.w.P.di_name(gd.get("ditype", -1)) if gd else None
        if top is not None and (tname, top) in self.guard and self.guard[(tname, top)] in E.locks:
            return self.guard[(tname, top)], "guarded-by comment in the definition of %s" % tname
        if g in TABLE:
            l, why = TABLE[g]
            if l in E.locks:
                return l, "table: " + why
            inf = self.inferred(region)
            if inf:
                return inf, "inferred (tabled lock %s no longer exists)" % l
        # a file-static object that is not in the table (renamed, or new): the lock held at the majority of its accesses
        if gd is not None and gd.get("internal") and (top is None or top.startswith("[")):
            inf = self.inferred(region)
            if inf:
                return inf, "inferred from the accesses (file-static object without a table row)"
        return None, None

    def inferred(self, region):
        cnt = defaultdict(int)
        n = 0
        for a in self.by_region.get(region, ()):
            n += 1
            for (l, m, c) in a.ls:
                cnt[l] += 1
        if not cnt:
            return None
        l, c = max(cnt.items(), key=lambda kv: kv[1])
        return l if c * 2 > n else None


def protects(la, lb):
    """do locksets la and lb share a lock that excludes the two accesses from each other?"""
    for (l, m, c) in la:
        for (l2, m2, c2) in lb:
            if l == l2 and not (m == "R" and m2 == "R"):
                return True
    return False


STRING_CALLS = ("strcmp", "strncmp", "strlen", "strdup", "strndup", "strcpy", "strncpy", "strchr", "strstr", "g_strdup", "syslog", "snprintf", "sprintf", "vsnprintf")


def may_alias(a, b):
    """can two accesses to the same region with these labels touch the same bytes?  Equal labels do; an unknown label (None)
    is a wildcard, except that a string-content access (strcmp & co. on a char buffer) cannot touch a struct member"""
    if a.field == b.field:
        return True
    if a.field is not None and b.field is not None:
        return False
    unk, other = (a, b) if a.field is None else (b, a)
    if unk.what.startswith("call ") and unk.what.split()[1] in STRING_CALLS:
        return other.field is None or other.field.startswith("*")
    return True


def races(db):
    """list of (region, field, write access, other access) for conflicting parallel accesses without a common protecting lock"""
    out = []
    for region, accs in db.by_region.items():
        if region[0] in FLAGS:
            continue
        byf = defaultdict(list)
        for a in accs:
            byf[a.field].append(a)
        wild = byf.get(None, [])
        for f, group in byf.items():
            cands = group + (wild if f is not None else [])
            writes = [a for a in cands if a.mode == "w"]
            if not writes:
                continue
            seen = set()
            for wa in writes:
                for b in cands:
                    if not may_alias(wa, b):
                        continue
                    if b is wa:
                        # a write racing with itself from two threads of a multi-instance class
                        if not parallel(wa.labels, wa.labels) or protects(wa.ls, wa.ls):
                            continue
                    elif not parallel(wa.labels, b.labels) or protects(wa.ls, b.ls):
                        continue
                    k = (wa.fn.name, wa.inst.id, b.fn.name, b.inst.id)
                    if k in seen:
                        continue
                    seen.add(k)
                    out.append((region, f, wa, b))
    return out
