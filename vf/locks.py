"""E3: path-sensitive lockset analysis over the program model.

State = (lockset, facts).  lockset: sorted tuple of (lock, mode, count), mode in M/R/W.
facts: sorted tuple of (alloca id, 0/1) for non-escaping bool cells (the `bool lock` idiom).
Context = (function, abstract args, entry lockset); callee summaries are memoised per context.
No merging of lock states: an unlock ladder is followed exactly.
"""
import glob, os, re
from collections import defaultdict, deque

from .build import AnalysisBroken


def table_locks(P, fn, o, locks=None):
    """operand is table[i] with table a constant array of lock addresses and i the counter of a loop over the whole table -> lock names in table order"""
    from . import rules
    i = fn.resolve(rules.strip_casts(fn, o)) if o.get("k") == "inst" else None
    if i is None or i.op != "load":
        return None
    g = fn.resolve(i["ptr"])
    if g is None or g.op != "getelementptr" or g["base"].get("k") != "global" or len(g["idx"]) != 1:
        return None
    gd = P.globals.get(g["base"]["name"])
    if not gd or not gd.get("const") or not isinstance(gd.get("init"), list) or not gd["init"]:
        return None
    names = [x.get("g") for x in gd["init"] if isinstance(x, dict) and x.get("off", 0) == 0 and x.get("g")]
    if len(names) != len(gd["init"]) or (locks is not None and any(n not in locks for n in names)):
        return None
    # the subscript is i or i - 1 of a counter that runs over 0..N
    iv = fn.resolve(rules.strip_casts(fn, g["idx"][0]["v"]))
    if iv is not None and iv.op in ("add", "sub") and rules.const_of(fn, iv["b"]) in (1, -1):
        iv = fn.resolve(rules.strip_casts(fn, iv["a"]))
    if iv is None or iv.op != "load" or iv["ptr"].get("k") != "inst":
        return None
    cell = iv["ptr"]["id"]
    sts = [s for s in fn.all_insts() if s.op == "store" and s["ptr"].get("k") == "inst" and s["ptr"]["id"] == cell]
    n = len(names)
    init = [s for s in sts if rules.const_of(fn, s["val"]) in (0, n)]
    cmpd = any(c.op == "icmp" and rules.const_of(fn, c["b"]) in (0, n) and (rules.load_source(fn, c["a"]) or (None, None))[1] == cell for c in fn.all_insts())
    if len(sts) != 2 or len(init) != 1 or not cmpd:
        return None
    return names

ACQ = {
    "pthread_mutex_lock": "M",
    "pthread_rwlock_rdlock": "R",
    "pthread_rwlock_wrlock": "W",
}
REL = {"pthread_mutex_unlock", "pthread_rwlock_unlock"}
TRY = {"pthread_mutex_trylock", "pthread_rwlock_tryrdlock", "pthread_rwlock_trywrlock", "pthread_mutex_timedlock",
       "pthread_rwlock_timedrdlock", "pthread_rwlock_timedwrlock"}
INIT = {"pthread_mutex_init", "pthread_rwlock_init"}


def operands(i):
    d = i.d
    for k in ("ptr", "val", "a", "b", "base", "cond", "fptr", "count"):
        v = d.get(k)
        if isinstance(v, dict):
            yield k, v
    for x in d.get("idx", ()):
        yield "idx", x["v"]
    for x in d.get("args", ()):
        yield "arg", x
    for x in d.get("incoming", ()):
        yield "incoming", x[1]
    for x in d.get("operands", ()):
        yield "operand", x


def lock_globals(prog):
    out = {}
    for g in prog.globals.values():
        if g.get("decl"):
            continue
        if "pthread_mutex_t" in g["type"] and g["type"].startswith("%union"):
            out[g["name"]] = "mutex"
        elif "pthread_rwlock_t" in g["type"] and g["type"].startswith("%union"):
            out[g["name"]] = "rwlock"
    return out


def ls_add(ls, lock, mode):
    d = {l: (m, c) for l, m, c in ls}
    if lock in d:
        m, c = d[lock]
        d[lock] = (m, min(c + 1, 3))   # saturating: a leak inside a loop must not make the state space infinite
    else:
        d[lock] = (mode, 1)
    return tuple(sorted((l, m, c) for l, (m, c) in d.items()))


def ls_remove(ls, lock):
    d = {l: (m, c) for l, m, c in ls}
    m, c = d[lock]
    if c >= 3:
        pass            # saturated ("many", only after a leak inside a loop): stays saturated
    elif c > 1:
        d[lock] = (m, c - 1)
    else:
        del d[lock]
    return tuple(sorted((l, m, c) for l, (m, c) in d.items()))


def ls_get(ls, lock):
    for l, m, c in ls:
        if l == lock:
            return m
    return None


def ls_str(ls):
    return "{" + ", ".join("%s:%s" % (l, m) + ("x%d" % c if c > 1 else "") for l, m, c in ls) + "}"


class Ctx:
    __slots__ = ("key", "fn", "args", "entry", "exits", "inst_states", "calls", "parent", "done", "acquires", "recursive")

    def __init__(self, key, fn, args, entry, parent):
        self.key = key
        self.fn = fn
        self.args = args
        self.entry = entry
        self.exits = set()          # locksets at return
        self.inst_states = {}       # inst id -> set of locksets (only for 'interesting' instructions)
        self.calls = []             # (inst, callee ctx key, lockset)
        self.parent = parent        # (parent ctx key, inst) of first discovery
        self.done = False
        self.acquires = set()       # transitive (lock, mode)
        self.recursive = False


class LockEngine:
    def __init__(self, prog, interesting=None):
        self.prog = prog
        self.locks = lock_globals(prog)
        self.ctxs = {}
        self.violations = []     # dicts
        self.notes = []
        self.edges = defaultdict(list)   # (A, modeA, B, modeB) -> [witness]
        self.acq_sites = set()           # (fn name, inst id)
        self.acq_events = 0
        self._tracked = {}
        self._stack = []
        self.interesting = interesting   # optional predicate(inst) -> bool: record locksets at these instructions
        self.roots = {}                  # ctx key -> root label
        self.ext_callbacks = []

    # ------------------------------------------------------------------ tracked bool cells
    def tracked(self, fn):
        t = self._tracked.get(fn.name)
        if t is not None:
            return t
        cand = {}
        for a in fn.allocas().values():
            if a["aty"] in ("i8", "i1") and "size" in a and fn.is_bool_alloca(a):
                cand[a.id] = True
        for i in fn.all_insts():
            for k, o in operands(i):
                if o.get("k") == "inst" and o["id"] in cand:
                    if (i.op == "load" and k == "ptr") or (i.op == "store" and k == "ptr"):
                        continue
                    cand.pop(o["id"], None)
        # keep only cells that can matter for locks: spilled bool parameters, and locals with a truth-test
        # branch whose controlled region contains a direct lock operation (tracking is a precision
        # refinement only; dropping a cell explores both arms uncorrelated, which is still sound)
        keep = {}
        for aid in cand:
            al = fn.insts[aid]
            if fn.param_index_of_alloca_z(al) is not None:
                keep[aid] = True
        lockblocks = {b.id for b in fn.blocks for i in b.insts if i.op == "call" and (i.callee in ACQ or i.callee in REL)}
        if lockblocks and len(keep) < len(cand):
            pd = fn.pdom()
            for b in fn.blocks:
                t = b.term
                if t.op == "br" and "cond" in t.d:
                    rc = self._root_cell_in(fn, t["cond"], cand)
                    if rc is None or rc[0] in keep:
                        continue
                    avoid = set(pd.get(b.id, ())) - {b.id}
                    for s in b.succ:
                        if fn.reachable_from(s, avoid) & lockblocks:
                            keep[rc[0]] = True
        self._tracked[fn.name] = keep
        return keep

    def _root_cell_in(self, fn, o, cand, depth=0):
        if o.get("k") != "inst" or depth > 6:
            return None
        i = fn.insts[o["id"]]
        if i.op in ("trunc", "zext"):
            return self._root_cell_in(fn, i["a"], cand, depth + 1)
        if i.op == "load":
            p = i["ptr"]
            return (p["id"], 1) if p.get("k") == "inst" and p["id"] in cand else None
        if i.op == "icmp" and i["pred"] in ("eq", "ne") and i["b"].get("k") == "const" and i["b"]["v"] == 0:
            return self._root_cell_in(fn, i["a"], cand, depth + 1)
        if i.op == "xor":
            return self._root_cell_in(fn, i["a"], cand, depth + 1)
        return None

    def ev(self, fn, o, facts, args, depth=0):
        """evaluate operand to an int constant or None"""
        k = o.get("k")
        if k == "const":
            return o["v"]
        if k == "arg":
            a = args[o["i"]] if o["i"] < len(args) else None
            if a is not None and a[0] == "c":
                return a[1]
            return None
        if k != "inst" or depth > 6:
            return None
        i = fn.insts[o["id"]]
        if i.op in ("trunc", "zext", "sext"):
            v = self.ev(fn, i["a"], facts, args, depth + 1)
            if v is None:
                return None
            if i.op == "trunc" and i["ty"] == "i1":
                return v & 1
            return v
        if i.op == "load":
            p = i["ptr"]
            if p.get("k") == "inst" and p["id"] in self.tracked(fn):
                return facts.get(p["id"])
            if p.get("k") == "inst":
                # a mode parameter (`t_mutex_mode mode` instead of `bool lock`) that is never reassigned: the constant bound in this context
                k_ = self._const_param_cell(fn, p["id"])
                if k_ is not None and k_ < len(args) and args[k_] is not None and args[k_][0] == "c":
                    return args[k_][1]
            return None
        if i.op == "icmp":
            a = self.ev(fn, i["a"], facts, args, depth + 1)
            b = self.ev(fn, i["b"], facts, args, depth + 1)
            if (a is None or b is None) and i["pred"] in ("eq", "ne"):
                mk = self._mode_test(fn, i)
                if mk is not None and mk in facts:
                    return facts[mk] if i["pred"] == "eq" else 1 - facts[mk]
            if a is None or b is None:
                return None
            if i["pred"] == "eq":
                return int(a == b)
            if i["pred"] == "ne":
                return int(a != b)
            return None
        if i.op == "xor":
            a = self.ev(fn, i["a"], facts, args, depth + 1)
            b = self.ev(fn, i["b"], facts, args, depth + 1)
            if a is None or b is None:
                return None
            return a ^ b
        return None

    def _const_param_cell(self, fn, aid):
        cache = self.__dict__.setdefault("_cpc", {})
        key = (fn.name, aid)
        if key not in cache:
            al = fn.insts[aid]
            k_ = None
            if al.op == "alloca" and str(al.get("aty", "")).startswith("i"):
                k_ = fn.param_index_of_alloca(al)
                if k_ is not None:
                    uses_ok = True
                    nst = 0
                    for i in fn.all_insts():
                        for kk, o in operands(i):
                            if o.get("k") == "inst" and o["id"] == aid:
                                if i.op == "store" and kk == "ptr":
                                    nst += 1
                                elif not (i.op == "load" and kk == "ptr"):
                                    uses_ok = False
                    if not uses_ok or nst != 1:
                        k_ = None
            cache[key] = k_
        return cache[key]

    def _mode_param(self, fn, k):
        for a in fn.allocas().values():
            if self._const_param_cell(fn, a.id) == k:
                return any(i.op == "icmp" and i["pred"] in ("eq", "ne") and self._mode_test(fn, i) is not None and
                           -self._mode_test(fn, i) // 4096 == a.id for i in fn.all_insts())
        return False

    def _mode_test(self, fn, icmp):
        """`mode == K` / `mode != K` over a never-reassigned integer parameter: a key under which the outcome `mode == K` is remembered along a path
        (so that `if (mode == ACQUIRE) lock ... if (mode == ACQUIRE) unlock` stays correlated when the argument is not known)"""
        b = icmp["b"]
        if b.get("k") != "const":
            return None
        a = icmp["a"]
        for _ in range(3):
            if a.get("k") != "inst":
                return None
            x = fn.insts[a["id"]]
            if x.op in ("zext", "sext", "trunc"):
                a = x["a"]
                continue
            if x.op == "load" and x["ptr"].get("k") == "inst" and self._const_param_cell(fn, x["ptr"]["id"]) is not None:
                return -(x["ptr"]["id"] * 4096 + (b["v"] & 0xfff) + 1)
            return None
        return None

    def root_cell(self, fn, o, depth=0):
        """cond operand -> (alloca id, polarity) if it is a truth test of a tracked cell"""
        if o.get("k") != "inst" or depth > 6:
            return None
        i = fn.insts[o["id"]]
        if i.op in ("trunc", "zext"):
            return self.root_cell(fn, i["a"], depth + 1)
        if i.op == "load":
            p = i["ptr"]
            if p.get("k") == "inst" and p["id"] in self.tracked(fn):
                return (p["id"], 1)
            return None
        if i.op == "icmp" and i["pred"] in ("eq", "ne"):
            a, b = i["a"], i["b"]
            if b.get("k") == "const" and b["v"] == 0:
                r = self.root_cell(fn, a, depth + 1)
                if r:
                    return (r[0], r[1] if i["pred"] == "ne" else 1 - r[1])
            mk = self._mode_test(fn, i)
            if mk is not None:
                return (mk, 1 if i["pred"] == "eq" else 0)
            return None
        if i.op == "xor":
            b = i["b"]
            if b.get("k") == "const" and b["v"] in (1, -1):
                r = self.root_cell(fn, i["a"], depth + 1)
                if r:
                    return (r[0], 1 - r[1])
        return None

    # ------------------------------------------------------------------ contexts
    def abstract_args(self, fn, call, facts, args):
        out = []
        for a in call.args:
            if a.get("k") == "func":
                out.append(("f", a["name"]))
                continue
            lk = self._resolve_lock(fn, a, args)
            if lk is not None:
                out.append(("g", lk))
                continue
            v = self.ev(fn, a, facts, args)
            if v is not None and a.get("k") != "const":
                out.append(("c", v))
            elif a.get("k") == "const" and (a.get("w", 64) <= 8 or (a.get("w", 64) <= 32 and 0 <= a["v"] <= 3)):
                out.append(("c", a["v"]))
            else:
                out.append(None)
        return tuple(out)

    def analyze_root(self, name, label, entry=()):
        fn = self.prog.functions[name]
        args = tuple(None for _ in fn.params)
        ctx = self.analyze(fn, args, tuple(entry), None)
        self.roots.setdefault(ctx.key, set()).add(label)
        return ctx

    def analyze(self, fn, args, entry, parent):
        # keep only arguments the function can branch on (bool) or call through (function pointers)
        norm = []
        for k, a in enumerate(args):
            if a is None or k >= len(fn.params):
                norm.append(None)
            elif a[0] in ("f", "g"):
                norm.append(a)
            elif fn.params[k]["type"] == "i1":
                norm.append(("c", a[1] & 1))
            elif a[0] == "c" and fn.params[k]["type"] == "i32" and 0 <= a[1] <= 3 and self._mode_param(fn, k):
                norm.append(a)          # a small mode constant for a parameter the function compares with constants
            else:
                norm.append(None)
        args = tuple(norm)
        key = (fn.name, args, entry)
        c = self.ctxs.get(key)
        if c is not None:
            if not c.done:
                c.recursive = True
            return c
        c = Ctx(key, fn, args, entry, parent)
        self.ctxs[key] = c
        self._run(c)
        c.done = True
        return c

    def chain(self, ctx, limit=12):
        out = []
        c = ctx
        while c is not None and len(out) < limit:
            if c.parent is None:
                out.append(c.fn.name)
                break
            pk, inst = c.parent
            out.append("%s (called at %s)" % (c.fn.name, inst.loc()))
            c = self.ctxs.get(pk)
        return list(reversed(out))

    def viol(self, rule, ctx, inst, msg, **kw):
        v = {"rule": rule, "function": ctx.fn.name, "file": ctx.fn.relfile, "line": inst.line if inst is not None else ctx.fn.line,
             "msg": msg, "context": {"args": [a for a in ctx.args], "entry": ls_str(ctx.entry)}, "chain": self.chain(ctx)}
        v.update(kw)
        self.violations.append(v)

    # ------------------------------------------------------------------ intraprocedural run
    def _run(self, ctx):
        fn = ctx.fn
        tracked = self.tracked(fn)
        entry_facts = {}
        start = (fn.blocks[0].id, ctx.entry, ())
        seen = {start}
        work = deque([start])
        while work:
            bid, ls, ft = work.popleft()
            states = [(ls, dict(ft))]
            bb = fn.bmap[bid]
            for inst in bb.insts:
                nxt = []
                for (ls, facts) in states:
                    nxt.extend(self._step(ctx, inst, ls, facts, tracked))
                states = nxt
                if not states:
                    break
            if not states:
                continue
            term = bb.term
            for (ls, facts) in states:
                ft2 = tuple(sorted(facts.items()))
                if term.op == "ret":
                    ctx.exits.add(ls)
                    continue
                if term.op == "unreachable":
                    continue
                succs = None
                tl = self._table_loops(fn).get(bid)
                if tl is not None and term.op == "br" and "cond" in term.d:
                    # head of a counted loop over a whole lock table (it runs at least once): entered while the table's locks are not all taken (all
                    # released), left once they are
                    acq, names, inside, outside = tl
                    held = [n for n in names if ls_get(ls, n) is not None]
                    enter = (len(held) < len(names)) if acq else bool(held)
                    succs = [(inside if enter else outside, ft2)]
                if succs is None and term.op == "br" and "cond" in term.d:
                    v = self.ev(fn, term["cond"], facts, ctx.args)
                    if v is not None:
                        succs = [(term["t"] if v & 1 else term["f"], ft2)]
                    else:
                        rc = self.root_cell(fn, term["cond"])
                        if rc is not None and rc[0] not in facts:
                            aid, pol = rc
                            f1 = dict(facts); f1[aid] = pol
                            f0 = dict(facts); f0[aid] = 1 - pol
                            succs = [(term["t"], tuple(sorted(f1.items()))), (term["f"], tuple(sorted(f0.items())))]
                if succs is None:
                    succs = [(s, ft2) for s in bb.succ]
                for s, f in succs:
                    st = (s, ls, f)
                    if st not in seen:
                        seen.add(st)
                        work.append(st)

    def _table_loops(self, fn):
        """loop head block id -> (acquires?, lock names, successor inside the loop, successor outside) for loops whose body locks / unlocks table[i]"""
        cache = self.__dict__.setdefault("_tl_cache", {})
        if fn.name in cache:
            return cache[fn.name]
        out = {}
        for c in fn.calls():
            if c.callee in ACQ or c.callee in REL:
                tb = table_locks(self.prog, fn, c.args[0], self.locks) if c.args and c.args[0].get("k") == "inst" else None
                if not tb:
                    continue
                heads = [h for h, body in fn.loops().items() if c.bb.id in body]
                if not heads:
                    continue
                h = min(heads, key=lambda h_: len(fn.loops()[h_]))
                body = fn.loops()[h]
                t = fn.bmap[h].term
                if t.op == "br" and "cond" in t.d and (t["t"] in body) != (t["f"] in body):
                    inside, outside = (t["t"], t["f"]) if t["t"] in body else (t["f"], t["t"])
                    out[h] = (c.callee in ACQ, tb, inside, outside)
        cache[fn.name] = out
        return out

    def _record(self, ctx, inst, ls):
        ctx.inst_states.setdefault(inst.id, set()).add(ls)

    def _step(self, ctx, inst, ls, facts, tracked):
        fn = ctx.fn
        op = inst.op
        if op == "store":
            p = inst["ptr"]
            if p.get("k") == "inst" and p["id"] in tracked:
                v = self.ev(fn, inst["val"], facts, ctx.args)
                facts = dict(facts)
                if v is None:
                    facts.pop(p["id"], None)
                else:
                    facts[p["id"]] = 1 if v else 0
            if self.interesting and self.interesting(inst):
                self._record(ctx, inst, ls)
            return [(ls, facts)]
        if op != "call":
            if self.interesting and self.interesting(inst):
                self._record(ctx, inst, ls)
            return [(ls, facts)]
        callee = inst.callee
        if callee in ACQ or callee in REL or callee in TRY:
            lock = self._resolve_lock(fn, inst.args[0], ctx.args)
            if lock is None and callee not in TRY:
                tb = table_locks(self.prog, fn, inst.args[0], self.locks)
                if tb:
                    # `for (i = 0; i < N; i++) pthread_mutex_lock(table[i]);` over a constant table of lock addresses: the loop as a whole takes
                    # (releases) every lock of the table, in table order; modelled at the call, idempotently for the later iterations
                    self._record(ctx, inst, ls)
                    if callee in ACQ:
                        mode = ACQ[callee]
                        self.acq_sites.add((fn.name, inst.id))
                        for lock in tb:
                            if ls_get(ls, lock) is not None:
                                continue
                            self.acq_events += 1
                            for (l, m, c) in ls:
                                if l != lock:
                                    self.edges[(l, m, lock, mode)].append((ctx.key, inst))
                            ctx.acquires.add((lock, mode))
                            ls = ls_add(ls, lock, mode)
                        return [(ls, facts)]
                    for lock in tb:
                        if ls_get(ls, lock) is not None:
                            ls = ls_remove(ls, lock)
                    return [(ls, facts)]
            if lock is None:
                raise AnalysisBroken("lock operation on an object that is not a named lock global (directly or through a parameter) at %s" % inst.loc())
            if callee in TRY:
                raise AnalysisBroken("trylock/timedlock at %s is not modelled" % inst.loc())
            self._record(ctx, inst, ls)
            if callee in ACQ:
                mode = ACQ[callee]
                self.acq_sites.add((fn.name, inst.id))
                self.acq_events += 1
                held = ls_get(ls, lock)
                if held is not None:
                    if held == "R" and mode == "R":
                        self.notes.append({"rule": "ORD-RR", "function": fn.name, "line": inst.line, "file": fn.relfile,
                                           "msg": "read lock %s re-acquired while read-held" % lock, "chain": self.chain(ctx)})
                    else:
                        self.viol("SELF", ctx, inst, "%s acquired (%s) while already held (%s) by the same thread" % (lock, mode, held),
                                  lock=lock)
                        return []   # this path blocks forever
                for (l, m, c) in ls:
                    if l != lock:
                        self.edges[(l, m, lock, mode)].append((ctx.key, inst))
                ctx.acquires.add((lock, mode))
                return [(ls_add(ls, lock, mode), facts)]
            else:
                if ls_get(ls, lock) is None:
                    self.viol("UNLOCK", ctx, inst, "%s released but not held on this path" % lock, lock=lock)
                    return [(ls, facts)]
                return [(ls_remove(ls, lock), facts)]
        if callee is None:
            # indirect call: resolve through a parameter that holds a function pointer
            tgt = self._resolve_fptr(ctx, inst)
            self._record(ctx, inst, ls)
            if tgt is None:
                return [(ls, facts)]
            callee = tgt
        else:
            self._record(ctx, inst, ls)
        cf = self.prog.functions.get(callee)
        if cf is None or not cf.blocks:
            # external: callbacks passed to it run here (0..n times) with the current lockset
            if callee != "pthread_create":
                for a in inst.args:
                    if a.get("k") == "func" and a["name"] in self.prog.functions:
                        cb = self.prog.functions[a["name"]]
                        sub = self.analyze(cb, tuple(None for _ in cb.params), ls, (ctx.key, inst))
                        ctx.calls.append((inst, sub.key, ls))
                        ctx.acquires |= sub.acquires
                        self.ext_callbacks.append((fn.name, inst.line, a["name"]))
                        for ex in sub.exits:
                            if ex != ls:
                                self.viol("BAL", sub, None, "callback %s changes the lockset %s -> %s" % (cb.name, ls_str(ls), ls_str(ex)))
            return [(ls, facts)]
        args = self.abstract_args(fn, inst, facts, ctx.args)
        sub = self.analyze(cf, args, ls, (ctx.key, inst))
        ctx.calls.append((inst, sub.key, ls))
        if sub.recursive and not sub.done:
            return [(ls, facts)]
        ctx.acquires |= sub.acquires
        out = []
        for ex in sorted(sub.exits):
            out.append((ex, facts))
        return out

    def _resolve_lock(self, fn, o, args, depth=0):
        """operand -> name of the lock global it denotes: the global itself, or a pointer parameter bound to one in this context"""
        k = o.get("k")
        if k == "global":
            return o["name"] if o["name"] in self.locks and o.get("off", 0) == 0 else None
        if k == "arg":
            a = args[o["i"]] if o["i"] < len(args) else None
            return a[1] if a and a[0] == "g" else None
        if k != "inst" or depth > 4:
            return None
        i = fn.insts[o["id"]]
        if i.op == "bitcast":
            return self._resolve_lock(fn, i["a"], args, depth + 1)
        if i.op == "load":
            p = i["ptr"]
            if p.get("k") == "inst":
                al = fn.insts[p["id"]]
                if al.op == "alloca":
                    kk = fn.param_index_of_alloca(al)
                    if kk is not None:
                        a = args[kk] if kk < len(args) else None
                        return a[1] if a and a[0] == "g" else None
        return None

    def _resolve_fptr(self, ctx, inst):
        fn = ctx.fn
        o = inst.get("fptr")
        for _ in range(4):
            if o is None:
                return None
            if o.get("k") == "func":
                return o["name"]
            if o.get("k") == "arg":
                a = ctx.args[o["i"]] if o["i"] < len(ctx.args) else None
                return a[1] if a and a[0] == "f" else None
            if o.get("k") != "inst":
                return None
            i = fn.insts[o["id"]]
            if i.op == "load":
                p = i["ptr"]
                if p.get("k") == "inst":
                    al = fn.insts[p["id"]]
                    if al.op == "alloca":
                        k = fn.param_index_of_alloca(al)
                        if k is not None:
                            a = ctx.args[k] if k < len(ctx.args) else None
                            return a[1] if a and a[0] == "f" else None
                return None
            if i.op in ("bitcast",):
                o = i["a"]
                continue
            return None
        return None

    # ------------------------------------------------------------------ results
    def check_balance(self):
        """BAL: every context returns with its entry lockset"""
        n = 0
        for c in self.ctxs.values():
            n += 1
            for ex in c.exits:
                if ex != c.entry:
                    # report the return(s) reached with a different lockset
                    held = [l for l, m, k in ex if ls_get(c.entry, l) is None]
                    lost = [l for l, m, k in c.entry if ls_get(ex, l) is None]
                    self.viol("BAL", c, None, "returns with lockset %s, entered with %s" % (ls_str(ex), ls_str(c.entry)),
                              leaked=held, dropped=lost)
        return n

    def ctx_roots(self):
        """ctx key -> set of root labels that reach it"""
        out = defaultdict(set)
        for rk, labels in self.roots.items():
            seen = set()
            st = [rk]
            while st:
                k = st.pop()
                if k in seen:
                    continue
                seen.add(k)
                out[k] |= labels
                for (_i, ck, _ls) in self.ctxs[k].calls:
                    st.append(ck)
        return out


# ---------------------------------------------------------------------- contracts from comments
# "Shall only be called with X acquired" (requirement) or "Shall be called with none of ..." (prohibition);
# conditional sentences ("Shall be called with param lock = false if ...") are not contracts on the lockset
CONTRACT_RE = re.compile(r"[Ss]hall\s+(?:only\s+be\s+called\s+with(?!\s+param)|be\s+called\s+with(?=\s+none\s+of))(.*?)(?:\.\s|\.$|\*/|$)", re.S)


def parse_contracts(repo, lock_names):
    """function name -> {"require": {lock: mode}, "forbid": [locks], "where": file:line, "text": str}
    Text is consulted because the specification lives in comments; names are resolved against lock globals."""
    out = {}
    unresolved = []
    files = sorted(glob.glob(os.path.join(repo, "src", "*", "*.[ch]")) + glob.glob(os.path.join(repo, "include", "*", "*.h")))
    for path in files:
        try:
            src = open(path, errors="replace").read()
        except OSError:
            continue
        # comment blocks followed by a declaration
        for m in re.finditer(r"(/\*(?:(?!\*/).)*\*/|(?:[ \t]*//[^\n]*\n)+)\s*((?:static\s+|extern\s+|const\s+|unsigned\s+|struct\s+)*[A-Za-z_]\w*[\s\*]+\**\s*([A-Za-z_]\w*)\s*\()", src, re.S):
            comment, fname = m.group(1), m.group(3)
            cm = CONTRACT_RE.search(re.sub(r"\n\s*(\*|//)", " ", comment))
            if not cm:
                continue
            text = " ".join(cm.group(0).split())
            line = src.count("\n", 0, m.start(2)) + 1
            ent = out.setdefault(fname, {"require": {}, "forbid": [], "where": "%s:%d" % (os.path.relpath(path, repo), line), "text": text})
            body = cm.group(1)
            if re.search(r"\bnone\s+of\b", body):
                for ln in lock_names:
                    if ln.startswith("trackstate_") or ln in ("bidib_trains_rwlock", "bidib_boards_rwlock"):
                        if ln not in ent["forbid"]:
                            ent["forbid"].append(ln)
                continue
            names = re.findall(r"\b(\w+_(?:mutex|rwlock))\b", body)
            if not names:
                # a contract that names no lock object ("the mutex protecting the record") cannot be checked at call sites: not an error
                continue
            for n in names:
                if n not in lock_names:
                    unresolved.append((fname, n))
                    continue
                # mode: text right after the name
                after = body[body.find(n) + len(n):][:24]
                mode = "R" if re.match(r"\s*>=\s*read", after) else ("W" if re.match(r"\s*(>=\s*)?write", after) else "X")
                if lock_names[n] == "mutex":
                    mode = "M"
                elif mode == "X":
                    mode = "R"
                prev = ent["require"].get(n)
                if prev is None or (prev == "R" and mode == "W"):
                    ent["require"][n] = mode
    return out, unresolved


def mode_ok(held, need):
    if held is None:
        return False
    if need == "W":
        return held == "W"
    return True
