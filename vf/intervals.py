"""E6: intraprocedural abstract interpreter over the IR with bounded trace partitioning.

Domain per state:
  cells   local integer cells (non-escaping allocas) and integer globals -> interval [lo, hi] over Z
  facts   upper bounds on linear forms:  sum(coef_i * atom_i) <= c   (atoms: cells, or opaque side-effect-free expressions keyed
          structurally, e.g. the load message[0]); a fact is killed when one of its atoms may be modified
Arithmetic is evaluated in Z and checked against the IR type: a result that may leave the type's range becomes the type's full range.
States arriving at a merge point are kept apart (up to PARTITIONS), joined beyond that; at loop heads they are joined and widened
with thresholds taken from the constants the function compares against.
"""
import math
from collections import defaultdict, deque

from . import rules
from .build import AnalysisBroken
from .locks import operands

PARTITIONS = 48
INF = float("inf")


def tybits(ty):
    if ty.startswith("i") and ty[1:].isdigit():
        return int(ty[1:])
    return 64


def urange(bits):
    return (0, (1 << bits) - 1)


def srange(bits):
    return (-(1 << (bits - 1)), (1 << (bits - 1)) - 1)


def hull(a, b):
    return (min(a[0], b[0]), max(a[1], b[1]))


def meet(a, b):
    lo, hi = max(a[0], b[0]), min(a[1], b[1])
    return (lo, hi) if lo <= hi else None


class LF:
    """linear form  k + sum coef*atom ; atoms are hashable keys"""
    __slots__ = ("k", "t")

    def __init__(self, k=0, t=None):
        self.k = k
        self.t = dict(t or {})

    def add(self, o, s=1):
        r = LF(self.k + s * o.k, self.t)
        for a, c in o.t.items():
            r.t[a] = r.t.get(a, 0) + s * c
            if r.t[a] == 0:
                del r.t[a]
        return r

    def scale(self, c):
        return LF(self.k * c, {a: v * c for a, v in self.t.items()}) if c else LF(0)

    def key(self):
        return tuple(sorted(self.t.items(), key=lambda kv: str(kv[0])))

    def __repr__(self):
        return "%s%s" % (self.k, "".join(" %+d*%s" % (c, _short(a)) for a, c in self.t.items()))


def _short(a):
    s = str(a)
    return s if len(s) < 60 else s[:57] + "..."


class State:
    __slots__ = ("cells", "facts", "_from", "frozen", "neq")

    def __init__(self, cells=None, facts=None, frozen=None, neq=None):
        self.cells = dict(cells or {})
        self.facts = dict(facts or {})     # LF key -> upper bound c  (sum <= c)
        self._from = None
        # values loaded from a cell earlier in the current block and overwritten since (`a[i++]`): load inst id -> LF in today's atoms
        self.frozen = dict(frozen or {})
        # constants a cell is known to differ from although they lie inside its interval (`if (x == 0) .. else if (x < 0) .. else`):
        # applied whenever a later refinement moves a bound onto one of them
        self.neq = dict(neq or {})

    def copy(self):
        c = State(self.cells, self.facts, self.frozen, self.neq)
        c._from = self._from
        return c

    def sig(self):
        return (tuple(sorted(self.cells.items(), key=lambda kv: str(kv[0]))), tuple(sorted(self.facts.items(), key=lambda kv: str(kv[0]))),
                tuple(sorted((k, v.k, v.key()) for k, v in self.frozen.items())) if self.frozen else (),
                tuple(sorted((str(k), tuple(sorted(v))) for k, v in self.neq.items())) if self.neq else ())


def join(a, b):
    c = {}
    for k in set(a.cells) | set(b.cells):
        if k in a.cells and k in b.cells:
            c[k] = hull(a.cells[k], b.cells[k])
    f = {}
    for k, v in a.facts.items():
        if k in b.facts:
            f[k] = max(v, b.facts[k])
    nq = {k: (a.neq[k] & b.neq[k]) for k in a.neq if k in b.neq and (a.neq[k] & b.neq[k])}
    return State(c, f, None, nq)


class FunctionAnalysis:
    def __init__(self, engine, fn, param_iv=None):
        self.E = engine
        self.P = engine.P
        self.fn = fn
        self.param_iv = param_iv or {}
        # cells: non-escaping integer allocas
        self.cells = {}
        cand = {a.id: a for a in fn.allocas().values() if a["aty"].startswith("i") and a["aty"][1:].isdigit() and "size" in a}
        for i in fn.all_insts():
            for k, o in operands(i):
                if o.get("k") == "inst" and o["id"] in cand:
                    if i.op in ("load", "store") and k == "ptr":
                        continue
                    cand.pop(o["id"], None)
        self.cells = cand
        # running pointers: non-escaping local pointer variables that only ever point into one fixed-size array (`p = buf; ... *p++ = x`); the cell's
        # value is the byte offset from the start of that array
        self.pcells = pointer_cells(self.P, fn)
        self._pparams = param_pointer_slots(fn)
        for pid in self.pcells:
            self.cells[pid] = fn.insts[pid]
        self._stable = {}
        self._part_cells = None
        self.pre = {}          # inst id -> list of states before the instruction
        self.exit_states = []
        self.thresholds = self._thresholds()
        self.loop_heads = {h for (t, h) in fn.back_edges()}
        self._run()

    # ---------------------------------------------------------------- helpers
    def _thresholds(self):
        ts = {0, 1, -1}
        for i in self.fn.all_insts():
            if i.op == "icmp":
                for o in (i["a"], i["b"]):
                    if o.get("k") == "const":
                        ts |= {o["v"], o["v"] - 1, o["v"] + 1}
            if i.op == "alloca" and "size" in i.d:
                ts.add(i["size"])
        for g in self.E.global_iv.values():
            ts |= {g[0], g[1]}
        for bits in (8, 16, 32):
            ts |= {(1 << bits) - 1, (1 << (bits - 1)) - 1}
        return sorted(ts)

    def cell_of_ptr(self, o):
        """pointer operand -> cell key ('a', id) / ('g', name) or None"""
        if o.get("k") == "inst" and o["id"] in self.cells:
            return ("a", o["id"])
        if o.get("k") == "global" and o.get("off", 0) == 0 and o["name"] in self.E.global_iv:
            return ("g", o["name"])
        return None

    def cell_type_range(self, cell):
        if cell[0] == "a" and cell[1] in self.pcells:
            return (-INF, INF)
        if cell[0] == "a":
            bits = tybits(self.cells[cell[1]]["aty"])
            al = self.cells[cell[1]]
            t = self.P.di_strip(al.get("ditype", -1))
            signed = bool(t) and t.get("kind") == "base" and t.get("enc") in (5, 6, 13)   # DW_ATE_signed, signed_char
            if bits >= 64:
                # 64-bit cells (sizes, indices, time stamps) are treated as mathematical integers: they cannot wrap by counting
                return (-INF, INF) if signed else (0, INF)
            return srange(bits) if signed else urange(bits)
        return self.E.global_iv[cell[1]]

    # ---------------------------------------------------------------- evaluation
    def lf(self, o, st, depth=0):
        """linear form of an operand in Z (None if not linear / may wrap)"""
        k = o.get("k")
        if k == "const":
            return LF(o["v"])
        if k == "null":
            return LF(0)
        if k == "arg":
            return LF(0, {("arg", o["i"]): 1})
        if k == "global" and self.pcells:
            return LF(o.get("off", 0), {_addr_atom(("G", o["name"])): 1})
        if k != "inst" or depth > 12:
            return None
        i = self.fn.insts[o["id"]]
        op = i.op
        if op == "load":
            c = self.cell_of_ptr(i["ptr"])
            if c is not None and c[0] == "a" and c[1] in self.pcells:
                # a running pointer: address of its array + offset
                off = st.frozen[i.id] if st.frozen and i.id in st.frozen else LF(0, {("cell",) + c: 1})
                return off.add(LF(0, {_addr_atom(self.pcells[c[1]][0]): 1}))
            if st.frozen and i.id in st.frozen:
                return st.frozen[i.id]
            if c is not None:
                return LF(0, {("cell",) + c: 1})
            if self.pcells and i["ptr"].get("k") == "inst" and i["ptr"]["id"] in self._pparams:
                return LF(0, {_addr_atom(("P", i["ptr"]["id"])): 1})
            bits = tybits(i["ty"])
            af = self._affine_table(i, st, depth)
            if af is not None:
                return af
            cr = self._const_table_range(i)
            if cr is not None:
                return LF(0, {self._atom(o, "ctab", cr[0], cr[1]): 1})
            return LF(0, {self._atom(o, "load", -(1 << (bits - 1)) if bits < 64 else -INF, (1 << bits) - 1 if bits < 64 else INF): 1})
        if self.pcells and op in ("getelementptr", "bitcast", "ptrtoint", "alloca"):
            if op == "alloca":
                return LF(0, {_addr_atom(("L", i.id)): 1})
            if op in ("bitcast", "ptrtoint"):
                return self.lf(i["a"], st, depth + 1)
            r = self.lf(i["base"], st, depth + 1)
            if r is None:
                return None
            r = r.add(LF(i["off"]))
            for x in i["idx"]:
                l_ = self.lf(x["v"], st, depth + 1)
                if l_ is None:
                    return None
                r = r.add(l_.scale(x["scale"]))
            return r
        if op in ("zext", "sext"):
            inner = self.lf(i["a"], st, depth + 1)
            if inner is None:
                return None
            iv = self.iv_lf(inner, st, i["fromty"], raw=i["a"])
            bits = tybits(i["fromty"])
            rng = urange(bits) if op == "zext" else srange(bits)
            if iv[0] >= rng[0] and iv[1] <= rng[1]:
                return inner
            # the extension of an opaque value: a new atom with the extension's range (keyed by the operand it extends)
            return LF(0, {self._atom(i["a"], op, rng[0], rng[1]): 1})
        if op == "trunc":
            inner = self.lf(i["a"], st, depth + 1)
            if inner is None:
                return None
            iv = self.iv_lf(inner, st, None)
            bits = tybits(i["ty"])
            if iv[0] >= 0 and iv[1] <= (1 << bits) - 1:
                return inner
            return LF(0, {self._atom(o, "trunc", -(1 << (bits - 1)), (1 << bits) - 1): 1})
        if op in ("add", "sub"):
            a = self.lf(i["a"], st, depth + 1)
            b = self.lf(i["b"], st, depth + 1)
            if a is None or b is None:
                return None
            r = a.add(b, 1 if op == "add" else -1)
            return self._fit(i, r, st)
        if op == "mul":
            ca, cb = rules.const_of(self.fn, i["a"]), rules.const_of(self.fn, i["b"])
            if cb is not None:
                a = self.lf(i["a"], st, depth + 1)
                return self._fit(i, a.scale(cb), st) if a is not None else None
            if ca is not None:
                b = self.lf(i["b"], st, depth + 1)
                return self._fit(i, b.scale(ca), st) if b is not None else None
            return LF(0, {self._atom(o, "mul", *self._tyrange(i["ty"])): 1})
        if op == "shl":
            cb = rules.const_of(self.fn, i["b"])
            if cb is not None and 0 <= cb < 31:
                a = self.lf(i["a"], st, depth + 1)
                return self._fit(i, a.scale(1 << cb), st) if a is not None else None
        if op == "phi" and getattr(st, "_from", None) is not None and i.bb.id == getattr(self, "_cur_bb", None):
            # a value phi (`c ? a : b`) evaluated in its own block by a state that knows which predecessor it came through
            inc = [v for b_, v in i["incoming"] if b_ == st._from]
            if len(inc) == 1:
                r_ = self.lf(inc[0], st, depth + 1)
                if r_ is not None:
                    return r_
        if op in ("and", "or", "xor", "urem", "srem", "udiv", "sdiv", "lshr", "ashr", "phi", "select", "icmp"):
            r = self.iv(o, st, allow_lf=False)
            return LF(0, {self._atom(o, op, r[0], r[1]): 1})
        if op == "call" and i.callee in ("abs", "labs", "llvm.abs.i32") and i.args:
            a = self.lf(i.args[0], st, depth + 1)
            if a is not None:
                iv = self.iv_lf(a, st, None)
                bits = tybits(i["ty"])
                if iv[0] > -(1 << (bits - 1)) and iv[1] < (1 << (bits - 1)):
                    lo = 0 if iv[0] <= 0 <= iv[1] else min(abs(iv[0]), abs(iv[1]))
                    return LF(0, {self._atom(o, "abs", lo, max(abs(iv[0]), abs(iv[1]))): 1})
        if op == "call" and i.callee in self.P.functions and self.P.functions[i.callee].blocks and i["ty"].startswith("i"):
            rr = self.E.ret_range(i.callee)
            if rr is not None:
                return LF(0, {self._atom(o, "ret", rr[0], rr[1]): 1})
        return LF(0, {self._atom(o, "val", *self._tyrange(i["ty"])): 1})

    def _affine_table(self, ld, st, depth):
        """`table[i]` over a constant array of integers whose entries are a*i + b (e.g. header bytes by address depth {4, 5, 6, 7}): the linear form
        a*i + b, valid while i is known to lie inside the table"""
        g = self.fn.resolve(ld["ptr"])
        if g is None or g.op != "getelementptr" or g["base"].get("k") != "global" or len(g["idx"]) != 1 or g["off"] != 0:
            return None
        gd = self.P.globals.get(g["base"]["name"])
        if not gd or not gd.get("const") or not isinstance(gd.get("init"), list) or len(gd["init"]) < 2:
            return None
        vals = gd["init"]
        if not all(isinstance(v, int) for v in vals):
            return None
        a = vals[1] - vals[0]
        if any(vals[k] != vals[0] + a * k for k in range(len(vals))):
            return None
        il = self.lf(g["idx"][0]["v"], st, depth + 1)
        if il is None:
            return None
        iv = self.iv_lf(il, st)
        if iv[0] < 0 or iv[1] > len(vals) - 1:
            return None
        return il.scale(a).add(LF(vals[0]))

    def _const_table_range(self, ld):
        """range of a value loaded from a constant table (array of integers or of structs of integers) at a variable row: the
        minimum / maximum of that column over all rows of the initialiser"""
        g = self.fn.resolve(ld["ptr"])
        col = None
        if g is not None and g.op == "getelementptr" and not g["idx"] and g["base"].get("k") == "inst":
            # table[row][constant column] is two address computations: the outer one selects the column by a constant offset
            g0 = self.fn.resolve(g["base"])
            if g0 is not None and g0.op == "load":
                # `const row_t *const row = &table[k]; ... row->field`
                g0 = self.fn.resolve(rules.resolve_local(self.fn, g["base"]))
            if g0 is not None and g0.op == "getelementptr" and g0["idx"] and g0["base"].get("k") == "global":
                col = g["off"] // max(1, g.get("ressize") or 1)
                for e in (g.get("path") or []):
                    if isinstance(e, dict) and "f" in e:
                        col = e["f"]
                g = g0
        if g is None or g.op != "getelementptr" or g["base"].get("k") != "global" or not g["idx"]:
            return None
        gd = self.P.globals.get(g["base"]["name"])
        if not gd or not gd.get("const") or not isinstance(gd.get("init"), list) or not gd["init"]:
            return None
        rows = gd["init"]
        fld = None
        path_ = g.get("path") or []
        for e in path_:
            if isinstance(e, dict) and "f" in e:
                fld = e["f"]
        if fld is None and len(path_) >= 2 and isinstance(path_[-1], dict) and isinstance(path_[-1].get("a"), int) and path_[-2].get("a") == "var":
            fld = path_[-1]["a"]          # table[row][constant column]
        if fld is None and col is not None:
            fld = col
        vals = []
        for r in rows:
            if isinstance(r, int) and fld is None:
                vals.append(r)
            elif isinstance(r, list) and fld is not None and fld < len(r) and isinstance(r[fld], int):
                vals.append(r[fld])
            else:
                return None
        if not vals:
            return None
        return (min(vals), max(vals))

    def _fit(self, inst, r, st):
        """keep the linear form only if its value cannot leave the instruction's type (signed or unsigned view)"""
        bits = tybits(inst["ty"])
        iv = self.iv_lf(r, st, None)
        if bits >= 64:
            return r
        if (iv[0] >= 0 and iv[1] <= (1 << bits) - 1) or (inst.get("nsw") and iv[0] >= -(1 << (bits - 1)) and iv[1] <= (1 << (bits - 1)) - 1) or \
           (iv[0] >= -(1 << (bits - 1)) and iv[1] <= (1 << (bits - 1)) - 1):
            return r
        return LF(0, {self._atom({"k": "inst", "id": inst.id}, "wrap", *self._tyrange(inst["ty"])): 1})

    def _tyrange(self, ty):
        bits = tybits(ty)
        return (-(1 << (bits - 1)), (1 << bits) - 1) if bits < 64 else (-INF, INF)

    def _atom(self, o, tag, lo, hi):
        return ("expr", rules.expr_key(self.fn, o), tag, lo, hi)

    def atom_iv(self, a, st):
        if a[0] == "cell":
            c = a[1:]
            if c in st.cells:
                return st.cells[c]
            return self.cell_type_range(c)
        if a[0] == "arg":
            return self.param_iv.get(a[1], self._arg_range(a[1]))
        if a[0] == "expr":
            return (a[3], a[4]) if len(a) >= 5 else (-INF, INF)
        return (-INF, INF)

    def _arg_range(self, k):
        ty = self.fn.params[k]["type"] if k < len(self.fn.params) else "i64"
        bits = tybits(ty)
        return (-(1 << (bits - 1)), (1 << bits) - 1) if bits < 64 else (-INF, INF)

    def _expr_range(self, a):
        # opaque expression: range of its IR type; loads of i8 are [0,255] in the unsigned view or [-128,127] signed: take both
        key = a[1]
        return self.E.expr_ranges.get(key, (-INF, INF))

    def iv_lf(self, lf, st, ty=None, raw=None, depth=0):
        if lf is None:
            return (-INF, INF)
        lo = hi = lf.k
        for a, c in lf.t.items():
            iv = self.atom_iv(a, st)
            if c > 0:
                lo += c * iv[0]
                hi += c * iv[1]
            else:
                lo += c * iv[1]
                hi += c * iv[0]
        # facts: single-step substitution  lf = m*f + (lf - m*f), m > 0  =>  ub(lf) <= m*ub(f) + ub(lf - m*f), for facts sharing an atom with lf
        if lf.t and st.facts:
            for fk, ub in st.facts.items():
                m = None
                for a, c in fk:
                    v = lf.t.get(a)
                    if v is not None and c != 0 and (v > 0) == (c > 0) and v % c == 0:
                        m = v // c
                        break
                if m is None or m <= 0:
                    continue
                r_hi = lf.k
                rest = dict(lf.t)
                for a, c in fk:
                    rest[a] = rest.get(a, 0) - m * c
                rest = {a: c for a, c in rest.items() if c != 0}
                if depth < 2 and rest:
                    r_hi = self.iv_lf(LF(lf.k, rest), st, depth=depth + 1)[1]
                else:
                    for a, c in rest.items():
                        iv = self.atom_iv(a, st)
                        r_hi += c * (iv[1] if c > 0 else iv[0])
                if m * ub + r_hi < hi:
                    hi = m * ub + r_hi
                # the same fact read as a lower bound of -f:  lf = -m*(-f) ...: handled by the facts stored for the negated form
        # lower bounds from facts on negated forms:  (-lf) <= c  =>  lf >= -c
        if lf.t and st.facts:
            neg = {a: -c for a, c in lf.t.items()}
            for fk, ub in st.facts.items():
                m = None
                for a, c in fk:
                    v = neg.get(a)
                    if v is not None and c != 0 and (v > 0) == (c > 0) and v % c == 0:
                        m = v // c
                        break
                if m is None or m <= 0:
                    continue
                r_hi = -lf.k
                rest = dict(neg)
                for a, c in fk:
                    rest[a] = rest.get(a, 0) - m * c
                for a, c in rest.items():
                    if c == 0:
                        continue
                    iv = self.atom_iv(a, st) if depth >= 2 else self.iv_lf(LF(0, {a: 1}), st, depth=depth + 1)
                    r_hi += c * (iv[1] if c > 0 else iv[0])
                if -(m * ub + r_hi) > lo:
                    lo = -(m * ub + r_hi)
        return (lo, hi)

    def iv(self, o, st, allow_lf=True):
        """interval of an operand's value, interpreting the raw bits of its IR type as the analysis' mathematical value"""
        k = o.get("k")
        if k == "const":
            return (o["v"], o["v"])
        if k == "inst":
            i = self.fn.insts[o["id"]]
            if i.op in ("zext", "sext"):
                inner = self.iv(i["a"], st)
                bits = tybits(i["fromty"])
                rng = urange(bits) if i.op == "zext" else srange(bits)
                m = meet(inner, rng)
                if m is not None and inner[0] >= rng[0] and inner[1] <= rng[1]:
                    return m
                return rng
            if i.op == "load" and self.cell_of_ptr(i["ptr"]) is None:
                bits = tybits(i["ty"])
                return (-(1 << (bits - 1)), (1 << bits) - 1) if bits < 64 else (-INF, INF)
            if i.op == "trunc":
                inner = self.iv(i["a"], st)
                bits = tybits(i["ty"])
                if inner[0] >= 0 and inner[1] <= (1 << bits) - 1:
                    return inner
                return (-(1 << (bits - 1)), (1 << bits) - 1)
            if i.op in ("and",):
                cb = rules.const_of(self.fn, i["b"])
                if cb is not None and cb >= 0:
                    return (0, cb)
            if i.op in ("and", "or", "xor"):
                a = self.iv(i["a"], st)
                b = self.iv(i["b"], st)
                if a[0] >= 0 and b[0] >= 0 and a[1] < INF and b[1] < INF:
                    if i.op == "and":
                        return (0, min(a[1], b[1]))
                    m = max(a[1], b[1])
                    return (0, (1 << int(m).bit_length()) - 1)
            if i.op in ("urem", "srem"):
                cb = rules.const_of(self.fn, i["b"])
                if cb is not None and cb > 0:
                    a = self.iv(i["a"], st)
                    return (0, cb - 1) if a[0] >= 0 or i.op == "urem" else (-(cb - 1), cb - 1)
            if i.op in ("udiv", "sdiv", "lshr", "ashr"):
                cb = rules.const_of(self.fn, i["b"])
                a = self.iv(i["a"], st)
                if cb is not None and cb > 0 and a[0] >= 0 and a[1] < INF:
                    d = cb if i.op in ("udiv", "sdiv") else (1 << cb)
                    return (a[0] // d, a[1] // d)
            if i.op in ("phi", "select"):
                vals = [v for b, v in i["incoming"]] if i.op == "phi" else [i["a"], i["b"]]
                r = None
                for v in vals:
                    x = self.iv(v, st)
                    r = x if r is None else hull(r, x)
                return r
            if i.op == "icmp":
                return (0, 1)
        if not allow_lf:
            return self._tyrange(self.fn.insts[o["id"]]["ty"]) if k == "inst" else (-INF, INF)
        l = self.lf(o, st)
        r = self.iv_lf(l, st)
        if k == "inst":
            bits = tybits(self.fn.insts[o["id"]]["ty"])
            if bits < 64:
                full = (-(1 << (bits - 1)), (1 << bits) - 1)
                m = meet(r, full)
                return m if m is not None else full
        return r

    # ---------------------------------------------------------------- transfer
    def ptr_lf(self, o, st):
        """pointer operand -> (array key, byte offset as a linear form) when it is an offset from one known array"""
        l = self.lf(o, st)
        if l is None:
            return None
        ad = [(a, c) for a, c in l.t.items() if a[0] == "expr" and a[2] == "addr"]
        if len(ad) != 1 or ad[0][1] != 1:
            return None
        return ad[0][0][1][1], LF(l.k, {a: c for a, c in l.t.items() if a is not ad[0][0] and a != ad[0][0]})

    def kill(self, st, pred):
        for fk in list(st.facts):
            if any(pred(a) for a, c in fk):
                del st.facts[fk]

    def store(self, inst, st):
        c = self.cell_of_ptr(inst["ptr"])
        if c is not None:
            if c[0] == "a" and c[1] in self.pcells:
                sp = self.ptr_lf(inst["val"], st)
                l = sp[1] if sp is not None and sp[0] == self.pcells[c[1]][0] else None
                v = self.iv_lf(l, st)
            else:
                l = self.lf(inst["val"], st)
                v = self.iv(inst["val"], st)
            rng = self.cell_type_range(c) if c[0] == "a" else (-INF, INF)
            # stored bits are reinterpreted in the cell's own type
            bits = tybits(inst["vty"])
            if c[0] == "a":
                if not (v[0] >= rng[0] and v[1] <= rng[1]):
                    v = rng
            atom = ("cell",) + c
            # `x += e` with x known equal to another linear form (x = y; x += e): rewrite the stored value without x, so that the
            # equality x' = y + e survives the update
            if l is not None and atom in l.t and len(l.t) > 1 and l.t[atom] == 1:
                eq = self._equal_form(st, atom)
                if eq is not None:
                    l2 = LF(l.k, {a_: c_ for a_, c_ in l.t.items() if a_ != atom}).add(eq)
                    if atom not in l2.t:
                        l = l2
            # facts that mention the cell: re-derive x' = x + k  shifts, otherwise kill
            shift = None
            if l is not None and l.t == {atom: 1}:
                shift = l.k
            # values loaded from this cell earlier in the block keep denoting the OLD contents
            exact = shift is not None and c[0] == "a" and v[0] >= rng[0] and v[1] <= rng[1]
            old_iv = self.atom_iv(atom, st)
            for fid, fl_ in list(st.frozen.items()):
                if atom in fl_.t:
                    if exact:
                        st.frozen[fid] = LF(fl_.k - fl_.t[atom] * shift, fl_.t)
                    else:
                        iv_ = self.iv_lf(fl_, st)
                        st.frozen[fid] = LF(0, {("expr", ("old", fid), "old", iv_[0], iv_[1]): 1})
            for prev in inst.bb.insts[:inst.idx]:
                if prev.op == "load" and prev.id not in st.frozen and self.cell_of_ptr(prev["ptr"]) == c:
                    if exact:
                        st.frozen[prev.id] = LF(-shift, {atom: 1})
                    else:
                        st.frozen[prev.id] = LF(0, {("expr", ("old", prev.id), "old", old_iv[0], old_iv[1]): 1})
            newfacts = {}
            shifting = shift is not None and c[0] == "a" and v[0] >= rng[0] and v[1] <= rng[1]
            # the old value is about to be forgotten: what the facts say about it is first restated in terms of the forms it is known equal to
            # (`pos == i + 2` and `i == n` keep `pos == n + 2` alive across `i = 0`)
            eqs = [] if shifting else self._equal_forms(st, atom)
            for fk, ub in st.facts.items():
                d = dict(fk)
                if atom in d:
                    if shifting:
                        newfacts[fk] = ub + d[atom] * shift
                    else:
                        for eqf in eqs:
                            r_ = LF(0, {a_: c_ for a_, c_ in d.items() if a_ != atom}).add(eqf, d[atom])
                            if r_.t and len(r_.t) <= 4 and atom not in r_.t:
                                newfacts[r_.key()] = min(newfacts.get(r_.key(), st.facts.get(r_.key(), INF)), ub - r_.k)
                    continue
                newfacts[fk] = min(ub, newfacts.get(fk, INF))
            st.facts = newfacts
            st.cells[c] = v
            st.neq.pop(c, None)
            # equality with another linear form gives two facts  cell - l <= 0  and  l - cell <= 0
            if l is not None and atom not in l.t and len(l.t) <= 3 and c[0] == "a" and v[0] >= rng[0] and v[1] <= rng[1]:
                e = LF(0, {atom: 1}).add(l, -1)
                st.facts[e.key()] = min(st.facts.get(e.key(), INF), -e.k)
                e2 = e.scale(-1)
                st.facts[e2.key()] = min(st.facts.get(e2.key(), INF), -e2.k)
        else:
            # store through a pointer: kills facts on memory expressions that may live in the written object
            tgt = self._base_object(inst["ptr"])
            if tgt is not None:
                self.kill(st, lambda a: a[0] == "expr" and rules.key_mentions(a[1], lambda k: k[0] == tgt[0] and k[1] == tgt[1]))
            else:
                self.kill(st, lambda a: a[0] == "expr")

    def _equal_forms(self, st, atom):
        """all linear forms (not mentioning atom) that the facts prove equal to atom"""
        out = []
        for fk, ub in st.facts.items():
            d = dict(fk)
            if d.get(atom) != 1 or len(d) < 2 or len(d) > 4:
                continue
            neg = tuple(sorted(((a_, -c_) for a_, c_ in d.items()), key=lambda kv: str(kv[0])))
            ub2 = st.facts.get(neg)
            if ub2 is None or ub2 != -ub:
                continue
            out.append(LF(ub, {a_: -c_ for a_, c_ in d.items() if a_ != atom}))
            if len(out) >= 3:
                break
        return out

    def _equal_form(self, st, atom):
        """a linear form (not mentioning atom) that the facts prove equal to atom, or None"""
        for fk, ub in st.facts.items():
            d = dict(fk)
            if d.get(atom) != 1 or len(d) < 2 or len(d) > 4:
                continue
            neg = tuple(sorted(((a_, -c_) for a_, c_ in d.items()), key=lambda kv: str(kv[0])))
            ub2 = st.facts.get(neg)
            if ub2 is None or ub2 != -ub:
                continue
            # atom + rest <= ub and -(atom + rest) <= -ub  =>  atom = ub - rest
            return LF(ub, {a_: -c_ for a_, c_ in d.items() if a_ != atom})
        return None

    def _base_object(self, o):
        """('alloca', id) / ('g', name) of the object a pointer operand points into, if it is a named object"""
        for _ in range(8):
            o = rules.strip_casts(self.fn, o)
            if o.get("k") == "global":
                return ("g", o["name"])
            i = self.fn.resolve(o)
            if i is None:
                return None
            if i.op == "alloca":
                return ("alloca", i.id)
            if i.op == "getelementptr":
                o = i["base"]
            else:
                return None
        return None

    def call(self, inst, st):
        callee = inst.callee
        if callee and (callee.startswith("llvm.dbg") or callee.startswith("llvm.lifetime") or callee.startswith("llvm.stacksave") or callee.startswith("llvm.stackrestore")):
            return
        pure = callee in self.E.PURE
        if callee and (callee.startswith("llvm.memcpy") or callee.startswith("llvm.memset") or callee.startswith("llvm.memmove")):
            # writes only through its destination: a copy into a named global array or a local leaves the integer cells alone and
            # only invalidates what was loaded from that object (pointer parameters never alias it: checked over all call sites)
            tgt = None
            d = self.fn.resolve(rules.strip_casts(self.fn, inst.args[0]))
            o = inst.args[0]
            for _ in range(6):
                o = rules.strip_casts(self.fn, o)
                if o.get("k") == "global":
                    tgt = ("g", o["name"])
                    break
                di = self.fn.resolve(o)
                if di is None:
                    break
                if di.op == "alloca":
                    tgt = ("alloca", di.id)
                    break
                if di.op == "getelementptr":
                    o = di["base"]
                else:
                    break
            if tgt is not None:
                self.E.note_global_array_write(self.fn, tgt)
                self.kill(st, lambda a: a[0] == "expr" and rules.key_mentions(a[1], lambda k: k[0] == tgt[0] and k[1] == tgt[1]))
                return
        if not pure:
            # facts about the tracked scalar globals survive a call that cannot write them: a repo callee is asked (may_write), an external one
            # cannot name a file-static / library-internal scalar whose address is never taken
            if callee and callee in self.P.functions and self.P.functions[callee].blocks:
                mwset = self.E.may_write(callee)
            else:
                mwset = set()       # external function or user callback (assumed not to touch library state)
            self.kill(st, lambda a: a[0] == "expr" or (a[0] == "cell" and a[1] == "g" and (mwset is None or (len(a) > 2 and a[2] in mwset))))
            summ = self.E.summary(callee) if callee else None
            for g in list(self.E.global_iv):
                if summ is not None and g in summ:
                    st.cells[("g", g)] = summ[g]
                elif summ is None or g in self.E.may_write(callee):
                    st.cells.pop(("g", g), None)

    def refine(self, cond, truth, st):
        """returns refined state or None if infeasible"""
        i = self.fn.resolve(cond)
        if i is None:
            return st
        if i.op == "xor" and rules.const_of(self.fn, i["b"]) in (1, -1):
            return self.refine(i["a"], not truth, st)
        if i.op in ("trunc", "zext"):
            # truth test of a byte cell
            l = self.lf(i["a"], st)
            if l is not None and len(l.t) == 1 and list(l.t.values())[0] == 1 and l.k == 0:
                return self._bound(l, "ne" if truth else "eq", LF(0), st)
            return st
        if i.op == "phi" and i["ty"] == "i1":
            want = 1 if truth else 0
            # the partition knows which predecessor it came through
            frm = getattr(st, "_from", None)
            if frm is not None:
                inc = [(b, v) for b, v in i["incoming"] if b == frm]
                if len(inc) == 1:
                    v = inc[0][1]
                    if v.get("k") == "const":
                        return st if (v["v"] & 1) == want else None
                    r = self.refine(v, truth, st)
                    if r is not None:
                        r._from = frm
                    return r
            alive = [(b, v) for b, v in i["incoming"] if not (v.get("k") == "const" and (v["v"] & 1) != want)]
            if len(alive) == 1 and alive[0][1].get("k") != "const":
                return self.refine(alive[0][1], truth, st)
            return st
        if i.op != "icmp":
            return st
        pred = i["pred"]
        if not truth:
            pred = {"eq": "ne", "ne": "eq", "ult": "uge", "uge": "ult", "ugt": "ule", "ule": "ugt", "slt": "sge", "sge": "slt", "sgt": "sle", "sle": "sgt"}[pred]
        a = self.lf(i["a"], st)
        b = self.lf(i["b"], st)
        if a is None or b is None:
            return st
        # unsigned predicates on possibly negative values are not refined
        if pred[0] == "u":
            ia, ib = self.iv_lf(a, st), self.iv_lf(b, st)
            if ia[0] < 0 or ib[0] < 0:
                return st
            pred = {"ult": "slt", "ule": "sle", "ugt": "sgt", "uge": "sge"}[pred]
        return self._bound(a, pred, b, st)

    def _bound(self, a, pred, b, st):
        st = st.copy()
        # what both sides have in common (the address of the array two pointers point into, a shared summand) says nothing about the comparison
        common = {at: c for at, c in a.t.items() if b.t.get(at) == c}
        if common:
            cl = LF(0, common)
            a, b = a.add(cl, -1), b.add(cl, -1)
        ia, ib = self.iv_lf(a, st), self.iv_lf(b, st)
        if pred == "eq":
            m = meet(ia, ib)
            if m is None:
                return None
            self._restrict(a, m, st)
            self._restrict(b, m, st)
            d = a.add(b, -1)
            if d.t:
                st.facts[d.key()] = min(st.facts.get(d.key(), INF), -d.k)
                d2 = d.scale(-1)
                st.facts[d2.key()] = min(st.facts.get(d2.key(), INF), -d2.k)
            return st
        if pred == "ne":
            if ia[0] == ia[1] == ib[0] == ib[1]:
                return None
            # a != b together with a <= b (a known difference bound) is a < b: `for (p = first; p != end; ++p)`
            d = a.add(b, -1)
            if d.t:
                for dd in (d, d.scale(-1)):
                    if self.iv_lf(dd, st)[1] == 0:
                        st.facts[dd.key()] = min(st.facts.get(dd.key(), INF), -dd.k - 1)
                        self._close(st, dd, st.facts[dd.key()])
            # exclude an endpoint
            if ib[0] == ib[1]:
                if ia[0] == ib[0]:
                    self._restrict(a, (ia[0] + 1, ia[1]), st)
                elif ia[1] == ib[0]:
                    self._restrict(a, (ia[0], ia[1] - 1), st)
                elif len(a.t) == 1 and ia[0] < ib[0] < ia[1]:
                    (atom_, c_), = a.t.items()
                    if atom_[0] == "cell" and c_ == 1:
                        cell_ = atom_[1:]
                        st.neq[cell_] = frozenset(st.neq.get(cell_, frozenset()) | {ib[0] - a.k})
            return st
        if pred in ("sgt", "sge"):
            a, b, ia, ib = b, a, ib, ia
            pred = "slt" if pred == "sgt" else "sle"
        off = 1 if pred == "slt" else 0
        # a <= b - off
        if ia[0] > ib[1] - off:
            return None
        # the same test with relational facts: a lower bound of (a - b) is minus the upper bound of (b - a)
        nd = b.add(a, -1)
        if nd.t:
            lbd = -self.iv_lf(nd, st)[1]
            if lbd + off > 0:
                return None
        self._restrict(a, (ia[0], min(ia[1], ib[1] - off)), st)
        self._restrict(b, (max(ib[0], ia[0] + off), ib[1]), st)
        d = a.add(b, -1)
        if d.t:
            st.facts[d.key()] = min(st.facts.get(d.key(), INF), -d.k - off)
            if self.pcells:
                self._close(st, d, st.facts[d.key()])
        return st

    def _close(self, st, d, ub, depth=0):
        """a new difference fact  terms(d) <= ub  is also stated over what its cells are known equal to (`p < end`, `end == n`, `n == len - 2`
        give `p - len <= -3`), two steps deep"""
        if depth >= 2 or len(d.t) > 3:
            return
        for at, c in list(d.t.items()):
            if at[0] != "cell":
                continue
            for eq in self._equal_forms(st, at):
                r = LF(0, {a_: c_ for a_, c_ in d.t.items() if a_ != at}).add(LF(0, eq.t), c)
                if not r.t or len(r.t) > 3 or at in r.t:
                    continue
                nub = ub - c * eq.k
                if nub < st.facts.get(r.key(), INF):
                    st.facts[r.key()] = nub
                    self._close(st, r, nub, depth + 1)

    def _restrict(self, l, iv, st):
        if l is not None and len(l.t) == 1:
            (atom, c), = l.t.items()
            if atom[0] == "cell" and c in (1, -1):
                cell = atom[1:]
                cur = st.cells.get(cell, self.cell_type_range(cell))
                lo, hi = iv[0] - l.k, iv[1] - l.k
                if c == -1:
                    lo, hi = -hi, -lo
                m = meet(cur, (lo, hi))
                if m is not None:
                    ex = st.neq.get(cell)
                    if ex:
                        lo_, hi_ = m
                        while lo_ in ex and lo_ <= hi_:
                            lo_ += 1
                        while hi_ in ex and hi_ >= lo_:
                            hi_ -= 1
                        if lo_ <= hi_:
                            m = (lo_, hi_)
                    st.cells[cell] = m
            elif atom[0] in ("expr", "arg") and c == 1:
                # bound on an opaque atom: keep as a fact  atom <= hi  and  -atom <= -lo
                if iv[1] < INF:
                    k1 = LF(0, {atom: 1}).key()
                    st.facts[k1] = min(st.facts.get(k1, INF), iv[1] - l.k)
                if iv[0] > -INF:
                    k2 = LF(0, {atom: -1}).key()
                    st.facts[k2] = min(st.facts.get(k2, INF), -(iv[0] - l.k))

    def _group_key(self, head, st):
        """control partition of a loop-head state: the values of constant-valued cells that are never written inside any loop
        of the function (configuration-like locals such as an address depth chosen before the loops)"""
        if self._part_cells is None:
            inloop = set()
            for h in self.loop_heads:
                inloop |= self.fn.natural_loop_of(h)
            written_in_loops = set()
            for b in inloop:
                for i in self.fn.bmap[b].insts:
                    if i.op == "store":
                        c = self.cell_of_ptr(i["ptr"])
                        if c is not None:
                            written_in_loops.add(c)
            self._part_cells = {("a", a) for a in self.cells} - written_in_loops
        back = st._from is not None and st._from in self.fn.natural_loop_of(head)
        return (back,) + tuple(sorted((c, v[0]) for c, v in st.cells.items() if v[0] == v[1] and c in self._part_cells))

    def _entry_difference_facts(self, head, st):
        """on first entry to a loop: for every cell x the loop writes that holds a constant vx, record x - y <= vx - lo(y) and
        y - x <= hi(y) - vx for the cells y the loop reads or writes; these facts are shifted by the stores in the body and so become
        inductive invariants of counting loops (e.g. filled <= i + 1, i <= n)"""
        body = self.fn.natural_loop_of(head)
        written, used = set(), set()
        for b in body:
            for i in self.fn.bmap[b].insts:
                if i.op == "store":
                    c = self.cell_of_ptr(i["ptr"])
                    if c is not None:
                        written.add(c)
                elif i.op == "load":
                    c = self.cell_of_ptr(i["ptr"])
                    if c is not None:
                        used.add(c)
        # a cell counted up while another is counted down (`*dst++ = ..; remaining--`): their SUM is the invariant.  x holds a constant vx on entry;
        # y is known equal to a form L over values the loop does not change (or just lies in an interval):  x + y - L <= vx  and  -(x + y - L) <= -vx
        sign = {}
        for b in body:
            for i in self.fn.bmap[b].insts:
                if i.op == "store":
                    c = self.cell_of_ptr(i["ptr"])
                    if c is None:
                        continue
                    # direction of the update, read off its shape: cell = cell +/- constant (pointer: one of its own elements further)
                    sg = None
                    v = self.fn.resolve(rules.strip_casts(self.fn, i["val"]))
                    if v is not None and v.op == "getelementptr" and not v["idx"] and v["off"] != 0:
                        src_ = self.fn.resolve(rules.strip_casts(self.fn, v["base"]))
                        if src_ is not None and src_.op == "load" and self.cell_of_ptr(src_["ptr"]) == c:
                            sg = 1 if v["off"] > 0 else -1
                    elif v is not None and v.op in ("add", "sub"):
                        k_ = rules.const_of(self.fn, v["b"])
                        src_ = self.fn.resolve(rules.strip_casts(self.fn, v["a"]))
                        if k_ and src_ is not None and src_.op == "load" and self.cell_of_ptr(src_["ptr"]) == c:
                            if v.op == "sub":
                                k_ = -k_
                            sg = 1 if k_ > 0 else -1
                    sign[c] = sg if sign.get(c, sg) == sg else 0
        def entry_forms(c):
            out_ = []
            L = self._equal_form(st, ("cell",) + c)
            if L is not None and not any(a_[0] == "cell" and a_[1:] in written for a_ in L.t):
                out_.append(L)
            v = st.cells.get(c)
            if v is not None and v[0] == v[1]:
                out_.append(LF(v[0]))
            return out_
        # two cells counted in the same direction (`data[pos++] = src[i]; i++`) where one does not start at a constant: their DIFFERENCE, relative to
        # what they are equal to on entry
        for x in written:
            if sign.get(x) not in (1, -1):
                continue
            for y in written:
                if y == x or sign.get(y) != sign[x] or not str(x) < str(y):
                    continue
                ax, ay = ("cell",) + x, ("cell",) + y
                for Lx_ in entry_forms(x):
                    for Ly in entry_forms(y):
                        if not Lx_.t and not Ly.t:
                            continue          # both constant: the interval-based facts below cover it
                        e = LF(0, {ax: 1, ay: -1}).add(Lx_, -1).add(Ly, 1)
                        if e.t and len(e.t) <= 6:
                            st.facts[e.key()] = min(st.facts.get(e.key(), INF), -e.k)
                            e2 = e.scale(-1)
                            st.facts[e2.key()] = min(st.facts.get(e2.key(), INF), -e2.k)
        for x in written:
            if sign.get(x) not in (1, -1):
                continue
            for y in written:
                if y == x or sign.get(y) != -sign[x]:
                    continue
                ax, ay = ("cell",) + x, ("cell",) + y
                fx, fy = entry_forms(x), entry_forms(y)
                if not fx:
                    continue
                Lx = fx[-1]
                if fy:
                    if str(x) < str(y):
                        for Lx_ in fx:
                            for Ly in fy:
                                e = LF(0, {ax: 1, ay: 1}).add(Lx_, -1).add(Ly, -1)
                                if len(e.t) <= 6:
                                    st.facts[e.key()] = min(st.facts.get(e.key(), INF), -e.k)
                                    e2 = e.scale(-1)
                                    st.facts[e2.key()] = min(st.facts.get(e2.key(), INF), -e2.k)
                elif not Lx.t:
                    vy = st.cells.get(y, self.cell_type_range(y))
                    if vy[1] < INF:
                        k = LF(0, {ax: 1, ay: 1}).key()
                        st.facts[k] = min(st.facts.get(k, INF), Lx.k + vy[1])
                    if vy[0] > -INF:
                        k = LF(0, {ax: -1, ay: -1}).key()
                        st.facts[k] = min(st.facts.get(k, INF), -(Lx.k + vy[0]))
        for x in written:
            vx = st.cells.get(x)
            if vx is None or vx[0] != vx[1]:
                continue
            for y in (written | used):
                if y == x:
                    continue
                vy = st.cells.get(y, self.cell_type_range(y))
                ax, ay = ("cell",) + x, ("cell",) + y
                if vy[0] > -INF:
                    k = LF(0, {ax: 1, ay: -1}).key()
                    st.facts[k] = min(st.facts.get(k, INF), vx[0] - vy[0])
                if vy[1] < INF:
                    k = LF(0, {ay: 1, ax: -1}).key()
                    st.facts[k] = min(st.facts.get(k, INF), vy[1] - vx[0])

    def widen(self, old, new):
        c = {}
        for k in set(old.cells) & set(new.cells):
            o, n = old.cells[k], new.cells[k]
            lo, hi = o
            if n[0] < o[0]:
                lo = max([t for t in self.thresholds if t <= n[0]] or [-INF])
            if n[1] > o[1]:
                hi = min([t for t in self.thresholds if t >= n[1]] or [INF])
            c[k] = (lo, hi)
        # a fact whose bound grew is not dropped at once: it may take one or two rounds until all back edges of a loop with several
        # latches (`continue`) have contributed (x - y <= 0 from the first latch, <= 1 from the second, then stable).  Each fact may be
        # raised twice per function; after that it is dropped, so the ascending chain stays finite.
        f = {}
        raises = self.__dict__.setdefault("_fact_raises", {})
        for k, v in old.facts.items():
            if k not in new.facts:
                continue
            nv = new.facts[k]
            if nv <= v:
                f[k] = v
            elif raises.get(k, 0) < 2 and nv < INF:
                raises[k] = raises.get(k, 0) + 1
                f[k] = nv
        return State(c, f)

    # ---------------------------------------------------------------- fixpoint
    def _run(self):
        fn = self.fn
        init = State()
        for g, iv in self.E.global_iv.items():
            pass
        instates = defaultdict(list)      # block id -> list of states
        instates[fn.blocks[0].id] = [init]
        visits = defaultdict(int)
        work = deque([fn.blocks[0].id])
        inwork = {fn.blocks[0].id}
        head_state = {}
        steps = 0
        while work:
            bid = work.popleft()
            inwork.discard(bid)
            steps += 1
            if steps > 20000:
                raise AnalysisBroken("interval analysis of %s did not converge" % fn.name)
            states = instates[bid]
            if bid in self.loop_heads:
                # control partitioning: states that differ in a constant-valued cell the loop never writes are kept apart
                groups = {}
                for s_ in states:
                    gk = self._group_key(bid, s_)
                    if gk in groups:
                        j_ = join(groups[gk], s_)
                        j_._from = s_._from
                        groups[gk] = j_
                    else:
                        groups[gk] = s_
                if len(groups) > PARTITIONS:
                    j = None
                    for s_ in groups.values():
                        j = s_ if j is None else join(j, s_)
                    groups = {(): j}
                    for k2 in [k for k in head_state if k[0] == bid]:
                        j = join(j, head_state.pop(k2))
                    groups = {(): j}
                changed_any = False
                for gk, j in groups.items():
                    old = head_state.get((bid, gk))
                    if old is not None and gk and not gk[0]:
                        # a later entry into the loop from outside (another path to the loop): its own entry facts, so that what they have in common
                        # with the first entry's survives the join
                        j = j.copy()
                        self._entry_difference_facts(bid, j)
                    if old is not None:
                        visits[(bid, gk)] += 1
                        j2 = join(old, j)
                        if visits[(bid, gk)] >= 3:
                            j2 = self.widen(old, j2)
                        if j2.sig() == old.sig():
                            continue
                        j2._from = j._from
                        j = j2
                    if old is None and gk and not gk[0]:
                        self._entry_difference_facts(bid, j)
                    head_state[(bid, gk)] = j
                    changed_any = True
                if not changed_any:
                    continue
                states = [v for k, v in head_state.items() if k[0] == bid]
            bb = fn.bmap[bid]
            out = self._flow_block(bb, states)
            for succ, sts in out.items():
                if not sts:
                    continue
                cur = instates[succ]
                changed = False
                if succ in self.loop_heads:
                    # accumulate per control partition (first entry and back edge apart: one peeled iteration); the head joins within a partition
                    for s_ in sts:
                        s_._from = bid
                    bykey = {}
                    for s_ in cur:
                        bykey[self._group_key(succ, s_)] = s_
                    for s_ in sts:
                        gk = self._group_key(succ, s_)
                        if gk in bykey:
                            j = join(bykey[gk], s_)
                            j._from = s_._from
                            if j.sig() != bykey[gk].sig():
                                bykey[gk] = j
                                changed = True
                        else:
                            bykey[gk] = s_
                            changed = True
                    instates[succ] = list(bykey.values())
                else:
                    # partitions are keyed by the predecessor edge: replace what this edge delivered before
                    tag = bid
                    keep = [s for s in cur if getattr(s, "_from", None) != tag]
                    for s in sts:
                        s._from = tag
                    new = keep + sts
                    if len(new) > PARTITIONS:
                        j = new[0]
                        for s in new[1:]:
                            j = join(j, s)
                        j._from = None
                        new = [j]
                    if {x.sig() for x in new} != {x.sig() for x in cur}:
                        changed = True
                    instates[succ] = new
                if changed and succ not in inwork:
                    work.append(succ)
                    inwork.add(succ)

    def _flow_block(self, bb, states):
        fn = self.fn
        out = defaultdict(list)
        for inst in bb.insts:
            self.pre[inst.id] = []
        for st0 in states:
            st = st0.copy()
            st.frozen = {}
            dead = False
            self._cur_bb = bb.id
            for inst in bb.insts:
                self._remember(inst, st)
                if inst.op == "store":
                    self.store(inst, st)
                elif inst.op == "call":
                    self.call(inst, st)
            if dead:
                continue
            t = bb.term
            if t.op == "ret":
                self.exit_states.append(st)
            elif t.op == "br" and "cond" in t.d:
                s1 = self.refine(t["cond"], True, st.copy())
                s0 = self.refine(t["cond"], False, st.copy())
                if s1 is not None:
                    out[t["t"]].append(s1)
                if s0 is not None:
                    out[t["f"]].append(s0)
            elif t.op == "switch":
                for s in dict.fromkeys(bb.succ):
                    out[s].append(st.copy())
            else:
                for s in bb.succ:
                    out[s].append(st.copy())
        return out

    def _remember(self, inst, st):
        if inst.op in ("getelementptr", "call", "store", "load", "ret", "trunc"):
            lst = self.pre[inst.id]
            sg = st.sig()
            if len(lst) < 64 and all(x.sig() != sg for x in lst):
                lst.append(st.copy())


class Engine:
    PURE = {"strlen", "strcmp", "strncmp", "abs", "g_queue_is_empty", "g_queue_get_length", "clock_gettime", "time", "difftime", "usleep",
            "syslog", "syslog_libbidib", "g_queue_peek_head", "memcmp"}

    def __init__(self, w, globals_of_interest=None):
        self.w = w
        self.P = w.P
        self.goi = globals_of_interest
        self.global_iv = {}
        self.expr_ranges = {}
        self._summ = {}
        self._mw = {}
        self._fa = {}
        self._inprog = set()
        self._global_invariants()

    # integer globals that are written somewhere: inductive interval invariant
    def _global_invariants(self):
        P = self.P
        cands = {}
        for g in P.globals.values():
            if g.get("decl") or g.get("const"):
                continue
            ty = g["type"]
            if ty.startswith("i") and ty[1:].isdigit() and isinstance(g.get("init", 0), int):
                if self.goi is None or g["name"] in self.goi:
                    cands[g["name"]] = g
        stores = defaultdict(list)
        for f in P.repo_functions():
            for i in f.all_insts():
                if i.op == "store" and i["ptr"].get("k") == "global" and i["ptr"]["name"] in cands and i["ptr"].get("off", 0) == 0:
                    stores[i["ptr"]["name"]].append((f, i))
        # start from the initialiser, iterate: I = hull(init, values stored assuming loads within I)
        for name, g in cands.items():
            bits = tybits(g["type"])
            init = g.get("init", 0) if isinstance(g.get("init"), int) else 0
            self.global_iv[name] = (init, init)
        self.global_stores = stores
        for _round in range(6):
            changed = False
            self._fa = {}
            self._summ = {}
            for name, sts in stores.items():
                cur = self.global_iv[name]
                bits = tybits(cands[name]["type"])
                full = urange(bits) if bits < 64 else (0, (1 << 64) - 1)
                new = cur
                for (f, i) in sts:
                    fa = self.analysis(f)
                    for st in fa.pre.get(i.id, []):
                        v = fa.iv(i["val"], st)
                        if v[0] < full[0] or v[1] > full[1]:
                            v = full
                        new = hull(new, v)
                if new != cur:
                    if _round >= 3:
                        new = (min(new[0], full[0]) if new[0] < cur[0] else new[0], full[1] if new[1] > cur[1] else new[1])
                    self.global_iv[name] = new
                    changed = True
            if not changed:
                break
        self._fa = {}
        self._summ = {}

    def note_global_array_write(self, fn, tgt):
        self.array_writes = getattr(self, "array_writes", set())
        self.array_writes.add((fn.name, tgt))

    def analysis(self, fn, param_iv=None):
        key = (fn.name, tuple(sorted((param_iv or {}).items())))
        fa = self._fa.get(key)
        if fa is None:
            fa = FunctionAnalysis(self, fn, param_iv)
            self._fa[key] = fa
        return fa

    def may_write(self, callee):
        """globals possibly written by callee (transitively); None callee/external -> empty for known externals"""
        if callee is None:
            return set(self.global_iv)
        if callee in self._mw:
            return self._mw[callee]
        self._mw[callee] = set()
        f = self.P.functions.get(callee)
        out = set()
        if f is not None and f.blocks:
            for i in f.all_insts():
                if i.op == "store" and i["ptr"].get("k") == "global" and i["ptr"]["name"] in self.global_iv:
                    out.add(i["ptr"]["name"])
                elif i.op == "call":
                    if i.callee is None:
                        continue
                    out |= self.may_write(i.callee)
        self._mw[callee] = out
        return out

    def summary(self, callee):
        """global -> interval at callee exit (for globals it may write), analysed with the invariant at entry"""
        if callee in self._summ:
            return self._summ[callee]
        f = self.P.functions.get(callee)
        if f is None or not f.blocks:
            self._summ[callee] = {}
            return {}
        if callee in self._inprog:
            return None
        self._inprog.add(callee)
        mw = self.may_write(callee)
        res = {}
        if mw:
            fa = self.analysis(f)
            for g in mw:
                iv = None
                for st in fa.exit_states:
                    v = st.cells.get(("g", g), self.global_iv[g])
                    # facts may know more than the cell's own interval (a local copy of the global was tested: `n = g; if (n > 0) {...; g = 0;}`)
                    try:
                        v2 = fa.iv_lf(LF(0, {("cell", "g", g): 1}), st)
                        v = (max(v[0], v2[0]), min(v[1], v2[1])) if v2[0] <= v2[1] else v
                    except Exception:
                        pass
                    iv = v if iv is None else hull(iv, v)
                res[g] = iv if iv is not None else self.global_iv[g]
        self._inprog.discard(callee)
        self._summ[callee] = res
        return res

    def ret_range(self, callee):
        """interval of the value a repo function returns (over all its return paths, parameters unconstrained), or None"""
        key = ("ret", callee)
        if key in self._summ:
            return self._summ[key]
        f = self.P.functions.get(callee)
        if f is None or not f.blocks or callee in self._inprog or sum(len(b.insts) for b in f.blocks) > 600:
            return None
        self._summ[key] = None
        self._inprog.add(callee)
        try:
            fa = self.analysis(f)
            iv = None
            for r in f.all_insts():
                if r.op == "ret" and "val" in r.d:
                    sts = fa.pre.get(r.id, [])
                    if not sts:
                        continue
                    for st in sts:
                        v = fa.iv(r["val"], st)
                        iv = v if iv is None else hull(iv, v)
        except Exception:
            iv = None
        self._inprog.discard(callee)
        if iv is not None and (iv[0] == -INF or iv[1] == INF):
            iv = None
        self._summ[key] = iv
        return iv

    # ------------------------------------------------------------ parameter intervals from call sites
    def param_intervals(self, fn, depth=0):
        """interval of each integer parameter = hull over all call sites (callers analysed with their own parameter intervals)"""
        key = ("pi", fn.name)
        if key in self._fa:
            return self._fa[key]
        self._fa[key] = {}
        cs = self.P.callers().get(fn.name, [])
        res = {}
        if cs and depth < 4:
            for k, p in enumerate(fn.params):
                if not (p["type"].startswith("i") and p["type"][1:].isdigit()):
                    continue
                iv = None
                for cf, ci in cs:
                    fa = self.analysis(cf, self.param_intervals(cf, depth + 1) if cf.internal or True else None)
                    for st in fa.pre.get(ci.id, []):
                        v = fa.iv(ci.args[k], st)
                        iv = v if iv is None else hull(iv, v)
                if iv is not None:
                    res[k] = iv
        self._fa[key] = res
        return res


# ---------------------------------------------------------------------- obligations
def _addr_atom(key):
    return ("expr", ("addr", key), "addr", 1 << 16, 1 << 46)


def _array_object(P, fn, o):
    """operand that is a fixed-size array object itself -> (key, description) / None"""
    if o.get("k") == "global":
        g = P.globals.get(o["name"])
        if g and g["type"].startswith("[") and "size" in g:
            return ("G", o["name"]), ("global", o["name"], g["size"])
    elif o.get("k") == "inst":
        a = fn.insts[o["id"]]
        if a.op == "alloca" and "size" in a.d and a["aty"].startswith("["):
            return ("L", a.id), ("local", a.get("var", "%%%d" % a.id), a["size"])
        if a.op == "alloca" and "count" in a.d:
            return ("L", a.id), ("vla", a.get("var", "%%%d" % a.id), a)
    return None


def param_pointer_slots(fn, _cache={}):
    """alloca ids of pointer parameters that are spilled once and never reassigned or handed out by address"""
    ck = (id(fn), fn.name)
    if ck in _cache:
        return _cache[ck]
    out = set()
    for a in fn.allocas().values():
        if not (a["aty"].endswith("*") and a.get("param")):
            continue
        ok, nst = True, 0
        for i in fn.all_insts():
            for k, o in operands(i):
                if o.get("k") == "inst" and o["id"] == a.id:
                    if i.op == "store" and k == "ptr":
                        nst += 1
                    elif not (i.op == "load" and k == "ptr"):
                        ok = False
        if ok and nst == 1:
            out.add(a.id)
    _cache[ck] = out
    return out


def pointer_cells(P, fn, _cache={}):
    """alloca id -> (array key, array description) for the local pointer variables that are only read and written directly and whose every
    assigned value is an offset from one and the same fixed-size array (or from such a variable)"""
    ck = (id(P), fn.name)
    if ck in _cache:
        return _cache[ck]
    cand = {a.id: a for a in fn.allocas().values() if a["aty"].endswith("*") and not a.get("param") and "count" not in a.d}
    for i in fn.all_insts():
        for k, o in operands(i):
            if o.get("k") == "inst" and o["id"] in cand and not (i.op in ("load", "store") and k == "ptr"):
                cand.pop(o["id"], None)

    pparams = param_pointer_slots(fn)

    def origin(o):
        for _ in range(10):
            ao = _array_object(P, fn, o)
            if ao is not None:
                return ("obj",) + ao
            if o.get("k") == "inst" and fn.insts[o["id"]].op == "load" and fn.insts[o["id"]]["ptr"].get("k") == "inst" and \
                    fn.insts[o["id"]]["ptr"]["id"] in pparams:
                # a buffer handed in by the caller: its size is not known here, but a pointer that walks it has an offset all the same
                aid_ = fn.insts[o["id"]]["ptr"]["id"]
                return ("obj", ("P", aid_), ("param", fn.insts[aid_].get("var", "%%%d" % aid_), None))
            if o.get("k") != "inst":
                return None
            i = fn.insts[o["id"]]
            if i.op == "bitcast":
                o = i["a"]
            elif i.op == "getelementptr":
                o = i["base"]
            elif i.op == "load" and i["ptr"].get("k") == "inst" and i["ptr"]["id"] in cand:
                return ("var", i["ptr"]["id"])
            else:
                return None
        return None
    srcs = {}
    for i in fn.all_insts():
        if i.op == "store" and i["ptr"].get("k") == "inst" and i["ptr"]["id"] in cand:
            srcs.setdefault(i["ptr"]["id"], []).append(origin(i["val"]))
    base = {}
    bad = {a for a in cand if not srcs.get(a) or any(x is None for x in srcs[a])}
    changed = True
    while changed:
        changed = False
        for a in cand:
            if a in bad:
                continue
            for x in srcs[a]:
                if x[0] == "var":
                    if x[1] in bad:
                        bad.add(a)
                        changed = True
                        break
                    b = base.get(x[1])
                    if b is None:
                        continue
                else:
                    b = (x[1], x[2])
                if a not in base:
                    base[a] = b
                    changed = True
                elif base[a][0] != b[0]:
                    bad.add(a)
                    changed = True
                    break
    out = {a: b for a, b in base.items() if a not in bad}
    _cache[ck] = out
    return out


def array_accesses(P, fn):
    """GEPs with a variable index whose base is a fixed-size array object (local or global): (gep inst, base desc, element count, elem size, index operand)"""
    out = []
    for i in fn.all_insts():
        if i.op != "getelementptr" or not i["idx"]:
            continue
        b = i["base"]
        base = None
        if b.get("k") == "global":
            g = P.globals.get(b["name"])
            if g and g["type"].startswith("["):
                base = ("global", b["name"], g["size"])
        elif b.get("k") == "inst":
            a = fn.insts[b["id"]]
            if a.op == "alloca" and "size" in a.d and a["aty"].startswith("["):
                base = ("local", a.get("var", "%%%d" % a.id), a["size"])
            elif a.op == "alloca" and "count" in a.d:
                base = ("vla", a.get("var", "%%%d" % a.id), a)
        if base is None:
            continue
        out.append((i, base))
    # dereferences of running pointers into such arrays (`*p`, `p[k]` with p a local pointer variable that walks one array)
    pc = pointer_cells(P, fn)
    if pc:
        for i in fn.all_insts():
            if i.op not in ("load", "store"):
                continue
            o = i["ptr"]
            for _ in range(6):
                if o.get("k") != "inst":
                    break
                q = fn.insts[o["id"]]
                if q.op == "bitcast":
                    o = q["a"]
                elif q.op == "getelementptr":
                    o = q["base"]
                else:
                    break
            if o.get("k") == "inst" and fn.insts[o["id"]].op == "load":
                src = fn.insts[o["id"]]["ptr"]
                if src.get("k") == "inst" and src["id"] in pc and pc[src["id"]][1][0] != "param":
                    out.append((i, pc[src["id"]][1]))
    return out


def _only_formed(P, fn, gep):
    """the address is only kept or compared (`end = buf + n`, `p != buf + n`), never dereferenced or handed on: it may be one past the end"""
    uses = 0
    for i in fn.all_insts():
        for k, o in operands(i):
            if o.get("k") == "inst" and o["id"] == gep.id:
                uses += 1
                if i.op == "store" and k == "val" and i["ptr"].get("k") == "inst" and i["ptr"]["id"] in pointer_cells(P, fn):
                    continue
                if i.op in ("icmp", "ptrtoint"):
                    continue
                return False
    return uses > 0


def check_gep(fa, gep, base):
    """-> (ok, detail) for one variable-index access"""
    fn = fa.fn
    states = fa.pre.get(gep.id, [])
    if not states:
        return True, "unreachable"
    worst = None
    if gep.op in ("load", "store"):
        # through a running pointer: offset of the pointer from the start of its array
        esz = (gep["size"] if gep.op == "load" and "size" in gep.d else max(1, tybits(gep.get("vty", gep.get("ty", "i8"))) // 8))
        for st in states:
            sp = fa.ptr_lf(gep["ptr"], st)
            if sp is None:
                return False, "the pointer is not an offset from its array"
            iv = fa.iv_lf(sp[1], st)
            if base[0] == "vla":
                a = base[2]
                cnt = fa.lf(a["count"], st)
                if cnt is None:
                    return False, "VLA size is not linear"
                div = fa.iv_lf(sp[1].add(cnt.scale(a["elsize"]), -1), st)
                if iv[0] < 0 or div[1] > -esz:
                    worst = ((iv[0], div[1]), "size-relative", st)
            elif iv[0] < 0 or iv[1] + esz > base[2]:
                worst = (iv, base[2], st)
        if worst:
            iv, size, st = worst
            return False, "pointer offset in [%s, %s] for an object of %s bytes" % (iv[0], iv[1], size)
        return True, "in bounds in %d abstract states" % len(states)
    formed = base[0] in ("global", "local") and _only_formed(fa.P, fn, gep)
    for st in states:
        # byte offset = const off + sum scale*idx
        off = LF(gep["off"])
        bad = False
        for x in gep["idx"]:
            l = fa.lf(x["v"], st)
            if l is None:
                bad = True
                break
            off = off.add(l.scale(x["scale"]))
        if bad:
            return False, "index is not a linear expression"
        iv = fa.iv_lf(off, st)
        esz = 0 if formed else (gep["ressize"] or 1)
        if base[0] in ("global", "local"):
            size = base[2]
            if iv[0] < 0 or iv[1] + esz > size:
                worst = (iv, size, st)
        else:
            a = base[2]
            cnt = fa.lf(a["count"], st)
            if cnt is None:
                return False, "VLA size is not linear"
            size_lf = cnt.scale(a["elsize"])
            d = off.add(size_lf, -1)          # off - size <= -esz  required
            div = fa.iv_lf(d, st)
            if iv[0] < 0 or div[1] > -esz:
                worst = ((iv[0], div[1]), "size-relative", st)
    if worst:
        iv, size, st = worst
        return False, "byte offset in [%s, %s] for an object of %s bytes" % (iv[0], iv[1], size)
    return True, "in bounds in %d abstract states" % len(states)


def check_send_bounds(chk, w, roles):
    """C01-BND: every variable-index access to the batch / staging buffer and the append memcpy are in bounds"""
    P = w.P
    scal = set(roles["fill_index"]) | set(roles.get("capacity", ()))
    E = Engine(w, scal)
    chk.rule("C01-BND", "every store into the batch and staging buffers and the append copy stay inside the arrays")
    bufs = set(roles["staging"]) | set(roles["batch"])
    n = 0
    fns = {f.name: f for f in roles["flush"]}
    for (f, mc) in roles["append"]:
        fns[f.name] = f
    for f in fns.values():
        fa = E.analysis(f)
        for (gep, base) in array_accesses(P, f):
            if base[0] == "global" and base[1] in bufs:
                n += 1
                ok, detail = check_gep(fa, gep, base)
                if ok:
                    chk.ok("C01-BND", 1, {"access": gep.loc(), "array": base[1], "result": detail})
                else:
                    chk.violation("C01-BND", f.name, base[1], gep.loc(), "access to %s may be out of bounds: %s" % (base[1], detail))
    for (f, mc) in roles["append"]:
        if getattr(mc, "op", "") == "store-append":
            continue          # a copy loop: its subscripts were checked above like any other access to the buffer
        fa = E.analysis(f)
        n += 1
        dst = f.resolve(rules.strip_casts(f, mc.args[0]))
        size = P.globals[sorted(roles["batch"])[0]]["size"]
        bad = None
        for st in fa.pre.get(mc.id, []):
            off = LF(0)
            g = dst
            okl = True
            while g is not None and g.op == "getelementptr":
                off = off.add(LF(g["off"]))
                for x in g["idx"]:
                    l = fa.lf(x["v"], st)
                    if l is None:
                        okl = False
                    else:
                        off = off.add(l.scale(x["scale"]))
                g = f.resolve(rules.strip_casts(f, g["base"]))
            ln = fa.lf(mc.args[2], st)
            if not okl or ln is None:
                bad = "offset/length not linear"
                break
            tot = fa.iv_lf(off.add(ln), st)
            lo = fa.iv_lf(off, st)
            if lo[0] < 0 or tot[1] > size:
                bad = "offset+length in [%s, %s] for %d bytes" % (lo[0], tot[1], size)
        if bad:
            chk.violation("C01-BND", f.name, "append-copy", mc.loc(), "the append copy may overrun the batch buffer: %s" % bad)
        else:
            chk.ok("C01-BND", 1, {"append": mc.loc(), "states": len(fa.pre.get(mc.id, []))})
    chk.extra["global_invariants"] = {k: list(v) for k, v in E.global_iv.items() if k in scal}
    chk.floor("send_buffer_accesses", n, 6)
