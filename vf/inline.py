"""Model-level inlining of TU-local helpers, so that rules written over one function keep seeing the whole algorithm after an
extract-function refactoring.

inline_helpers(P, caller_name, pred) replaces P.functions[caller_name] by a copy in which every direct call to a repo function g
with pred(g) true has been replaced by g's body (recursively, bounded depth).  Parameter spill slots of the inlined body that are
assigned exactly once are forwarded (loads of the slot become the argument operand), so `*out_param` accesses in the helper are
seen as accesses to the caller's own local.  Instruction lines keep pointing at the helper's source.
"""
import copy

from .model import Function

OPND_KEYS = ("a", "b", "cond", "ptr", "val", "base", "fptr", "count")


def _map_opnd(o, f):
    return f(o) if isinstance(o, dict) and "k" in o else o


def rewrite_operands(inst, f):
    """apply f to every operand dict of an instruction dict (in place)"""
    for k in OPND_KEYS:
        if k in inst and isinstance(inst[k], dict):
            inst[k] = f(inst[k])
    if "args" in inst:
        inst["args"] = [f(a) for a in inst["args"]]
    if "idx" in inst:
        for x in inst["idx"]:
            x["v"] = f(x["v"])
    if "incoming" in inst:
        inst["incoming"] = [[b, f(v)] for b, v in inst["incoming"]]


def _inline_one(fd, call_id, cd):
    """fd, cd: function dicts (fd is modified in place). Returns True when the call was inlined."""
    nid = 1 + max(i["id"] for b in fd["blocks"] for i in b["insts"])
    nb = 1 + max(b["id"] for b in fd["blocks"])
    B = None
    k = None
    for b in fd["blocks"]:
        for j, i in enumerate(b["insts"]):
            if i["id"] == call_id:
                B, k = b, j
    if B is None:
        return False
    call = B["insts"][k]
    imap = {}
    for b in cd["blocks"]:
        for i in b["insts"]:
            imap[i["id"]] = nid
            nid += 1
    bmap = {}
    for b in cd["blocks"]:
        bmap[b["id"]] = nb
        nb += 1
    b2 = nb
    args = call.get("args", [])

    def mo(o):
        if o.get("k") == "inst":
            n = dict(o)
            n["id"] = imap[o["id"]]
            return n
        if o.get("k") == "arg":
            return copy.deepcopy(args[o["i"]]) if o["i"] < len(args) else {"k": "undef"}
        return copy.deepcopy(o)

    rets = []
    new_blocks = []
    for b in cd["blocks"]:
        nbk = {"id": bmap[b["id"]], "succ": [bmap[s] for s in b["succ"]], "insts": []}
        for i in b["insts"]:
            n = copy.deepcopy(i)
            n["id"] = imap[i["id"]]
            n["inlined_from"] = cd["name"]
            if n["op"] == "ret":
                if "val" in n:
                    rets.append((nbk["id"], mo(n["val"])))
                n = {"id": n["id"], "op": "br", "ty": "void", "line": i.get("line", 0), "col": i.get("col", 0), "t": b2, "inlined_from": cd["name"]}
                nbk["succ"] = [b2]
            else:
                rewrite_operands(n, mo)
                if n["op"] == "br":
                    n["t"] = bmap[n["t"]]
                    if "f" in n:
                        n["f"] = bmap[n["f"]]
                elif n["op"] == "switch":
                    n["default"] = bmap[n["default"]]
                    n["cases"] = [[cv, bmap[cb]] for cv, cb in n["cases"]]
                elif n["op"] == "phi":
                    n["incoming"] = [[bmap[pb], v] for pb, v in n["incoming"]]
            nbk["insts"].append(n)
        new_blocks.append(nbk)
    tail = B["insts"][k + 1:]
    head = B["insts"][:k]
    old_succ = list(B["succ"])
    cont = {"id": b2, "succ": old_succ, "insts": []}
    if call.get("ty") != "void" and rets:
        cont["insts"].append({"id": call_id, "op": "phi", "ty": call["ty"], "line": call.get("line", 0), "col": call.get("col", 0),
                              "incoming": [[rb, rv] for rb, rv in rets], "inlined_call": cd["name"]})
    cont["insts"] += tail
    head.append({"id": nid, "op": "br", "ty": "void", "line": call.get("line", 0), "col": call.get("col", 0), "t": bmap[cd["blocks"][0]["id"]], "inlined_call": cd["name"]})
    B["insts"] = head
    B["succ"] = [bmap[cd["blocks"][0]["id"]]]
    # phis in the old successors named B as predecessor
    for b in fd["blocks"]:
        if b["id"] in old_succ:
            for i in b["insts"]:
                if i["op"] == "phi":
                    i["incoming"] = [[b2 if pb == B["id"] else pb, v] for pb, v in i["incoming"]]
    fd["blocks"] += new_blocks + [cont]
    return True


def _forward_param_slots(fd):
    """loads of single-assignment, non-escaping parameter spill slots of inlined bodies -> the stored operand"""
    insts = [i for b in fd["blocks"] for i in b["insts"]]
    slots = {i["id"]: i for i in insts if i["op"] == "alloca" and "param" in i and i.get("inlined_from")}
    if not slots:
        return
    stores = {}
    bad = set()
    for i in insts:
        if i["op"] == "store" and i["ptr"].get("k") == "inst" and i["ptr"]["id"] in slots:
            stores.setdefault(i["ptr"]["id"], []).append(i)
            if i["val"].get("k") == "inst" and i["val"]["id"] in slots:
                bad.add(i["val"]["id"])
            continue
        if i["op"] == "load" and i["ptr"].get("k") == "inst" and i["ptr"]["id"] in slots:
            continue

        def chk(o):
            if o.get("k") == "inst" and o["id"] in slots:
                bad.add(o["id"])
            return o
        rewrite_operands(i, chk)
    fwd = {}
    for sid, sts in stores.items():
        if sid in bad or len(sts) != 1:
            continue
        fwd[sid] = sts[0]["val"]
    if not fwd:
        return
    sub = {}
    for i in insts:
        if i["op"] == "load" and i["ptr"].get("k") == "inst" and i["ptr"]["id"] in fwd:
            sub[i["id"]] = fwd[i["ptr"]["id"]]

    def rs(o):
        n = 0
        while o.get("k") == "inst" and o["id"] in sub and n < 8:
            o = copy.deepcopy(sub[o["id"]])
            n += 1
        return o
    for b in fd["blocks"]:
        for i in b["insts"]:
            rewrite_operands(i, rs)
        # the forwarded loads, the slot's single store and the slot itself are dead now (the store would otherwise look like an escape
        # of the caller's local whose address was passed)
        b["insts"] = [i for i in b["insts"] if i["id"] not in sub and i["id"] not in fwd and
                      not (i["op"] == "store" and i["ptr"].get("k") == "inst" and i["ptr"]["id"] in fwd)]


def inline_helpers(P, caller_name, pred, depth=3, replace=True):
    """returns the list of helper names inlined into caller_name (P.functions[caller_name] is replaced when non-empty and replace is set;
    with replace=False returns (names, new Function or None) and leaves the program untouched)"""
    f = P.functions[caller_name]
    fd = copy.deepcopy(f.d)
    done = []
    for _ in range(depth):
        todo = []
        for b in fd["blocks"]:
            for i in b["insts"]:
                if i["op"] == "call" and i.get("callee") in P.functions:
                    g = P.functions[i["callee"]]
                    if g.blocks and g.name != caller_name and not g.d.get("vararg") and pred(g):
                        todo.append((i["id"], g))
        if not todo:
            break
        for cid, g in todo:
            if _inline_one(fd, cid, g.d):
                done.append(g.name)
    if not done:
        return [] if replace else ([], None)
    _forward_param_slots(fd)
    nf = Function(fd, P)
    if not replace:
        return done, nf
    P.functions[caller_name] = nf
    P._callers = None
    P._addr_taken = None
    return done


def normalise(P, max_sites=1, max_size=400, depth=4, only_files=None, one_caller=False, keep=(), only_new=None):
    """canonical form for helper-extraction / helper-inlining refactorings: every static, non-recursive, not address-taken function of at
    most max_size instructions that is called from at most max_sites places is inlined into its callers (bottom-up, bounded depth) and,
    once no call to it is left, dropped from the program.  Returns {caller: [inlined helpers]}."""
    done = {}
    for _ in range(depth):
        sites = {}
        for f in P.repo_functions():
            for c in f.calls():
                if c.callee in P.functions:
                    sites.setdefault(c.callee, []).append((f, c))
        at = P.addr_taken()

        def reaches_self(g):
            seen = set()
            work = [g.name]
            while work:
                n = work.pop()
                h = P.functions.get(n)
                if h is None or not h.blocks:
                    continue
                for c in h.calls():
                    if c.callee == g.name:
                        return True
                    if c.callee in P.functions and c.callee not in seen:
                        seen.add(c.callee)
                        work.append(c.callee)
            return False
        cand = set()
        for name, ss in sites.items():
            g = P.functions[name]
            if not g.blocks or not g.internal or name in at or g.d.get("vararg"):
                continue
            if len(ss) > max_sites or sum(len(b.insts) for b in g.blocks) > max_size or name in keep:
                continue
            if only_files is not None and g.relfile not in only_files:
                continue
            if only_new is not None and name in only_new:
                continue
            if one_caller and len({cf.name for cf, ci in ss}) != 1:
                continue
            if any(cf.relfile != g.relfile for cf, ci in ss):
                continue
            if reaches_self(g):
                continue
            cand.add(name)
        if not cand:
            break
        # leaves first: inline helpers that do not themselves call a candidate
        leaf = {n for n in cand if not any(c.callee in cand for c in P.functions[n].calls())}
        use = leaf or cand
        progressed = False
        for caller in sorted({cf.name for n in use for cf, ci in sites[n]}):
            got = inline_helpers(P, caller, lambda g, use=use: g.name in use, depth=1)
            if got:
                done.setdefault(caller, []).extend(got)
                progressed = True
        # drop helpers without remaining call sites
        still = set()
        for f in P.repo_functions():
            for c in f.calls():
                still.add(c.callee)
        for n in use:
            if n not in still and n in P.functions:
                del P.functions[n]
        P._callers = None
        P._addr_taken = None
        if not progressed:
            break
    return done


_EXP = {}


def expanded(P, fname, max_size=2500, depth=4):
    """a private view of function `fname` in which its static, same-file, non-recursive callees (any number of call sites) are inlined;
    the program itself is not changed.  For rules that are about one routine's algorithm (the stop sequence, the initial-value loop):
    it makes no difference to them whether a step is written out or lives in a static helper."""
    key = (id(P), fname)
    if key in _EXP:
        return _EXP[key]
    f = P.functions[fname]
    at = P.addr_taken()

    def pred(g):
        if not g.internal or g.relfile != f.relfile or g.name in at or g.name == fname:
            return False
        if sum(len(b.insts) for b in g.blocks) > max_size:
            return False
        # not recursive
        seen, work = set(), [g.name]
        while work:
            n = work.pop()
            h = P.functions.get(n)
            if h is None or not h.blocks:
                continue
            for c in h.calls():
                if c.callee == g.name:
                    return False
                if c.callee in P.functions and c.callee not in seen:
                    seen.add(c.callee)
                    work.append(c.callee)
        return True
    got, nf = inline_helpers(P, fname, pred, depth=depth, replace=False)
    res = nf if nf is not None else f
    _EXP[key] = res
    return res
