"""C14 (partial): the rejection rules of the configuration that are uniqueness or range rules exist and raise the error.

Decided clauses (structural necessary conditions of 'rejected when an identifier or address is ambiguous or a value malformed'):
  REG    every function that appends to a global registry of configured entities does so only behind the negative outcome of a
         membership test, returns 'error' whenever a membership test is positive, and the tested keys cover the keys the statement
         names for that registry (boards: id + unique id; trains: id + DCC address; DCC accessories: id + DCC address; the rest: id);
  LOCAL  every parser function that appends a record to a per-board / per-train / per-accessory list compares, for every key the
         statement names for that record type, the key of the new record with the key of the existing entries, and a match raises
         the function's error result;
  RANGE  the value rules 'function bit <= 31' and 'speed steps in {14, 28, 126}' : the set of values for which no error-raising
         comparison fires equals the documented set (all 256 byte values enumerated).
Not decided: acceptance of every well-formed configuration, and that the getters afterwards report exactly the declared entities.
"""
from .. import flow, inline, rules
from ..build import AnalysisBroken

LEVEL = "other"

# oracle: the statement of C14, transcribed once (record type -> keys that must be unique among the entries of one list)
LOCAL_KEYS = {
    "t_bidib_board_accessory_mapping": ["number"],
    "t_bidib_peripheral_mapping": ["number", "port"],
    "t_bidib_segment_mapping": ["addr"],
    "t_bidib_reverser_mapping": ["cv"],
    "t_bidib_aspect": ["id", "value"],
    "t_bidib_dcc_aspect": ["id"],
    "t_bidib_train_peripheral_mapping": ["id", "bit"],
}
# registry (global object, field offset name) -> keys
REG_KEYS = {
    "bidib_boards": ["id", "unique_id"],
    "bidib_trains": ["id", "dcc_addr"],
    "points_dcc": ["id", "dcc_addr"],
    "signals_dcc": ["id", "dcc_addr"],
    "points_board": ["id"],
    "signals_board": ["id"],
    "peripherals": ["id"],
    "segments": ["id"],
    "reversers": ["id"],
}
# which containers the membership test on a key has to look through (the statement: a DCC address shared between trains and accessories; point /
# signal ids unique over both kinds of points / signals)
def _scope(regname, key):
    if key == "dcc_addr":
        return {"bidib_trains", "points_dcc", "signals_dcc"}
    if key == "id" and regname.startswith("points_"):
        return {"points_board", "points_dcc"}
    if key == "id" and regname.startswith("signals_"):
        return {"signals_board", "signals_dcc"}
    if key in ("id", "unique_id"):
        return {regname}
    return set()


def _scanned(P, g, depth=0, seen=None):
    """names of the containers a lookup / membership function reads: globals it loads, members of the track-state object, GArray members of records"""
    seen = set() if seen is None else seen
    if g.name in seen or depth > 2:
        return set()
    seen.add(g.name)
    out = set()
    for i in g.all_insts():
        if i.op == "load":
            p_ = i["ptr"]
            if p_.get("k") == "global":
                gd = P.globals.get(p_["name"]) or {}
                mem = None
                for (n, off, size, mt) in (P.di_members(gd.get("ditype", -1)) or []):
                    if off == (p_.get("off") or 0):
                        mem = n
                out.add(mem or p_["name"])
                if not p_.get("off"):
                    out.add(p_["name"])
            elif p_.get("k") == "inst":
                fp = rules.field_path_of_ptr(P, g, p_)
                if fp and "." in fp:
                    out.add(fp.split(".", 1)[1])
        elif i.op == "call":
            h = P.functions.get(i.callee or "")
            if h is not None and h.blocks:
                out |= _scanned(P, h, depth + 1, seen)
            out |= _scanned_fn_args(P, i, depth, seen)
    return out


def _scanned_fn_args(P, call, depth=0, seen=None):
    """a lookup handed over as a function pointer argument (`is_taken(id, point_exists)`) is part of the test"""
    out = set()
    for a in call.args:
        if a.get("k") == "func":
            h = P.functions.get(a.get("name") or "")
            if h is not None and h.blocks:
                out |= _scanned(P, h, depth + 1, set() if seen is None else seen)
    return out


RANGES = {
    "t_bidib_train_peripheral_mapping.bit": set(range(0, 32)),
    "t_bidib_train.dcc_speed_steps": {14, 28, 126},
}


def _error_cell(f):
    """the local whose value the function returns (bool error), or None"""
    for r in f.all_insts():
        if r.op == "ret" and "val" in r.d:
            src = rules.load_source(f, r["val"])
            if src and src[0] == "alloca":
                return src[1]
    return None


def _is_raise(f, x, errcell, ptr=False):
    if x.op == "store" and errcell is not None and x["ptr"].get("k") == "inst" and x["ptr"]["id"] == errcell:
        v = rules.const_of(f, x["val"])
        if ptr:
            # pointer result: anything but the literal NULL
            return x["val"].get("k") != "null" and v != 0
        return v is not None and bool(v & 1)
    if x.op == "ret" and "val" in x.d:
        return bool((rules.const_of(f, x["val"]) or 0) & 1)
    return False


def _raises_direct(f, cmp_inst, match_truth, errcell, ptr=False):
    """every path from the match edge of a branch on the comparison passes 'error = true' / `return true`
    (covers `if (a == b || !strcmp(..)) { error = true; }`, where the raising block has two predecessors)"""
    for b in f.blocks:
        t = b.term
        if t.op != "br" or "cond" not in t.d or t["t"] == t.get("f"):
            continue
        for truth in (True, False):
            if _same_test(f, t["cond"], cmp_inst, truth, match_truth):
                succ = t["t"] if truth else t["f"]
                start = f.bmap[succ].insts[0]
                if rules.exists_path(f, start, "exit", lambda x: _is_raise(f, x, errcell, ptr), include_start=True) is None:
                    return True
    return False


def _raises(f, cmp_inst, match_truth, errcell):
    """the match outcome raises the error directly, or some raising statement is control dependent on it"""
    if _raises_direct(f, cmp_inst, match_truth, errcell):
        return True
    for s in f.all_insts():
        hit = False
        if s.op == "store" and errcell is not None and s["ptr"].get("k") == "inst" and s["ptr"]["id"] == errcell:
            v = rules.const_of(f, s["val"])
            if v is not None and (v & 1):
                hit = True
            elif v is None:
                # error = <call result / comparison>: raised when that value is true; accept if it IS the comparison
                vi = f.resolve(rules.resolve_local(f, rules.strip_casts(f, s["val"])))
                if vi is not None and vi.id == cmp_inst.id:
                    return True
        elif s.op == "ret" and "val" in s.d and (rules.const_of(f, s["val"]) or 0) & 1:
            hit = True
        if not hit:
            continue
        for (gd, truth) in rules.conditions_at(f, s):
            if _same_test(f, gd["cond"], cmp_inst, truth, match_truth):
                return True
        # through a verdict variable: `if (a == b || c == d) clash = other;  ...  if (clash != NULL) error = true;`
        for (gd, truth) in rules.conditions_at(f, s) + rules.control_conditions(f, s):
            fs = rules.flag_assignment(f, gd["cond"], truth)
            if fs is not None:
                for (g2, t2) in rules.conditions_at(f, fs) + rules.control_conditions(f, fs):
                    if _same_test(f, g2["cond"], cmp_inst, t2, match_truth):
                        return True
    return False


def _same_test(f, cond, cmp_inst, truth, match_truth, depth=0):
    """cond (holding with `truth`) is the comparison cmp_inst holding with match_truth, through == 0 / != 0 / xor / casts"""
    o = cond
    pol = truth
    for _ in range(10):
        i = f.resolve(rules.resolve_local(f, rules.strip_casts(f, o)))
        if i is None:
            return False
        if i.id == cmp_inst.id:
            return pol == match_truth
        if i.op == "icmp" and i["pred"] in ("eq", "ne") and (rules.const_of(f, i["b"]) == 0 or i["b"].get("k") == "null"):
            if i["pred"] == "eq":
                pol = not pol
            o = i["a"]
        elif i.op == "xor" and rules.const_of(f, i["b"]) in (1, -1):
            pol = not pol
            o = i["a"]
        else:
            return False
    return False


def _field_of_value(P, f, o):
    """operand that is (through casts / single-assignment locals / ->str) a load of a struct field: (object key, tuple of field names)"""
    o = rules.resolve_local(f, rules.strip_casts(f, o))
    i = f.resolve(o) if o.get("k") == "inst" else None
    if i is None or i.op != "load":
        return None
    ch = rules.field_chain(P, f, i["ptr"])
    g = f.resolve(i["ptr"])
    last = i["ptr"]
    while g is not None and g.op in ("getelementptr", "bitcast"):
        last = g["base"] if g.op == "getelementptr" else g["a"]
        g = f.resolve(last)
    if g is None:
        if last.get("k") == "arg":
            return ("arg", last["i"]), tuple(ch)       # a record passed by value
        return None
    if g.op == "alloca":
        return ("a", g.id), tuple(ch)
    if g.op == "load":
        # through a pointer: either a pointer local (element pointer) or a further field (id->str)
        inner = _field_of_value(P, f, {"k": "inst", "id": g.id})
        if inner is not None:
            return inner[0], inner[1] + tuple(ch)
        src = rules.load_source(f, {"k": "inst", "id": g.id})
        return ("p", src), tuple(ch)
    return None


def _key_name(chain):
    """('t_bidib_reverser_mapping.cv', '_GString.str') -> 'cv';  ('t_bidib_peripheral_mapping.port', 't_bidib_peripheral_port.port0') -> 'port'"""
    names = [c.split(".", 1)[1] if "." in c else c for c in chain]
    structs = [c.split(".", 1)[0] for c in chain]
    for n, s in zip(names, structs):
        if not s.startswith("_G"):
            return n
    return names[0] if names else None


def _elem_type(P, f, call):
    """DI struct name of the record handed to g_array_append_vals (args[1] points to a local record)"""
    a = f.resolve(rules.strip_casts(f, call.args[1])) if len(call.args) > 1 and call.args[1].get("k") == "inst" else None
    while a is not None and a.op in ("bitcast", "getelementptr"):
        a = f.resolve(a["a"] if a.op == "bitcast" else a["base"])
    if a is None or a.op != "alloca":
        return None, None
    return P.di_name(a.get("ditype", -1)).replace("const ", ""), a


def _list_of(P, f, call):
    """('global', name, field or None) / ('field', 'Struct.field') of the GArray an append goes to"""
    o = call.args[0]
    i = f.resolve(rules.resolve_local(f, rules.strip_casts(f, o))) if o.get("k") == "inst" else None
    if i is None or i.op != "load":
        return None
    p = i["ptr"]
    if p.get("k") == "global":
        g = P.globals.get(p["name"], {})
        fld = None
        if g.get("type", "").startswith("%struct"):
            t = P.field_at(g["type"].lstrip("%").replace("struct.", ""), p.get("off", 0)) if hasattr(P, "field_at") else None
            fld = t
        return ("global", p["name"], p.get("off", 0))
    ch = rules.field_chain(P, f, p)
    if ch:
        return ("field", ch[-1])
    return None


def run(chk, w):
    P = w.P
    chk.explanation = ("Structural necessary conditions of 'a configuration is rejected when an identifier or address is ambiguous or a value malformed': the "
                       "duplicate and range tests the statement names exist, compare the right key of the new record with the existing entries, and raise "
                       "the function's error result (REG for the global registries, LOCAL for the per-board / per-train lists, RANGE for function bits and "
                       "speed steps with all 256 byte values enumerated). Acceptance of every well-formed configuration and the equality of the "
                       "enumeration getters' output with the declared entities are not decided.")
    appenders = []
    for f in P.repo_functions():
        if not (f.relfile.startswith("src/parser/") or f.relfile.startswith("src/state/")):
            continue
        if any(c.callee == "g_array_append_vals" for c in f.calls()):
            appenders.append(f)
    chk.floor("appending_functions", len(appenders), 20)

    # ------------------------------------------------------------------ REG
    chk.rule("C14-REG", "an entity is appended to a global registry only after negative membership tests on the keys the statement names, and a positive test returns 'error'")
    nreg = 0
    for f in appenders:
        for c in f.calls("g_array_append_vals"):
            L = _list_of(P, f, c)
            if L is None or L[0] != "global":
                continue
            gname = L[1]
            regname = gname
            if gname.split(".")[0] == "bidib_track_state":
                # field of the track-state object: name it by the member
                gd = P.globals.get(gname)
                mem = None
                for (n, off, size, mt) in (P.di_members(gd.get("ditype", -1)) or []):
                    if off == L[2]:
                        mem = n
                regname = mem or gname
            want = REG_KEYS.get(regname)
            if want is None:
                continue            # registries the statement does not require to be duplicate-free (boosters, track outputs, initial values ...)
            nreg += 1
            errcell = _error_cell(f)
            tests = []          # (call inst, key names tested)
            for t in f.calls():
                g = P.functions.get(t.callee or "")
                if g is None or not g.blocks or t.id == c.id or g.ret == "void":
                    continue
                if not (g.ret == "i1" or g.ret.endswith("*")):
                    continue
                keys = set()
                for a in t.args:
                    if a.get("k") not in ("inst", "arg"):
                        continue
                    fv = _field_of_value(P, f, a) if a.get("k") == "inst" else None
                    if fv is not None and fv[1]:
                        keys.add(_key_name(fv[1]))
                    else:
                        # a by-value key parameter handed on (temp copy of a parameter): name it by the parameter's DI name
                        for tg in flow.origins(f, a):
                            x = tg
                            while x[0] in ("elem", "field") and isinstance(x[1], tuple):
                                x = x[1]
                            if x[0] == "alloca":
                                al = f.insts.get(x[1])
                                if al is not None and al.get("param") and al.get("var"):
                                    keys.add({"dcc_address": "dcc_addr"}.get(al["var"], al["var"]))
                            elif x[0] == "param" and x[1] < len(f.params):
                                pass
                if keys:
                    tests.append((t, keys))
            # by-value struct arguments (dcc address, unique id) are copied into a temp: look at memcpy sources
            for t, keys in tests:
                pass
            tested = set()
            scanned = {}
            for t, keys in tests:
                tested |= keys
                for k_ in keys:
                    scanned.setdefault(k_, set()).update(_scanned(P, P.functions[t.callee]) | _scanned_fn_args(P, t))
            # by-value arguments: a temp filled by memcpy from record.field
            for t in f.calls():
                g = P.functions.get(t.callee or "")
                if g is None or not g.blocks or not (g.ret == "i1" or g.ret.endswith("*")):
                    continue
                for a in t.args:
                    if a.get("k") != "inst":
                        continue
                    ai = f.resolve(rules.strip_casts(f, a))
                    base = ai
                    if ai is not None and ai.op == "load":
                        base = f.resolve(rules.strip_casts(f, ai["ptr"]))
                    while base is not None and base.op in ("bitcast", "getelementptr"):
                        base = f.resolve(base["a"] if base.op == "bitcast" else base["base"])
                    if base is None or base.op != "alloca":
                        continue
                    for mc in f.calls():
                        if mc.callee and mc.callee.startswith("llvm.memcpy"):
                            d = f.resolve(rules.strip_casts(f, mc.args[0]))
                            while d is not None and d.op in ("bitcast", "getelementptr"):
                                d = f.resolve(d["a"] if d.op == "bitcast" else d["base"])
                            if d is not None and d.id == base.id:
                                ch = rules.field_chain(P, f, rules.strip_casts(f, mc.args[1]))
                                if ch:
                                    tested.add(_key_name(tuple(ch)))
                                    scanned.setdefault(_key_name(tuple(ch)), set()).update(_scanned(P, g))
                                else:
                                    s_ = f.resolve(rules.strip_casts(f, mc.args[1]))
                                    while s_ is not None and s_.op in ("bitcast", "getelementptr"):
                                        s_ = f.resolve(s_["a"] if s_.op == "bitcast" else s_["base"])
                                    if s_ is not None and s_.op == "alloca" and s_.get("param") and s_.get("var"):
                                        tested.add({"dcc_address": "dcc_addr"}.get(s_["var"], s_["var"]))
                                        scanned.setdefault({"dcc_address": "dcc_addr"}.get(s_["var"], s_["var"]), set()).update(_scanned(P, g))
            # the membership scan written out in the appending function itself (the `exists` helper inlined): a comparison of a key of the new record
            # with the same key of another record whose match raises the error result
            inline_guard = False
            rec_roots = set()
            ra = f.resolve(rules.strip_casts(f, c.args[1])) if len(c.args) > 1 and c.args[1].get("k") == "inst" else None
            o_ = c.args[1] if len(c.args) > 1 else {}
            for _ in range(6):
                o_ = rules.strip_casts(f, o_)
                if o_.get("k") == "arg":
                    rec_roots.add(("arg", o_["i"]))
                    break
                x_ = f.resolve(o_) if o_.get("k") == "inst" else None
                if x_ is None:
                    break
                if x_.op == "alloca":
                    rec_roots.add(("a", x_.id))
                    break
                if x_.op in ("getelementptr", "bitcast"):
                    o_ = x_["base"] if x_.op == "getelementptr" else x_["a"]
                else:
                    break
            if rec_roots:
                for i_ in f.all_insts():
                    ops_ = None
                    if i_.op == "icmp" and i_["pred"] in ("eq", "ne"):
                        ops_ = (i_["a"], i_["b"], i_["pred"] == "eq")
                    elif i_.op == "call" and i_.callee in ("strcmp", "g_strcmp0") and len(i_.args) == 2:
                        ops_ = (i_.args[0], i_.args[1], None)
                    if ops_ is None:
                        continue
                    fa_ = _field_of_value(P, f, ops_[0]) if ops_[0].get("k") == "inst" else None
                    fb_ = _field_of_value(P, f, ops_[1]) if ops_[1].get("k") == "inst" else None
                    if not fa_ or not fb_ or not fa_[1] or not fb_[1] or fa_[0] == fb_[0]:
                        continue
                    if not (fa_[0] in rec_roots or fb_[0] in rec_roots) or _key_name(fa_[1]) != _key_name(fb_[1]):
                        continue
                    k_ = _key_name(fa_[1])
                    raised = (_raises(f, i_, False, errcell) or _raises_strcmp(f, i_, errcell)) if ops_[2] is None else _raises(f, i_, ops_[2], errcell)
                    if raised:
                        tested.add(k_)
                        scanned.setdefault(k_, set()).update(_scanned(P, f))
                        inline_guard = True
            missing = [k for k in want if k not in tested]
            # guard: the append lies behind a negative membership test
            def neg_test(fn_, gd_, tr_):
                call, pol = rules.cond_call(fn_, gd_["cond"], tr_)
                if call is None or call.callee not in P.functions:
                    # pointer result compared with NULL
                    cnd = fn_.resolve(gd_["cond"])
                    if cnd is not None and cnd.op == "icmp" and cnd["b"].get("k") == "null":
                        ci = fn_.resolve(rules.resolve_local(fn_, rules.strip_casts(fn_, cnd["a"])))
                        if ci is not None and ci.op == "call" and ci.callee in P.functions:
                            return (cnd["pred"] == "eq") == tr_
                    return False
                return not pol
            guarded = rules.guarded_here_or_at_callers(P, f, c, neg_test) or inline_guard
            if missing:
                chk.violation("C14-REG", f.name, "%s:%s" % (regname, ",".join(missing)), c.loc(),
                              "%s appends to %s without a membership test on %s (tested: %s): two configured entities can share that key and the configuration is accepted" % (
                                  f.name, regname, ", ".join(missing), ", ".join(sorted(tested)) or "nothing"))
            elif any(_scope(regname, k_) - scanned.get(k_, set()) for k_ in want):
                k_ = [k_ for k_ in want if _scope(regname, k_) - scanned.get(k_, set())][0]
                chk.violation("C14-REG", f.name, "%s:%s:scope" % (regname, k_), c.loc(),
                              "%s appends to %s after a membership test on %s that does not look through %s: an entity of that kind with the same %s is not found and the configuration is accepted" % (
                                  f.name, regname, k_, ", ".join(sorted(_scope(regname, k_) - scanned.get(k_, set()))), k_))
            elif not guarded:
                chk.violation("C14-REG", f.name, "%s:unguarded" % regname, c.loc(), "%s appends to %s on a path that has not passed a negative membership test" % (f.name, regname))
            else:
                chk.ok("C14-REG", 1, {"function": f.name, "registry": regname, "keys": sorted(tested)})
    chk.floor("registry_appends", nreg, 8)

    # ------------------------------------------------------------------ LOCAL
    chk.rule("C14-LOCAL", "a record is appended to a per-board / per-train list only together with a comparison of each key the statement names against the existing entries, and a match raises the error")
    nloc = 0
    for f0 in appenders:
        if not f0.relfile.startswith("src/parser/"):
            continue
        f = f0
        errcell = _error_cell(f)
        done_types = set()
        for c in f.calls("g_array_append_vals"):
            tname, rec = _elem_type(P, f, c)
            if tname not in LOCAL_KEYS or tname in done_types:
                continue
            done_types.add(tname)
            nloc += 1
            found = {}
            for i in f.all_insts():
                ops = None
                if i.op == "icmp" and i["pred"] in ("eq", "ne"):
                    ops = (i["a"], i["b"], i["pred"] == "eq")
                elif i.op == "call" and i.callee in ("strcmp", "g_strcmp0") and len(i.args) == 2:
                    ops = (i.args[0], i.args[1], None)
                if ops is None:
                    continue
                a = _field_of_value(P, f, ops[0]) if ops[0].get("k") == "inst" else None
                b = _field_of_value(P, f, ops[1]) if ops[1].get("k") == "inst" else None
                if not a or not b or not a[1] or not b[1] or a[0] == b[0]:
                    continue
                if not (a[0] == ("a", rec.id) or b[0] == ("a", rec.id)):
                    continue
                if a[1][0].split(".")[0] != tname and b[1][0].split(".")[0] != tname:
                    continue
                if _key_name(a[1]) != _key_name(b[1]):
                    continue
                key = _key_name(a[1])
                # match outcome: icmp eq true / strcmp == 0
                if ops[2] is None:
                    ok = _raises(f, i, False, errcell) or _raises_strcmp(f, i, errcell)
                else:
                    ok = _raises(f, i, ops[2], errcell)
                found.setdefault(key, []).append((i, ok))
            # a comparison helper: `equal(&new, &existing)` or `find_by_key(list, new.key)` / `find_conflict(list, &new)`.  Its comparisons of
            # the new record's key (reached through the parameter) with the same key of another record count when a match makes the helper
            # return true / a non-null pointer and such a result raises the error in the caller
            for t in f.calls():
                g = P.functions.get(t.callee or "")
                if g is None or not g.blocks or not (g.ret == "i1" or g.ret.endswith("*")):
                    continue
                kinds = {}
                for j, a in enumerate(t.args):
                    if a.get("k") != "inst":
                        continue
                    x = f.resolve(rules.strip_casts(f, a))
                    while x is not None and x.op in ("bitcast", "getelementptr"):
                        x = f.resolve(x["a"] if x.op == "bitcast" else x["base"])
                    if x is not None and x.op == "alloca" and x.id == rec.id:
                        kinds[j] = "rec"
                        continue
                    fv = _field_of_value(P, f, a)
                    if fv and fv[0] == ("a", rec.id) and fv[1] and fv[1][0].split(".")[0] == tname:
                        kinds[j] = _key_name(fv[1])
                if not kinds:
                    continue
                caller_ok = _raises(f, t, True, errcell)
                gcell = _error_cell(g)

                def side(o):
                    """(param index or None, key name or None, record struct or None)"""
                    o = rules.strip_casts(g, o)
                    r_ = rules.resolve_local(g, o)
                    if r_.get("k") == "arg":
                        return r_["i"], None, None          # the scalar parameter itself
                    if o.get("k") != "inst":
                        return None
                    fv = _field_of_value(P, g, o)
                    if not fv:
                        return None
                    if fv[0][0] == "a":
                        slot = fv[0][1]
                    elif fv[0][0] == "p" and fv[0][1] and fv[0][1][0] == "alloca":
                        slot = fv[0][1][1]
                    else:
                        return None
                    pj = g.param_index_of_alloca(g.insts[slot])
                    return pj, (_key_name(fv[1]) if fv[1] else None), (fv[1][0].split(".")[0] if fv[1] else None)
                for i in g.all_insts():
                    ops = None
                    if i.op == "icmp" and i["pred"] in ("eq", "ne"):
                        ops = (i["a"], i["b"], i["pred"] == "eq")
                    elif i.op == "call" and i.callee in ("strcmp", "g_strcmp0") and len(i.args) == 2:
                        ops = (i.args[0], i.args[1], False)
                    if ops is None:
                        continue
                    sa, sb = side(ops[0]), side(ops[1])
                    if sa is None or sb is None:
                        continue
                    for new_, old_ in ((sa, sb), (sb, sa)):
                        if new_[0] not in kinds or old_[1] is None or old_[2] != tname:
                            continue
                        if old_[0] is not None and kinds.get(old_[0]) is not None:
                            continue        # both sides are the new record
                        key = new_[1] if kinds[new_[0]] == "rec" else (kinds[new_[0]] if new_[1] is None else None)
                        if key is None or key != old_[1]:
                            continue
                        found.setdefault(key, []).append((i, caller_ok and _raises_direct(g, i, ops[2], gcell, ptr=g.ret.endswith("*"))))
                        break
            for key in LOCAL_KEYS[tname]:
                cmps = found.get(key, [])
                if not cmps:
                    chk.violation("C14-LOCAL", f0.name, "%s.%s" % (tname, key), c.loc(),
                                  "%s appends a %s without comparing its %s with the entries that are already in the list: duplicates of %s are accepted" % (f0.name, tname, key, key))
                elif not any(ok for (i, ok) in cmps):
                    chk.violation("C14-LOCAL", f0.name, "%s.%s:no-error" % (tname, key), cmps[0][0].loc(),
                                  "%s compares the %s of a new %s with the existing entries (line %d) but a match does not raise the error result: the duplicate is accepted" % (f0.name, key, tname, cmps[0][0].line))
                else:
                    chk.ok("C14-LOCAL", 1, {"function": f0.name, "record": tname, "key": key, "comparison": cmps[0][0].loc()})
    chk.floor("local_list_appends", nloc, 5)

    # ------------------------------------------------------------------ IDEQ (shared with C09)
    from . import c09 as _c09
    _c09.ideq_rule(chk, P, "C14-IDEQ", 60, only=lambda f_: f_.relfile.startswith(("src/parser/", "src/state/")))

    # ------------------------------------------------------------------ GET
    from .. import enumrule
    enumrule.run(chk, P, "C14-GET", lambda f_: f_.relfile == "src/highlevel/bidib_highlevel_getter.c", 20)

    # ------------------------------------------------------------------ BASE
    # 'getters reflect the declared values exactly' / 'a value malformed is rejected': the documented layout writes numbers in decimal or with a 0x
    # prefix in hexadecimal. A conversion with base 0 (or 8) reads '016' as 14: the range rules then run on a different number than the one declared.
    chk.rule("C14-BASE", "every text-to-number conversion of the configuration parsers names its base, 10 or 16 (base 0 would read a leading zero as octal)")
    nconv = 0
    for f in P.repo_functions():
        if not f.relfile.startswith("src/parser/"):
            continue
        for c in f.calls():
            if c.callee not in ("strtol", "strtoul", "strtoll", "strtoull", "strtoimax", "strtoumax", "__isoc23_strtol", "__isoc23_strtoul",
                                "__isoc23_strtoll", "__isoc23_strtoull"):
                continue
            if len(c.args) < 3:
                continue
            nconv += 1
            base = rules.const_of(f, c.args[2])
            if base is None:
                chk.ok("C14-BASE", 1, {"function": f.name, "site": c.loc(), "base": "computed (not decided)"})
            elif base in (10, 16):
                chk.ok("C14-BASE", 1, {"function": f.name, "site": c.loc(), "base": base})
            else:
                chk.violation("C14-BASE", f.name, c.callee, c.loc(),
                              "%s converts configuration text with base %d: a value written with a leading zero is read as a different number than declared "
                              "(documented forms are decimal and 0x hexadecimal)" % (f.name, base))
    chk.floor("numeric_conversions", nconv, 2)

    # ------------------------------------------------------------------ RANGE
    chk.rule("C14-RANGE", "the set of byte values of a range-restricted configuration field for which no error-raising comparison fires equals the documented set")
    for field, allowed in sorted(RANGES.items()):
        sites = 0
        for f0 in P.repo_functions():
            if not f0.relfile.startswith("src/parser/"):
                continue
            f = f0
            errcell = _error_cell(f)
            cmps = []
            for i in f.all_insts():
                if i.op == "icmp":
                    fv = _field_of_value(P, f, i["a"]) if i["a"].get("k") == "inst" else None
                    cv = rules.const_of(f, i["b"])
                    if fv and fv[1] and fv[1][-1] == field and cv is not None:
                        cmps.append((i, cv))
            if not cmps:
                continue
            sites += 1
            rejected = set()
            for v in range(256):
                for (i, cv) in cmps:
                    holds = pathwalk_cmp(i["pred"], v, cv)
                    if holds is None:
                        continue
                    if (_raises_direct(f, i, holds, errcell) and _reached_with(f, i, cmps, v)) or (_raises(f, i, holds, errcell) and _conj_ok(f, i, holds, errcell, cmps, v)):
                        rejected.add(v)
            accepted = set(range(256)) - rejected
            if accepted == allowed:
                chk.ok("C14-RANGE", 1, {"field": field, "function": f0.name, "accepted": _fmt(accepted)})
            else:
                chk.violation("C14-RANGE", f0.name, field, cmps[0][0].loc(),
                              "%s: values accepted for %s are %s, the statement allows %s" % (f0.name, field, _fmt(accepted), _fmt(allowed)))
        if sites == 0:
            chk.violation("C14-RANGE", "-", field, "-", "no range test on %s found in the parsers: out-of-range values are accepted" % field)


def pathwalk_cmp(pred, a, b):
    from ..pathwalk import _cmp
    return _cmp(pred, a, b, 32)


def _reached_with(f, cmp_inst, cmps, v):
    """the comparison is evaluated for value v: every earlier comparison of the same field on whose outcome it depends holds for v"""
    for b in f.blocks:
        t = b.term
        if t.op == "br" and "cond" in t.d and t["t"] != t.get("f"):
            for succ in (t["t"], t["f"]):
                if rules.edge_dominates(f, b.id, succ, cmp_inst):
                    tr = succ == t["t"]
                    for (j, cv) in cmps:
                        if j.id == cmp_inst.id:
                            continue
                        for want in (True, False):
                            if _same_test(f, t["cond"], j, tr, want) and pathwalk_cmp(j["pred"], v, cv) != want:
                                return False
    return True


def _conj_ok(f, cmp_inst, holds, errcell, cmps, v):
    """value v is rejected through a raising statement that is control dependent on this comparison: every condition nested between the
    comparison and the raising statement must itself be a comparison of the same field with a constant that holds for v
    (`x != 14 && x != 28 && x != 126`); a raising statement that also depends on anything else (a duplicate scan in the else branch)
    does not count"""
    for s in f.all_insts():
        if not _is_raise(f, s, errcell):
            continue
        edges = []
        for b in f.blocks:
            t = b.term
            if t.op == "br" and "cond" in t.d and t["t"] != t.get("f"):
                for succ in (t["t"], t["f"]):
                    if rules.edge_dominates(f, b.id, succ, s):
                        edges.append((b, t, succ == t["t"]))
        mine = [(b, t, tr) for (b, t, tr) in edges if _same_test(f, t["cond"], cmp_inst, tr, holds)]
        if not mine:
            continue
        ok = True
        field_blocks = []
        others = []
        for (b, t, tr) in edges:
            matched = False
            for (j, cv) in cmps:
                for want in (True, False):
                    if _same_test(f, t["cond"], j, tr, want):
                        matched = True
                        if pathwalk_cmp(j["pred"], v, cv) != want:
                            ok = False
            if matched:
                field_blocks.append(b.id)
            else:
                others.append(b.id)
        # a condition that is not a test of this field but sits inside the test (below its first comparison) makes the raise conditional
        for ob in others:
            if any(fb == ob or fb in f.dom().get(ob, ()) for fb in field_blocks):
                ok = False
        if ok:
            return True
    return False


def _raises_strcmp(f, call, errcell):
    """strcmp(...) == 0 (or !strcmp) raises the error"""
    for s in f.all_insts():
        if s.op == "store" and errcell is not None and s["ptr"].get("k") == "inst" and s["ptr"]["id"] == errcell and (rules.const_of(f, s["val"]) or 0) & 1:
            for (gd, truth) in rules.conditions_at(f, s):
                cc, pol = rules.cond_call(f, gd["cond"], truth)
                if cc is not None and cc.id == call.id and not pol:
                    return True
        elif s.op == "ret" and "val" in s.d and (rules.const_of(f, s["val"]) or 0) & 1:
            for (gd, truth) in rules.conditions_at(f, s):
                cc, pol = rules.cond_call(f, gd["cond"], truth)
                if cc is not None and cc.id == call.id and not pol:
                    return True
    return False


def _fmt(vals):
    vals = sorted(vals)
    if not vals:
        return "{}"
    out = []
    s = p = vals[0]
    for v in vals[1:]:
        if v != p + 1:
            out.append((s, p))
            s = v
        p = v
    out.append((s, p))
    return "{" + ",".join("%d" % a if a == b else "%d..%d" % (a, b) for a, b in out[:8]) + ("..." if len(out) > 8 else "") + "}"
