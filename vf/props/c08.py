"""C08: train presence/position/orientation agree with segment address lists (DERIVE, WMW, FOL, FREE)."""
from .. import flow, locks, pathwalk, rules
from ..build import AnalysisBroken

LEVEL = "other"
SEG = "t_bidib_segment_state_intern"
ADDRS = SEG + ".dcc_addresses"
OCC = SEG + ".occupied"
TRAIN = "t_bidib_train_state_intern"
DERIVED = (TRAIN + ".on_track", TRAIN + ".orientation")
MUTATORS = {"g_array_append_vals", "g_array_remove_range", "g_array_remove_index", "g_array_set_size", "g_array_remove_index_fast", "g_array_insert_vals"}
CLEARERS = {"g_array_remove_range", "g_array_set_size"}
NOTHING = ("nothing",)


def addr_array_of(P, f, call):
    if not call.args or call.args[0].get("k") != "inst":
        return False
    a = f.resolve(rules.resolve_local(f, rules.strip_casts(f, call.args[0])))       # also `GArray *addrs = seg->dcc_addresses; g_array_...(addrs, ...)`
    return a is not None and a.op == "load" and rules.field_path_of_ptr(P, f, a["ptr"]) == ADDRS


def run(chk, w):
    P = w.P
    chk.explanation = ("Structural necessary conditions for the derived train data: on_track/orientation are written only by the derivation routine, the reset routine and the "
                       "configuration code (WMW); the derivation assigns on_track on every path of every iteration and never makes an assignment depend on the old derived value "
                       "(DERIVE); every mutation of a segment's address list that can run concurrently is followed, before the segment/train mutexes are released, by the "
                       "derivation (FOL); whenever a report marks a segment free, its address list is emptied on that path (or known empty) - also through helpers (FREE). "
                       "Equality of the reported position set with the address lists is value-level and not decided.")
    stores = {fld: rules.stores_to_field(P, fld) for fld in DERIVED}
    if not all(stores.values()):
        raise AnalysisBroken("derived train fields not found")
    both = {f.name for f, s in stores[DERIVED[0]]} & {f.name for f, s in stores[DERIVED[1]]}
    # derivation routine by role: a parameterless routine outside parser/reset/creation code that writes both derived fields of
    # entries of the shared train list inside a loop
    derive = []
    for n in sorted(both):
        f = P.functions[n]
        if "parser" in f.relfile or _is_reset(P, f) or f.params:
            continue
        sts = [s for g, s in stores[DERIVED[0]] if g is f and not _is_creation(P, f, s)]
        if sts and any(s.bb.id in body for s in sts for body in f.loops().values()):
            derive.append(n)
    if len(derive) != 1:
        raise AnalysisBroken("derivation routine not identified uniquely: %s" % derive)
    dfn = P.functions[derive[0]]
    chk.extra["derivation"] = dfn.name

    # ---- WMW
    chk.rule("C08-WMW", "on_track and orientation are written only by the derivation, the state reset and the configuration/creation code")
    for fld in DERIVED:
        for (f, s) in stores[fld]:
            if f is dfn or "parser" in f.relfile or _is_reset(P, f) or _is_creation(P, f, s):
                chk.ok("C08-WMW", 1, {"writer": f.name, "field": fld})
            else:
                chk.violation("C08-WMW", f.name, fld, s.loc(), "%s is written outside the derivation routine: it can disagree with the segments' address lists" % fld)

    # ---- DERIVE
    chk.rule("C08-DERIVE", "the derivation assigns on_track on every path of an iteration, orientation whenever it sets on_track, and no assignment depends on the old derived values")
    loops = dfn.loops()
    on_st = [s for f, s in stores[DERIVED[0]] if f is dfn]
    or_st = [s for f, s in stores[DERIVED[1]] if f is dfn]
    head = None
    for h, body in loops.items():
        if all(s.bb.id in body for s in on_st):
            head = h if head is None or len(body) < len(loops[head]) else head
    if head is None:
        chk.abstain("C08-DERIVE", "on_track is not assigned inside one loop over the trains (different algorithm): per-iteration rule not applicable", "%s:%d" % (dfn.relfile, dfn.line))
    else:
        first = dfn.bmap[head].insts[0]
        body = loops[head]
        # must-assign per iteration
        ids = {s.id for s in on_st}
        starts = [dfn.bmap[s].insts[0] for s in dfn.bmap[head].succ if s in body]
        p = None
        for st in starts:
            p = p or rules.exists_path(dfn, st, lambda x: x.id == first.id or x.op == "ret", lambda x: x.id in ids, include_start=True)
        if p:
            chk.violation("C08-DERIVE", dfn.name, "on_track:skipped", first.loc(), "an iteration of the derivation can finish without assigning on_track (%s)" % rules.path_text(p))
        else:
            chk.ok("C08-DERIVE", 1, {"on_track": "assigned on every path of every iteration"})
        # orientation dominates / accompanies every 'true' assignment
        or_in_loop = bool(or_st) and all(o.bb.id in body for o in or_st)
        if not or_in_loop:
            chk.abstain("C08-DERIVE", "orientation is not assigned in the loop that assigns on_track (different algorithm): pairing rule not applicable", first.loc())
        for s in (on_st if or_in_loop else []):
            if (rules.const_of(dfn, s["val"]) or 0) & 1:
                if any(dfn.dominates(o, s) or dfn.dominates(s, o) and dfn.postdominates(o, s) for o in or_st):
                    chk.ok("C08-DERIVE", 1, {"orientation": "assigned together with on_track = true"})
                else:
                    chk.violation("C08-DERIVE", dfn.name, "orientation:conditional", s.loc(), "on_track is set without (re)assigning the orientation on the same path: the orientation lags behind the reported one")
        # no dependence on old derived values
        for s in on_st + or_st:
            dep = None
            for (gd, truth) in rules.branch_conditions(dfn, s):
                key = rules.expr_key(dfn, gd["cond"])
                for leaf in _loads_in(dfn, gd["cond"]):
                    if rules.field_path_of_ptr(P, dfn, leaf["ptr"]) in DERIVED:
                        dep = leaf
            if dep is not None:
                chk.violation("C08-DERIVE", dfn.name, "depends-on-old-value", s.loc(),
                              "the assignment at line %d is made only under a condition on the previous on_track/orientation (line %d): a re-reported train keeps stale data" % (s.line, dep.line))
            else:
                chk.ok("C08-DERIVE", 1)

    # ---- FOL
    # ---- ENUM: the position / on-track getters count and fill the same elements
    from .. import enumrule
    def _pos_getter(f_):
        if not f_.relfile.startswith("src/highlevel/"):
            return False
        L_, D_ = enumrule.containers(P, f_)
        return any("dcc_addresses" in (k or "") or "trains" in (k or "") for k in list(L_) + list(D_))
    enumrule.run(chk, P, "C08-ENUM", _pos_getter, 2)

    rules.walkall_rule(chk, P, "C08-WALKALL", lambda f_: f_.relfile in ("src/state/bidib_state.c", "src/highlevel/bidib_highlevel_getter.c"), 40)

    chk.rule("C08-FOL", "every mutation of a segment's address list is followed by the derivation before the segment/train mutexes are released")
    nm = 0
    for f in P.repo_functions():
        if "parser" in f.relfile or "free" in f.relfile or _is_reset(P, f):
            continue
        for c in f.calls():
            if c.callee in MUTATORS and addr_array_of(P, f, c):
                nm += 1
                def leaves(x):
                    return x.op == "ret" or (x.op == "call" and x.callee in locks.REL and x.args[0].get("name") in ("trackstate_segments_mutex", "trackstate_trains_mutex"))
                p = rules.exists_path(f, c, leaves, lambda x: x.op == "call" and x.callee == dfn.name)
                if p and not _callers_derive_after(P, f, dfn) and _fol_sensitive(P, f, dfn) is None:
                    chk.ok("C08-FOL", 1, {"mutation": c.loc(), "by": "path-sensitive walk: the derivation is skipped only on paths without a pending mutation"})
                elif p and not _callers_derive_after(P, f, dfn):
                    chk.violation("C08-FOL", f.name, c.callee, c.loc(), "the address list is changed at line %d and the mutexes can be released without re-deriving train presence (%s)" % (c.line, rules.path_text(p)))
                else:
                    chk.ok("C08-FOL", 1, {"mutation": c.loc()})
    chk.floor("address_list_mutations", nm, 3)

    # ---- FREE
    chk.rule("C08-FREE", "when a report marks a segment free its address list is emptied (or known empty) on that path, helpers included")
    occ_stores = rules.stores_to_field(P, OCC)
    may_free = {f.name for f, s in occ_stores if rules.const_of(f, s["val"]) != 1 and rules.const_of(f, s["val"]) != -1 and "parser" not in f.relfile and not _is_reset(P, f) and not _is_creation(P, f, s)}
    chk.floor("functions_marking_segments_free", len(may_free), 1)

    def walk_fn(f, helper_mode, from_entry=False):
        """returns (violations [(inst, why)], must_clear: every path to return has cleared/known-empty after any free-marking)"""
        bad = []
        res = {"all_clear": True, "exits": 0}

        def on_inst(inst, u, facts):
            if inst.op == "store" and rules.field_path_of_ptr(P, f, inst["ptr"]) == OCC:
                v = wk.ev(inst["val"], facts)
                if v is None:
                    src = rules.load_source(f, inst["val"])
                    if src and src[0] == "alloca" and src[1] in wk.cells:
                        return [("cell", src[1], inst.id)]
                    return [("yes", inst.id)]
                if (v & 1) == 0:
                    return [("yes", inst.id)]
                return None
            if inst.op == "call" and inst.callee in CLEARERS and addr_array_of(P, f, inst):
                return [NOTHING]
            if inst.op == "call" and inst.callee in may_free and inst.callee != f.name:
                if must_clear.get(inst.callee):
                    return None
                return [("yes", inst.id)]
            return None

        def on_edge(br, succ, u, facts):
            if u == NOTHING and br.op == "br" and "cond" in br.d and br["t"] != br.get("f"):
                # a report handled on the branch where the segment is found to be free already ('nothing to do') carries the same
                # obligation as marking it free: its address list must be emptied or known empty
                pol = _occ_polarity(P, f, br["cond"])
                if pol is not None and ((succ == br["t"]) != pol):
                    return ("yes", br.id)
            if u == NOTHING:
                return u
            if u[0] == "cell" and facts.get(u[1]) is not None:
                # `seg->occupied = flag;` with the flag's value now known on this path (the walk forks where the flag is tested):
                # decide here, before a later loop iteration reassigns the flag
                if facts[u[1]] & 1:
                    return NOTHING
                u = ("yes", u[2])
            cnd = f.resolve(br["cond"]) if "cond" in br.d else None
            # 'len > 0' of the address list false  => nothing to clear
            for c2 in _icmps_in(f, br.d.get("cond")):
                a = f.resolve(rules.strip_casts(f, c2["a"]))
                if a is not None and a.op == "load" and rules.field_path_of_ptr(P, f, a["ptr"]) == "_GArray.len":
                    base = f.resolve(rules.resolve_local(f, rules.strip_casts(f, f.resolve(a["ptr"])["base"]))) if f.resolve(a["ptr"]) is not None and f.resolve(a["ptr"]).op == "getelementptr" and \
                        f.resolve(a["ptr"])["base"].get("k") == "inst" else None
                    if base is not None and base.op == "load" and rules.field_path_of_ptr(P, f, base["ptr"]) == ADDRS and rules.const_of(f, c2["b"]) == 0:
                        empty_succ = br["f"] if c2["pred"] in ("ugt", "sgt", "ne") else br["t"]
                        # only when the icmp is the branch condition itself (not one operand of && / ||)
                        if cnd is not None and cnd.id == c2.id and succ == empty_succ:
                            return NOTHING
            return u

        def on_exit(ret, u, facts):
            res["exits"] += 1
            pending = u
            if pending != NOTHING and pending[0] == "cell":
                v = facts.get(pending[1])
                if v is not None and (v & 1):
                    pending = NOTHING
            if pending != NOTHING:
                res["all_clear"] = False
                bad.append((f.insts[pending[-1]], ret))

        wk = pathwalk.Walker(f, cells={a.id: a for a in f.allocas().values() if f.is_bool_alloca(a)})
        # from_entry: being called *is* the report 'this segment is free' (helper): every path must empty the list
        wk.walk(("yes", f.blocks[0].insts[0].id) if from_entry else NOTHING, on_inst, on_exit, on_edge=on_edge)
        return bad, res["all_clear"]

    must_clear = {}
    # helpers first (functions in may_free that are called by others in may_free or elsewhere): iterate to a fixpoint
    top = {cf.name for n in may_free for cf, ci in P.callers().get(n, [])}
    for _ in range(3):
        for n in sorted(may_free):
            fn_ = P.functions[n]
            # a helper = takes the segment as its only business (pointer parameter of the segment type) and is called by other code that marks segments
            is_helper = fn_.internal and any(p["type"].endswith("%s*" % SEG) or SEG in p["type"] for p in fn_.params)
            bad, ok = walk_fn(fn_, True, from_entry=is_helper)
            must_clear[n] = ok
    chk.extra['helpers_that_always_empty_the_list'] = dict(must_clear)
    from .. import inline
    for n in sorted(may_free):
        # static helpers of the same file are looked through (the clearing may have been moved into one)
        f = inline.expanded(P, n)
        bad, ok = walk_fn(f, False)
        callers = [cf for cf, ci in P.callers().get(n, []) if cf.name in may_free or True]
        # a helper that may leave a pending free is judged at its callers (they may clear afterwards)
        if bad and any(cf.name != n for cf, ci in P.callers().get(n, [])) and all(cf.name in ("bidib_handle_received_message",) or False for cf, ci in P.callers().get(n, [])):
            pass
        if bad:
            i, ret = bad[0]
            chk.violation("C08-FREE", n, "free-without-clear", i.loc(), "a segment is marked free at line %d and the function can return without emptying its address list: the train stays 'on track'" % i.line)
        else:
            chk.ok("C08-FREE", 1, {"function": n})
    # callers of helpers that do not always clear
    for f in P.repo_functions():
        if f.name in may_free:
            continue
        if any(c.callee in may_free and not must_clear.get(c.callee) for c in f.calls()) and f.name != "bidib_handle_received_message":
            bad, ok = walk_fn(f, False)
            if bad:
                i, ret = bad[0]
                chk.violation("C08-FREE", f.name, "helper-free-without-clear", i.loc(), "%s marks a segment free through a helper that does not always empty the address list (line %d)" % (f.name, i.line))
            else:
                chk.ok("C08-FREE", 1, {"function": f.name})


def _occ_polarity(P, f, cond):
    """True if cond is true exactly when the loaded occupied flag is non-zero, False if negated, None if cond is not just that flag"""
    pol = True
    o = cond
    for _ in range(8):
        i = f.resolve(rules.strip_casts(f, o))
        if i is None:
            return None
        if i.op == "load":
            return pol if rules.field_path_of_ptr(P, f, i["ptr"]) == OCC else None
        if i.op == "icmp" and rules.const_of(f, i["b"]) == 0 and i["pred"] in ("eq", "ne"):
            if i["pred"] == "eq":
                pol = not pol
            o = i["a"]
        elif i.op == "xor" and rules.const_of(f, i["b"]) in (1, -1):
            pol = not pol
            o = i["a"]
        else:
            return None
    return None


def _is_reset(P, f):
    return f.name.endswith("_reset") or f.name == "bidib_state_reset"


def _is_creation(P, f, s):
    """store into a local record that is being built (configuration/creation), not into the shared array"""
    tags = flow.origins(f, s["ptr"])
    # a local record, or the by-value result slot (sret parameter) of a function that returns a copy
    def base(t):
        while t[0] in ("elem",) and isinstance(t[1], tuple):
            t = t[1]
        return t
    return any(base(t)[0] == "alloca" or (base(t)[0] == "param" and base(t)[1] < len(f.params) and "sret" in f.params[base(t)[1]]) for t in tags)


def _loads_in(f, o, depth=0, seen=None):
    seen = seen if seen is not None else set()
    out = []
    i = f.resolve(o) if o and o.get("k") == "inst" else None
    if i is None or depth > 8 or i.id in seen:
        return out
    seen.add(i.id)
    if i.op == "load":
        out.append(i)
        return out
    for k in ("a", "b", "cond"):
        if k in i.d and isinstance(i.d[k], dict):
            out += _loads_in(f, i.d[k], depth + 1, seen)
    for x in i.d.get("incoming", ()):
        out += _loads_in(f, x[1], depth + 1, seen)
    return out


def _icmps_in(f, o, depth=0, seen=None):
    seen = seen if seen is not None else set()
    out = []
    i = f.resolve(o) if o and o.get("k") == "inst" else None
    if i is None or depth > 6 or i.id in seen:
        return out
    seen.add(i.id)
    if i.op == "icmp":
        out.append(i)
        return out
    for k in ("a", "b"):
        if k in i.d and isinstance(i.d[k], dict):
            out += _icmps_in(f, i.d[k], depth + 1, seen)
    for x in i.d.get("incoming", ()):
        out += _icmps_in(f, x[1], depth + 1, seen)
    return out


def _callers_derive_after(P, f, dfn):
    """a helper that mutates the list: acceptable when every caller runs the derivation after the call before releasing the mutexes"""
    cs = P.callers().get(f.name, [])
    if not cs:
        return False
    for cf, ci in cs:
        def leaves(x):
            return x.op == "ret" or (x.op == "call" and x.callee in locks.REL and x.args[0].get("name") in ("trackstate_segments_mutex", "trackstate_trains_mutex"))
        if rules.exists_path(cf, ci, leaves, lambda x: x.op == "call" and x.callee == dfn.name):
            return False
    return True


SEG_LOCKS = ("trackstate_segments_mutex", "trackstate_trains_mutex")


def _mutation_summary(P, f, dfn, depth=0):
    """outcomes of a helper as a set of (mutated-and-not-yet-derived, return value or None), by a constant-propagating walk"""
    key = (f.name, dfn.name)
    if key in _SUMMARY_MEMO:
        return _SUMMARY_MEMO[key]
    _SUMMARY_MEMO[key] = {(True, None)}      # recursion guard: pessimistic
    out = set()
    W = pathwalk.Walker(f, cells=_bool_cells(f), max_states=60000)

    def on_inst(i, u, facts):
        if i.op == "call":
            if i.callee in MUTATORS and addr_array_of(P, f, i):
                return [True]
            if i.callee == dfn.name:
                return [False]
            g = P.functions.get(i.callee) if i.callee else None
            if g is not None and g.blocks and depth < 2 and g is not f and _reaches_mutation(P, g):
                return [pathwalk.Fork(u or m, {("ret", i.id): r}) for (m, r) in _mutation_summary(P, g, dfn, depth + 1)]
        return None

    def on_exit(ret, u, facts):
        out.add((u, W.ev(ret["val"], facts) if "val" in ret.d else None))
    W.walk(False, on_inst, on_exit)
    if W.truncated:
        out.add((True, None))
    _SUMMARY_MEMO[key] = out
    return out


_SUMMARY_MEMO = {}


def _bool_cells(f):
    """only _Bool locals are tracked: loop counters would make the walk unbounded"""
    from ..pathwalk import tracked_cells
    t = tracked_cells(f)
    return {k: a for k, a in t.items() if f.is_bool_alloca(a) or a["aty"] == "i1"}


def _reaches_mutation(P, g, _memo={}):
    if g.name in _memo:
        return _memo[g.name]
    _memo[g.name] = False
    r = any((c.callee in MUTATORS and addr_array_of(P, g, c)) or
            (c.callee in P.functions and P.functions[c.callee].blocks and _reaches_mutation(P, P.functions[c.callee])) for c in g.calls())
    _memo[g.name] = r
    return r


def _fol_sensitive(P, f, dfn, depth=0):
    """path-sensitive version of FOL for the function that holds the mutexes: returns None when every path from a mutation (direct or inside
    a helper) to the release of the segment/train mutexes runs the derivation, taking boolean 'changed' flags and helper results into account;
    otherwise the instruction where a pending mutation leaves the critical section.  For a helper, all callers are examined."""
    releases_here = any(c.callee in locks.REL and c.args[0].get("name") in SEG_LOCKS for c in f.calls())
    if not releases_here:
        cs = P.callers().get(f.name, [])
        if not cs or depth > 2:
            return f.blocks[0].insts[0]
        for cf, ci in cs:
            r = _fol_sensitive(P, cf, dfn, depth + 1)
            if r is not None:
                return r
        return None
    bad = []
    W = pathwalk.Walker(f, cells=_bool_cells(f), max_states=120000)

    def on_inst(i, u, facts):
        if i.op == "call":
            if i.callee in MUTATORS and addr_array_of(P, f, i):
                return [True]
            if i.callee == dfn.name:
                return [False]
            if i.callee in locks.REL and i.args[0].get("name") in SEG_LOCKS:
                if u:
                    bad.append(i)
                return [False]
            g = P.functions.get(i.callee) if i.callee else None
            if g is not None and g.blocks and g is not f and _reaches_mutation(P, g):
                return [pathwalk.Fork(u or m, {("ret", i.id): r}) for (m, r) in _mutation_summary(P, g, dfn)]
        return None

    def on_exit(ret, u, facts):
        if u:
            bad.append(ret)
    W.walk(False, on_inst, on_exit)
    if W.truncated and not bad:
        return f.blocks[0].insts[0]
    return bad[0] if bad else None
