"""C05: per-node sequence numbers (SPAN atomicity of allocate->hand-off, INV counter in [1,255], RST restart after reset, ZERO only while disabled)."""
from .. import flow, locks, rules
from ..build import AnalysisBroken

LEVEL = "other"

SEND_FIELD = "t_bidib_node_state.send_seqnum"


def seq_allocators(P):
    """functions that hand out a send sequence number: they form the address of <node state>.send_seqnum and return a loaded value"""
    out = []
    for f in P.repo_functions():
        for i in f.all_insts():
            if i.op == "getelementptr" and rules.field_path_of_ptr(P, f, {"k": "inst", "id": i.id}) == SEND_FIELD:
                # not the initialiser (a store of a constant directly to the field)
                uses_store_const = any(s.op == "store" and s["ptr"].get("k") == "inst" and s["ptr"]["id"] == i.id and s["val"].get("k") == "const"
                                       for s in f.all_insts())
                if not uses_store_const and f.ret != "void":
                    out.append(f)
                    break
    return out


def _guarded_increment(P, f, st, fp):
    """the store writes (load of the same field) + 1 on a path that excludes old == 255 (the wrap written out in place)"""
    vi = f.resolve(rules.strip_casts(f, st["val"]))
    if vi is None or vi.op != "add" or rules.const_of(f, vi["b"]) != 1:
        return False
    src = f.resolve(rules.resolve_local(f, rules.strip_casts(f, vi["a"])))
    if src is None or src.op != "load" or rules.field_path_of_ptr(P, f, src["ptr"]) != fp:
        return False
    for (br, taken) in rules.conditions_at(f, st):
        c = f.resolve(br["cond"])
        if c is None or c.op != "icmp":
            continue
        cv = rules.const_of(f, c["b"])
        ld = f.resolve(rules.resolve_local(f, rules.strip_casts(f, c["a"])))
        if ld is not None and ld.op == "load" and rules.field_path_of_ptr(P, f, ld["ptr"]) == fp and cv is not None:
            if (c["pred"] == "eq" and not taken and cv == 255) or (c["pred"] == "ne" and taken and cv == 255) or \
               (c["pred"] in ("ult", "slt") and taken and cv <= 255):
                return True
    return False


def _external_owners(P, f):
    """the externally visible function(s) a static helper works for (the helper itself if it is not static or has no callers): findings are
    keyed by them, so they keep their identity when the helper is inlined into, or extracted from, its callers"""
    if not f.internal:
        return [f.name]
    out, seen, work = [], {f.name}, [f.name]
    while work:
        n = work.pop()
        for cf, ci in P.callers().get(n, []):
            if cf.name in seen:
                continue
            seen.add(cf.name)
            if cf.internal:
                work.append(cf.name)
            else:
                out.append(cf.name)
    return sorted(out) or [f.name]


def wire_append_fns(P, w=None):
    if w is not None:
        from . import c01 as _c01x
        try:
            return {f_.name for f_, i_ in _c01x.send_roles(w)["append"]}
        except AnalysisBroken:
            return set()
    wire = set()
    for f in P.repo_functions():
        for i in f.calls():
            if i.callee and i.callee.startswith("llvm.memcpy"):
                for t in flow.origins(f, i.args[0]):
                    if t[0] == "gaddr" and P.globals.get(t[1], {}).get("internal") and P.globals[t[1]]["type"].startswith("[") and P.globals[t[1]].get("size", 0) >= 128 and not P.globals[t[1]].get("const"):
                        wire.add(f.name)
    return wire


def priv_rule(chk, P, ctor_names, wire, rid):
    """shared with C18: each call encodes its own message only if the assembly buffer is private to the call"""
    chk.rule(rid, "the message being numbered is assembled in storage private to the call (not in an object shared between senders)")
    for name in ctor_names:
        fn = P.functions[name]
        for h in [i for i in fn.calls() if rules.call_reaches(P, i, wire)]:
            shared = []
            for a in h.args:
                if a.get("k") in ("inst", "global", "cexpr"):
                    for t in flow.origins(fn, a):
                        if t[0] == "gaddr" and not P.globals.get(t[1], {}).get("const"):
                            shared.append(t[1])
            if shared:
                chk.violation(rid, name, shared[0], h.loc(), "the message handed off at line %d is assembled in the shared object '%s' while no lock spans allocation and hand-off: concurrent senders overwrite each other's numbered message" % (h.line, shared[0]))
            else:
                chk.ok(rid, 1, {"constructor": name, "handoff": h.loc()})



def run(chk, w):
    from . import c01 as _c01
    _c01.prepare(w)
    P = w.P
    E = w.lock_engine()
    chk.explanation = ("Structural necessary conditions for consecutive per-node numbering: (SPAN) from the call that allocates the number to the call "
                       "that hands the message to the wire buffer / deferred queue one lock must be held without interruption, in every calling context; "
                       "(FIFO) the sequence number is stamped before admission, therefore a message may be admitted directly only when no older message to that node is held, and held messages leave their queue first-in-first-out; (INV) every store to the send counter keeps it in [1,255] (wrap 255->1, never 0); (ZERO) 0 is stamped only on the branch where "
                       "numbering is disabled; (RST) the node table is reset before re-enumeration in the reset routine; (ACC) the counter is accessed under "
                       "the node-table mutex. Consecutiveness of concrete wire transcripts under every schedule is not decided.")
    allocs = seq_allocators(P)
    chk.floor("seq_allocators", len(allocs), 1)
    alloc_names = {f.name for f in allocs}

    # hand-off targets by role (taken from the sender's role finder: a memcpy or a byte-wise copy loop into the batch buffer)
    try:
        wire = {f_.name for f_, i_ in _c01.send_roles(w)["append"]}
    except AnalysisBroken:
        wire = set()
    if not wire:
        raise AnalysisBroken("the function that appends to the send buffer was not found")
    chk.extra["allocators"] = sorted(alloc_names)
    chk.extra["wire_append"] = sorted(wire)

    # ---- SPAN
    chk.rule("C05-SPAN", "one lock is held continuously from sequence-number allocation to the hand-off of the message, in every context")
    constructors = {}
    for c in E.ctxs.values():
        for (ci, ck, ls) in c.calls:
            if ck[0] in alloc_names:
                constructors.setdefault(c.fn.name, []).append((c, ci, ls))
    chk.floor("constructors", len(constructors), 2)
    for name, sites in sorted(constructors.items()):
        fn = P.functions[name]
        handoffs = [i for i in fn.calls() if rules.call_reaches(P, i, wire)]
        if not handoffs:
            chk.abstain("C05-SPAN", "no hand-off call found after allocation", name)
            continue
        bad = None
        for (c, ci, ls_a) in sites:
            for h in handoffs:
                for ls_h in c.inst_states.get(h.id, ()):
                    common = [l for (l, m, k) in ls_a if locks.ls_get(ls_h, l) is not None and l != "bidib_trains_rwlock" or False]
                    # a lock spans only if it is held at both points and not released (directly or in a callee) in between
                    spans = []
                    for (l, m, k) in ls_a:
                        if locks.ls_get(ls_h, l) is None:
                            continue
                        rel = rules.exists_path(fn, ci, lambda x, h=h: x.id == h.id,
                                                None)
                        released = False
                        for x in (rel or []):
                            if x.op == "call" and x.id not in (ci.id, h.id):
                                if x.callee in locks.REL and x.args[0].get("name") == l:
                                    released = True
                                for (cx, ckx, _l) in c.calls:
                                    if cx.id == x.id and any(al == l for al, am in E.ctxs[ckx].acquires):
                                        released = True
                        if not released:
                            spans.append(l)
                    # the spanning lock must also serialise the allocator against other senders to the same node:
                    # it has to be a lock every sender takes, i.e. one the allocator's own critical section nests in
                    spans = [l for l in spans if l in ("bidib_node_state_table_mutex", "bidib_send_buffer_mutex")]
                    if not spans:
                        bad = (c, ci, h, ls_a, ls_h)
        if bad:
            c, ci, h, ls_a, ls_h = bad
            chk.violation("C05-SPAN", name, "send_seqnum", ci.loc(),
                          "sequence number allocated at line %d (lockset %s) and message handed off at line %d (lockset %s) in separate critical sections: "
                          "two senders to one node can reach the wire out of order" % (ci.line, locks.ls_str(ls_a), h.line, locks.ls_str(ls_h)),
                          chain=E.chain(c))
        else:
            chk.ok("C05-SPAN", 1, {"constructor": name})
    # admission decision -> wire append inside the hand-off routine
    for f in P.repo_functions():
        adm = [i for i in f.calls() if i.callee and i.callee in P.functions and any(
            rules.field_path_of_ptr(P, P.functions[i.callee], {"k": "inst", "id": g.id}) == "t_bidib_node_state.current_max_respond"
            for g in P.functions[i.callee].all_insts() if g.op == "getelementptr") and P.functions[i.callee].ret == "i1"]
        app = [i for i in f.calls() if i.callee in wire]
        if adm and app and f.name not in wire:
            for c in [c for c in E.ctxs.values() if c.fn is f]:
                for a in adm:
                    for h in app:
                        la = c.inst_states.get(a.id, set())
                        lh = c.inst_states.get(h.id, set())
                        ok = all(any(locks.ls_get(y, l) for (l, m, k) in x if l in ("bidib_node_state_table_mutex", "bidib_send_buffer_mutex")) for x in la for y in lh) and la and lh
                        if not ok:
                          for own_ in _external_owners(P, f):
                            chk.violation("C05-SPAN", own_, "admission->append", a.loc(),
                                          "admission (%s, line %d) and append to the wire buffer (%s, line %d) are separate critical sections: admitted messages can be appended in a different order" % (a.callee, a.line, h.callee, h.line))
                        else:
                            chk.ok("C05-SPAN", 1)

    # ---- FIFO: numbers are stamped before admission, so wire order = number order only if held messages are never overtaken
    from . import c03
    from .. import nodestate as ns
    c03.fifo_rules(chk, w, ns.Roles(w), "C05-FIFO", fields=(ns.MSGQ,))

    # ---- NODROP / PRIV
    from . import c01
    roles01 = c01.send_roles(w)
    c01.nodrop_rule(chk, w, roles01, "C05-NODROP")
    priv_rule(chk, P, sorted(constructors), wire, "C05-PRIV")

    # ---- INV: stores through the counter pointer
    # ---- SWITCH: the numbering switch
    chk.rule("C05-SWITCH", "the switch that turns sequence numbering off for the connection probe is only ever assigned constants, and the probe's success path leaves it on "
                           "(a saved-and-restored value would keep numbering off after a failed probe)")
    sw = [g for g in P.globals if g.endswith("seq_num_enabled")]
    nsw = 0
    for f in P.repo_functions():
        for i in f.all_insts():
            if i.op == "store" and i["ptr"].get("k") == "global" and i["ptr"]["name"] in sw:
                nsw += 1
                cv = rules.const_of(f, i["val"])
                if cv is None:
                    chk.violation("C05-SWITCH", f.name, i["ptr"]["name"], i.loc(), "the numbering switch is assigned a computed value (line %d): whether later messages are numbered depends on an earlier "
                                  "state of the switch, e.g. 'off' left behind by a failed connection probe" % i.line)
                else:
                    chk.ok("C05-SWITCH", 1, {"store": i.loc(), "value": cv & 1})
    if sw:
        chk.floor("numbering_switch_stores", nsw, 2)
    else:
        chk.abstain("C05-SWITCH", "numbering switch (global *seq_num_enabled) not found", "-")

    chk.rule("C05-INV", "every store to a sequence counter is a constant in [1,255] or old+1 on a path that excludes old == 255")
    n_inv = 0
    targets = []   # (fn, pointer-describing predicate)
    for f in P.repo_functions():
        for i in f.all_insts():
            if i.op == "store":
                fp = rules.field_path_of_ptr(P, f, i["ptr"])
                if fp in (SEND_FIELD, "t_bidib_node_state.receive_seqnum"):
                    v = rules.const_of(f, i["val"])
                    n_inv += 1
                    if v is not None:
                        if 1 <= (v & 0xff) <= 255:
                            chk.ok("C05-INV", 1, {"store": i.loc(), "value": v & 0xff})
                        else:
                            chk.violation("C05-INV", f.name, fp, i.loc(), "constant %d stored to the sequence counter (0 is reserved for 'numbering off')" % v)
                    elif fp == SEND_FIELD and _guarded_increment(P, f, i, fp):
                        chk.ok("C05-INV", 1, {"store": i.loc(), "value": "old+1 under old != 255"})
                    elif fp == SEND_FIELD:
                        chk.violation("C05-INV", f.name, fp, i.loc(), "non-constant value stored directly to the send counter; cannot be shown to stay in [1,255]")
                    else:
                        chk.ok("C05-INV", 1)   # receive counter is resynchronised from wire values by design
    # helpers receiving the counter's address
    helpers = set()
    for a in allocs:
        for i in a.calls():
            if i.callee in P.functions:
                for k, arg in enumerate(i.args):
                    if arg.get("k") == "inst" and rules.field_path_of_ptr(P, a, arg) == SEND_FIELD:
                        helpers.add((i.callee, k))
    for (hn, k) in sorted(helpers):
        h = P.functions[hn]
        slot = None
        for i in h.blocks[0].insts:
            if i.op == "store" and i["val"].get("k") == "arg" and i["val"]["i"] == k:
                slot = i["ptr"]["id"]
        def through_param(o):
            i = h.resolve(o)
            return i is not None and i.op == "load" and i["ptr"].get("k") == "inst" and i["ptr"]["id"] == slot
        for s in h.all_insts():
            if s.op != "store" or not through_param(s["ptr"]):
                continue
            n_inv += 1
            v = rules.const_of(h, s["val"])
            if v is not None:
                if 1 <= (v & 0xff) <= 255:
                    chk.ok("C05-INV", 1, {"store": s.loc(), "value": v & 0xff})
                else:
                    chk.violation("C05-INV", hn, "send_seqnum", s.loc(), "constant %d stored to the sequence counter" % v)
                continue
            # old + 1 ?  (directly, or through locals: `current = *p; if (current != 255) next = current + 1; else next = 1; *p = next;`)
            def old_value(o):
                src = h.resolve(rules.resolve_local(h, o))
                return src is not None and src.op == "load" and through_param(src["ptr"])

            def value_ok(at, o, depth=0):
                cv_ = rules.const_of(h, o)
                if cv_ is not None:
                    return 1 <= (cv_ & 0xff) <= 255
                vi = h.resolve(rules.strip_casts(h, o))
                if vi is None or depth > 3:
                    return False
                if vi.op == "load" and vi["ptr"].get("k") == "inst" and h.insts[vi["ptr"]["id"]].op == "alloca" and not through_param(vi["ptr"]):
                    al = h.insts[vi["ptr"]["id"]]
                    if h.param_index_of_alloca(al) is not None or rules._escapes(h, al):
                        return False
                    sts = [x for x in h.all_insts() if x.op == "store" and x["ptr"].get("k") == "inst" and x["ptr"]["id"] == al.id]
                    return bool(sts) and all(value_ok(x, x["val"], depth + 1) for x in sts)
                if vi.op == "add" and rules.const_of(h, vi["b"]) == 1 and old_value(vi["a"]):
                    # must be guarded by old != 255
                    for (br, taken) in rules.branch_conditions(h, at):
                        c = h.resolve(br["cond"])
                        if c is not None and c.op == "icmp":
                            cv = rules.const_of(h, c["b"])
                            if old_value(c["a"]) and cv is not None:
                                if (c["pred"] == "eq" and not taken and cv == 255) or (c["pred"] == "ne" and taken and cv == 255) or \
                                   (c["pred"] == "ult" and taken and cv <= 255) or (c["pred"] == "slt" and taken and cv <= 255):
                                    return True
                return False
            okinc = value_ok(s, s["val"])
            if okinc:
                chk.ok("C05-INV", 1, {"store": s.loc(), "value": "old+1 under old != 255"})
            else:
                chk.violation("C05-INV", hn, "send_seqnum", s.loc(), "increment of the sequence counter is not guarded by old != 255 (would wrap to 0 or skip the wrap rule)")
    chk.floor("counter_stores", n_inv, 4)

    # ---- ZERO: in each constructor the number written into the message is the allocator's result, taken on the enabled branch only
    chk.rule("C05-ZERO", "the constructors stamp the allocated number when numbering is enabled and 0 otherwise")
    for name in sorted(constructors):
        fn = P.functions[name]
        ok = False
        for i in fn.calls():
            if i.callee in alloc_names:
                conds = rules.branch_conditions(fn, i)
                flagged = False
                for (br, taken) in conds:
                    src = rules.load_source(fn, br["cond"])
                    cnd = fn.resolve(br["cond"])
                    if cnd is not None and cnd.op == "icmp":
                        src = rules.load_source(fn, cnd["a"])
                    if src and src[0] == "global" and taken:
                        flagged = src[1]
                # result stored to a local whose only other store is constant 0
                slot = None
                for s in fn.all_insts():
                    if s.op == "store" and s["val"].get("k") == "inst" and s["val"]["id"] == i.id:
                        slot = s["ptr"]["id"]
                others = [s for s in fn.all_insts() if s.op == "store" and s["ptr"].get("k") == "inst" and s["ptr"]["id"] == slot and s["val"].get("k") != "inst"]
                zero_only = all(rules.const_of(fn, s["val"]) == 0 for s in others)
                if flagged and slot is not None and zero_only:
                    ok = True
                # `const uint8_t seqnum = enabled ? allocate() : 0;` - the call feeds a phi whose other inputs are the constant 0
                def _is_call(v, i=i):
                    x = fn.resolve(rules.strip_casts(fn, v)) if v.get("k") == "inst" else None
                    return x is not None and x.id == i.id
                for ph in fn.all_insts():
                    if ph.op == "phi" and any(_is_call(v) for b_, v in ph["incoming"]):
                        rest = [v for b_, v in ph["incoming"] if not _is_call(v)]
                        if flagged and rest and all(rules.const_of(fn, v) == 0 for v in rest):
                            ok = True
        if ok:
            chk.ok("C05-ZERO", 1, {"constructor": name})
        else:
            chk.violation("C05-ZERO", name, "seqnum", "%s:%d" % (fn.relfile, fn.line), "sequence number is not (allocator result if enabled else 0)")

    # ---- RST
    chk.rule("C05-RST", "the reset routine resets the node table (numbering restarts at 1) before it re-enumerates the bus")
    reset_fns = [f for f in P.repo_functions() if any(i.callee and i.callee in P.functions and P.functions[i.callee].name == "bidib_state_init_allocation_table" for i in f.calls())]
    resetters = {f.name for f in P.repo_functions() if any(i.callee == "g_hash_table_iter_remove" for i in f.calls())}
    if not reset_fns or not resetters:
        raise AnalysisBroken("reset routine or node-table reset not found")
    for f in reset_fns:
        enum = [i for i in f.calls() if i.callee == "bidib_state_init_allocation_table"]
        rst = [i for i in f.calls() if rules.call_reaches(P, i, resetters)]
        for e in enum:
            if any(f.dominates(r, e) for r in rst):
                chk.ok("C05-RST", 1, {"function": f.name, "reset_at": [r.line for r in rst], "enumerate_at": e.line})
            else:
                chk.violation("C05-RST", f.name, "node_state_table", e.loc(), "bus enumeration is not preceded by a node-table reset on every path")

    # ---- ACC: counter accessed only under the node-table mutex (from the shared access database)
    chk.rule("C05-ACC", "every access to the node table region (incl. the counters) holds bidib_node_state_table_mutex")
    from .. import access
    db = access.AccessDB(w)
    from .. import nodestate as _ns
    tbl = _ns.Roles(w).table_global or "node_state_table"
    accs = db.by_region.get((tbl, None), [])
    chk.floor("node_table_accesses", len(accs), 100)
    for a in accs:
        if locks.ls_get(a.ls, "bidib_node_state_table_mutex") is None:
            chk.violation("C05-ACC", a.fn.name, a.field or "node_state_table", a.loc(), "node-table access (%s) without bidib_node_state_table_mutex, lockset %s" % (a.what, locks.ls_str(a.ls)))
        else:
            chk.ok("C05-ACC", 1)
