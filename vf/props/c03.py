"""C03: per-node response budget, FIFO of deferred messages, never stranded (ADM, SYM, FIFO, POP, RETRY, TIME)."""
from .. import flow, locks, nodestate as ns, rules
from ..build import AnalysisBroken

LEVEL = "other"

ALLOWED_Q = {"g_queue_new", "g_queue_push_tail", "g_queue_peek_head", "g_queue_pop_head", "g_queue_is_empty", "g_queue_free", "g_queue_get_length"}


def _is_info_col1(P, fn, o, depth=0):
    """value is (through locals / parameters) a load of bidib_response_info[row][1]"""
    o = rules.strip_casts(fn, o)
    if o.get("k") == "arg":
        # all call sites must pass such a value
        cs = P.callers().get(fn.name, [])
        return bool(cs) and all(_is_info_col1(P, cf, ci.args[o["i"]], depth + 1) for cf, ci in cs) if depth < 4 else False
    i = fn.resolve(o)
    if i is None:
        return False
    if i.op == "load":
        p = fn.resolve(i["ptr"])
        if p is not None and p.op == "alloca":
            k = fn.param_index_of_alloca(p)
            sts = [s for s in fn.all_insts() if s.op == "store" and s["ptr"].get("k") == "inst" and s["ptr"]["id"] == p.id]
            return bool(sts) and all(_is_info_col1(P, fn, s["val"], depth + 1) for s in sts) if depth < 6 else False
        # address = bidib_response_info + row * rowsize + column * size, possibly through a row pointer kept in a single-assignment local
        q = i["ptr"]
        row = None
        off = 0
        for _ in range(12):
            q = rules.strip_casts(fn, q)
            if q.get("k") == "global":
                if q.get("name") != "bidib_response_info" or not row:
                    return False
                return ((off + q.get("off", 0)) % row) // i["size"] == 1
            g = fn.resolve(q)
            if g is None:
                return False
            if g.op == "getelementptr":
                off += g["off"]
                for x in g["idx"]:
                    row = x["scale"]
                q = g["base"]
            elif g.op == "load":
                q2 = rules.resolve_local(fn, q)
                if q2 is q or (q2.get("k") == "inst" and q2["id"] == g.id):
                    # a row pointer re-assigned when the next entry is looked at: every assignment is the start of a table row
                    al = fn.resolve(g["ptr"])
                    if al is None or al.op != "alloca" or fn.param_index_of_alloca(al) is not None or rules._escapes(fn, al) or not row is None or depth > 2:
                        return False
                    sts = [x for x in fn.all_insts() if x.op == "store" and x["ptr"].get("k") == "inst" and x["ptr"]["id"] == al.id]
                    return bool(sts) and (off // i["size"]) == 1 and all(_is_row_start(fn, x["val"]) for x in sts)
                q = q2
            else:
                return False
    return False


def _is_row_start(fn, q):
    """pointer operand is &bidib_response_info[row][0]"""
    off = 0
    row = None
    for _ in range(8):
        q = rules.strip_casts(fn, q)
        if q.get("k") == "global":
            return q.get("name") == "bidib_response_info" and bool(row) and (off + q.get("off", 0)) % row == 0
        g = fn.resolve(q)
        if g is None or g.op != "getelementptr":
            return False
        off += g["off"]
        for x in g["idx"]:
            row = x["scale"]
        q = g["base"]
    return False


def _mentions(P, f, o, pred, depth=0):
    """some instruction in the operand's expression tree (through casts, arithmetic, loads of single-assignment locals, call arguments) satisfies pred"""
    if o.get("k") != "inst" or depth > 8:
        return False
    o = rules.resolve_local(f, o)
    if o.get("k") != "inst":
        return False
    i = f.insts[o["id"]]
    if pred(i):
        return True
    if i.op == "load" and i["ptr"].get("k") == "inst" and f.insts[i["ptr"]["id"]].op == "alloca":
        # a local assigned in several places (`info = table[first->type]; ... info = table[next->type];`): every assignment mentions it
        al = f.insts[i["ptr"]["id"]]
        if f.param_index_of_alloca(al) is not None or rules._escapes(f, al):
            return False
        sts = [x for x in f.all_insts() if x.op == "store" and x["ptr"].get("k") == "inst" and x["ptr"]["id"] == al.id]
        return len(sts) > 1 and all(_mentions(P, f, x["val"], pred, depth + 1) for x in sts)
    if i.op == "call":
        return any(_mentions(P, f, a, pred, depth + 1) for a in i.args)
    if i.op == "load":
        return _mentions(P, f, i["ptr"], pred, depth + 1)
    if i.op == "getelementptr":
        return _mentions(P, f, i["base"], pred, depth + 1)
    return any(_mentions(P, f, i[k], pred, depth + 1) for k in ("a", "b") if k in i.d and isinstance(i[k], dict))


def _release_test(P, f, cond, truth, depth=0):
    """the branch condition holding with `truth` is (a) equality of a bidib_response_info[..][column] entry with the received type (a value that comes
    from a parameter), or (b) the age test of the awaited answer (a comparison over difftime / the clock / the entry's creation time)"""
    if cond.get("k") != "inst" or depth > 6:
        return False
    c = f.insts[cond["id"]]
    if c.op == "xor" and rules.const_of(f, c["b"]) in (1, -1):
        return _release_test(P, f, c["a"], not truth, depth + 1)
    if c.op in ("zext", "trunc"):
        return _release_test(P, f, c["a"], truth, depth + 1)
    if c.op == "load":
        o2 = rules.resolve_local(f, cond)
        return o2 != cond and _release_test(P, f, o2, truth, depth + 1)
    if c.op == "phi" and c["ty"] == "i1":
        # `!matched && age >= limit`: true only through the one incoming value that is not the constant false
        want = 1 if truth else 0
        alive = [v for b, v in c["incoming"] if not (v.get("k") == "const" and (v.get("v", 0) & 1) != want)]
        return len(alive) == 1 and alive[0].get("k") == "inst" and _release_test(P, f, alive[0], truth, depth + 1)
    if c.op == "icmp" and c["pred"] in ("eq", "ne") and rules.const_of(f, c["b"]) == 0 and f.resolve(rules.strip_casts(f, c["a"])) is not None \
            and f.resolve(rules.strip_casts(f, c["a"])).op in ("icmp", "fcmp", "xor", "load", "call"):
        inner = f.resolve(rules.strip_casts(f, c["a"]))
        if inner.op != "call":
            return _release_test(P, f, rules.strip_casts(f, c["a"]), truth == (c["pred"] == "ne"), depth + 1)
    if c.op == "call" and c.callee in P.functions and P.functions[c.callee].blocks and P.functions[c.callee].ret == "i1":
        # a predicate helper: `is_awaited_answer(entry, type)` - true must imply the test inside
        g = P.functions[c.callee]
        cell = None
        for r in g.all_insts():
            if r.op == "ret" and "val" in r.d:
                src = rules.load_source(g, r["val"])
                if src and src[0] == "alloca":
                    cell = src[1]
        if not truth:
            return False
        for b in g.blocks:
            t = b.term
            if t.op == "br" and "cond" in t.d and t["t"] != t.get("f"):
                for tr in (True, False):
                    if _release_test(P, g, t["cond"], tr, depth + 1):
                        return True
        return False
    if c.op == "icmp" and c["pred"] in ("eq", "ne"):
        def is_table(i):
            return i.op == "getelementptr" and i["base"].get("k") == "global" and i["base"]["name"] == "bidib_response_info"
        def from_param(o):
            o = rules.strip_casts(f, o)
            if rules.resolve_local(f, o).get("k") == "arg":
                return True
            src = rules.load_source(f, o)
            return bool(src) and src[0] == "alloca" and f.param_index_of_alloca(f.insts[src[1]]) is not None
        for x, y in ((c["a"], c["b"]), (c["b"], c["a"])):
            if _mentions(P, f, x, is_table) and from_param(y):
                return (c["pred"] == "eq") == truth
        return False
    if c.op in ("fcmp", "icmp"):
        def is_age(i):
            if i.op == "call" and i.callee in ("difftime", "time", "clock_gettime"):
                return True
            if i.op == "getelementptr":
                fp = rules.field_path_of_ptr(P, f, {"k": "inst", "id": i.id})
                return bool(fp) and fp.endswith(".creation_time")
            return False
        if _mentions(P, f, c["a"], is_age) or _mentions(P, f, c["b"], is_age):
            p_ = c["pred"]
            ge = p_ in ("oge", "ogt", "uge", "ugt", "sge", "sgt")
            return ge == truth
    return False


def run(chk, w):
    P = w.P
    R = ns.Roles(w)
    chk.explanation = ("Structural necessary conditions of the per-node response budget: who may write the budget counter and under which comparison "
                       "(ADM), the amounts added/released come from the same table column (SYM), the deferred queues are only used as FIFOs of fresh "
                       "entries and a deferred message is removed only when it is transmitted (FIFO/POP), every release of budget is followed by a retry of "
                       "the deferred messages before the node-table mutex is dropped (RETRY), an awaited answer's age counts from transmission (TIME). "
                       "The 48-byte bound over concrete histories, expiry timing and answer matching are not decided.")
    chk.extra["roles"] = {"retry": sorted(R.retry), "wire_append": sorted(R.wire), "creators": sorted(R.creators), "adders": sorted(R.adders), "subbers": sorted(R.subbers)}

    # ---- ADM: writers of the counter, and the admission comparison
    chk.rule("C03-ADM", "the budget counter is written only at node creation (=0), admission (+=r under counter+r<=limit, same r) and release (-=)")
    nst = 0
    for name, stores in sorted(R.cmr_stores.items()):
        f = P.functions[name]
        for s in stores:
            nst += 1
            v = f.resolve(rules.strip_casts(f, s["val"]))
            c = rules.const_of(f, s["val"])
            if c is not None:
                if c == 0 and name in R.creators:
                    chk.ok("C03-ADM", 1, {"store": s.loc(), "kind": "init 0"})
                else:
                    chk.violation("C03-ADM", name, ns.CMR, s.loc(), "constant %s stored to the budget counter outside node creation" % c)
            elif v is not None and v.op in ("add", "sub") and rules.field_path_of_ptr(P, f, (f.resolve(rules.strip_casts(f, v["a"])) or {"ptr": {}})["ptr"] if f.resolve(rules.strip_casts(f, v["a"])) is not None and f.resolve(rules.strip_casts(f, v["a"])).op == "load" else {}) == ns.CMR:
                chk.ok("C03-ADM", 1, {"store": s.loc(), "kind": v.op})
            else:
                chk.violation("C03-ADM", name, ns.CMR, s.loc(), "budget counter written with a value that is neither 0, counter+r nor counter-r")
    chk.floor("budget_counter_stores", nst, 4)
    # response_limit is never written
    lim = _limit_globals(P)
    for f in P.repo_functions():
        for i in f.all_insts():
            if i.op == "store" and i["ptr"].get("k") == "global" and i["ptr"]["name"] in lim:
                chk.violation("C03-ADM", f.name, "response_limit", i.loc(), "the response limit is modified at run time")
    for g in lim:
        init = P.globals[g].get("init")
        if init != 48:
            chk.violation("C03-ADM", "-", "response_limit", "%s:%s" % (P.globals[g].get("file"), P.globals[g].get("line")), "response limit initialised to %r, the protocol's node buffer is 48 bytes" % (init,))
        else:
            chk.ok("C03-ADM", 1, {"response_limit": 48})
    # every call of an adder is on the true edge of  counter + r <= limit  with r the amount passed
    nadm = 0
    for adder in sorted(R.adders):
        af = P.functions[adder]
        # which parameter is added?
        amount_param = None
        for s in R.cmr_stores[adder]:
            v = af.resolve(rules.strip_casts(af, s["val"]))
            if v is not None and v.op == "add":
                b = rules.strip_casts(af, v["b"])
                bi = af.resolve(b)
                if bi is not None and bi.op == "load":
                    al = af.resolve(bi["ptr"])
                    if al is not None and al.op == "alloca":
                        amount_param = af.param_index_of_alloca(al)
        if amount_param is None or not af.internal:
            continue
        for cf, ci in P.callers().get(adder, []):
            nadm += 1
            amt = rules.expr_key(cf, rules.resolve_local(cf, ci.args[amount_param]))
            amt_raw = rules.expr_key(cf, ci.args[amount_param])
            ok = False
            for (br, taken) in rules.branch_conditions(cf, ci):
                c = cf.resolve(br["cond"])
                if c is None or c.op != "icmp":
                    continue
                lhs, rhs, pred = c["a"], c["b"], c["pred"]
                good_pred = (pred in ("sle", "ule") and taken) or (pred in ("sgt", "ugt") and not taken)
                if not good_pred:
                    continue
                l = cf.resolve(rules.strip_casts(cf, lhs))
                if l is None or l.op != "add":
                    continue
                la = cf.resolve(rules.strip_casts(cf, l["a"]))
                if la is None or la.op != "load" or rules.field_path_of_ptr(P, cf, la["ptr"]) != ns.CMR:
                    continue
                r_key = rules.expr_key(cf, rules.resolve_local(cf, l["b"]))
                r_raw = rules.expr_key(cf, l["b"])
                rsrc = rules.load_source(cf, rhs)
                lim_ok = (rsrc and rsrc[0] == "global" and rsrc[1] in lim) or rules.const_of(cf, rhs) == 48
                if lim_ok and (r_key == amt or r_raw == amt_raw):
                    ok = True
            if not ok and cf.internal:
                # the admission was moved into a helper: the budget test must then guard every call of that helper
                ok = rules.guarded_here_or_at_callers(P, cf, ci, lambda fn_, gd_, tr_: _budget_guard(P, fn_, gd_, tr_, lim))
            if ok:
                chk.ok("C03-ADM", 1, {"admission": ci.loc(), "guard": "counter + r <= limit, r = amount added"})
            else:
                chk.violation("C03-ADM", cf.name, "admission", ci.loc(), "%s is called without a dominating test 'counter + r <= response limit' on the amount it adds" % adder)
    # admission written out in place (no helper): the add itself sits behind the budget test
    for name, stores in sorted(R.cmr_stores.items()):
        f = P.functions[name]
        for s_ in stores:
            v_ = f.resolve(rules.strip_casts(f, s_["val"]))
            if v_ is None or v_.op != "add":
                continue
            if name in R.adders and P.callers().get(name) and f.internal and _amount_param(f, R.cmr_stores[name]) is not None:
                continue        # checked at its call sites above
            nadm += 1
            if rules.guarded_here_or_at_callers(P, f, s_, lambda fn_, gd_, tr_: _budget_guard(P, fn_, gd_, tr_, lim)):
                chk.ok("C03-ADM", 1, {"admission": s_.loc(), "guard": "counter + r <= limit"})
            else:
                chk.violation("C03-ADM", name, "admission", s_.loc(), "the budget counter is increased without a dominating test 'counter + r <= response limit'")
    chk.floor("admission_sites", nadm, 2)

    # ---- SYM
    chk.rule("C03-SYM", "every amount added to or released from the budget is bidib_response_info[type][1]")
    for name, stores in sorted(R.cmr_stores.items()):
        f = P.functions[name]
        for s in stores:
            v = f.resolve(rules.strip_casts(f, s["val"]))
            if v is None or v.op not in ("add", "sub"):
                continue
            if _is_info_col1(P, f, v["b"]):
                chk.ok("C03-SYM", 1, {"store": s.loc(), "op": v.op})
            else:
                chk.violation("C03-SYM", name, ns.CMR, s.loc(), "amount %s the budget is not the table's response size bidib_response_info[type][1]" % ("added to" if v.op == "add" else "released from"))

    # ---- REL: what may release budget
    chk.rule("C03-REL", "budget is released only for the awaited answer or by expiry: every decrease of the counter is preceded, on every path, by the true edge of "
                        "'table-defined answer type of the oldest request == received type' or of the age test of that request")
    from .. import pathwalk
    nrel = 0
    for name, stores in sorted(R.cmr_stores.items()):
        f = P.functions[name]
        for s in stores:
            v = f.resolve(rules.strip_casts(f, s["val"]))
            if v is None or v.op != "sub":
                continue
            nrel += 1

            def establishes(br, succ, facts, f=f):
                if br.op != "br" or "cond" not in br.d:
                    return False
                truth = succ == br["t"]
                return _release_test(P, f, br["cond"], truth)
            g = pathwalk.guard_on_all_paths(f, s, establishes)
            if g is None:
                chk.abstain("C03-REL", "path walk truncated", s.loc())
            elif g:
                chk.ok("C03-REL", 1, {"release": s.loc()})
            else:
                chk.violation("C03-REL", name, "release", s.loc(), "the budget counter is decreased on a path that passed neither the match of the received type with the oldest request's "
                              "table-defined answers nor that request's age test: an unrelated message frees budget while the real answer is still outstanding, and more "
                              "than 48 bytes of answers can be pending")
    chk.floor("budget_releases", nrel, 2)

    # ---- UPD: every received message is offered to the node-state update (answer matching, expiry of old requests, retry of held messages)
    chk.rule("C03-UPD", "in the splitter every path from the allocation of a message to its dispatch passes the node-state update: expiry and the retry of held "
                        "messages are evaluated for every uplink message, whatever its type")
    from . import c02 as _c02
    try:
        _D, _disp, _asm, _split, _readers = _c02.receiver_roles(w)
        upd = {n for n in R.subbers if any(c.callee == n for c in _split.calls())}
        if not upd:
            upd = {c.callee for c in _split.calls() if c.callee in P.functions and rules.call_reaches(P, c, set(R.subbers))}
        nupd = 0
        for m in _split.calls("malloc"):
            nupd += 1
            def is_disp(x):
                return x.op == "call" and x.callee == _disp.name
            pth = rules.exists_path(_split, m, is_disp, lambda x: x.op == "call" and x.callee in upd)
            if pth:
                chk.violation("C03-UPD", _split.name, "update-skipped", m.loc(), "a message can be dispatched without the node-state update having run for it (%s): for such messages no expired "
                              "request is removed and no held message is retried, so held traffic stays stranded while only these messages arrive" % rules.path_text(pth))
            else:
                chk.ok("C03-UPD", 1, {"allocation": m.loc(), "update": sorted(upd)})
        chk.floor("split_allocations", nupd, 1)
    except AnalysisBroken as e:
        chk.abstain("C03-UPD", "receiver roles not identified: %s" % e, "-")

    fifo_rules(chk, w, R, "C03-FIFO")

    # ---- POP: a deferred message leaves the queue only on the branch that transmits it
    chk.rule("C03-POP", "a deferred message is removed from its queue only where it is transmitted (after the budget test succeeded)")
    for (f, i) in R.qcalls.get(ns.MSGQ, []):
        if i.callee != "g_queue_pop_head" or f.name in R.reset_fns:
            continue
        budget_edge = False
        for (br, taken) in rules.branch_conditions(f, i):
            c = f.resolve(br["cond"])
            if c is not None and c.op == "icmp":
                l = f.resolve(rules.strip_casts(f, c["a"]))
                if l is not None and l.op == "add":
                    la = f.resolve(rules.strip_casts(f, l["a"]))
                    if la is not None and la.op == "load" and rules.field_path_of_ptr(P, f, la["ptr"]) == ns.CMR:
                        if (c["pred"] in ("sle", "ule") and taken) or (c["pred"] in ("sgt", "ugt") and not taken):
                            budget_edge = True
        if not budget_edge:
            lim_ = _limit_globals(P)
            budget_edge = rules.guarded_here_or_at_callers(P, f, i, lambda fn_, gd_, tr_: _budget_guard(P, fn_, gd_, tr_, lim_))
        sends = any(c2.callee in R.wire and (f.dominates(c2, i) or f.dominates(i, c2)) for c2 in f.calls())
        if budget_edge and sends:
            chk.ok("C03-POP", 1, {"pop": i.loc()})
        else:
            chk.violation("C03-POP", f.name, ns.MSGQ, i.loc(), "deferred message removed from the queue outside the branch that transmits it")

    # ---- RETRY
    chk.rule("C03-RETRY", "after every release of budget the deferred messages are retried before the node-table mutex is released")
    nrel = 0
    for name in sorted(R.subbers):
        f = P.functions[name]
        for s in R.cmr_stores[name]:
            v = f.resolve(rules.strip_casts(f, s["val"]))
            if v is None or v.op != "sub":
                continue
            nrel += 1
            def is_retry(x):
                return x.op == "call" and x.callee in R.retry
            def leaves(x):
                return x.op == "ret" or (x.op == "call" and x.callee in locks.REL and x.args[0].get("name") == "bidib_node_state_table_mutex")
            path = rules.exists_path(f, s, leaves, is_retry)
            if path and path[-1].op == "ret" and f.internal and P.callers().get(f.name):
                # the release sits in a helper that returns to its caller: every caller must retry before it unlocks / returns
                from .. import pending
                pd = pending.Pending(P, lambda fn_, x, s=s: x.id == s.id and fn_ is f, lambda fn_, x: x.op == "call" and x.callee in R.retry)
                bad_ = None
                for cf_ in {cf.name: cf for cf, ci in P.callers().get(f.name, [])}.values():
                    lk = pd.leaks_at(cf_, leaves=lambda x: x.op == "call" and x.callee in locks.REL and x.args[0].get("name") == "bidib_node_state_table_mutex")
                    if lk is None or lk:
                        bad_ = cf_
                if bad_ is None:
                    path = None
            if path:
                chk.violation("C03-RETRY", name, "release@%s" % _branch_tag(f, s), s.loc(),
                              "budget released at line %d but a path reaches the unlock/return without retrying the deferred messages (%s): a held message can be stranded" % (s.line, rules.path_text(path)))
            else:
                chk.ok("C03-RETRY", 1, {"release": s.loc()})
    chk.floor("budget_releases", nrel, 2)

    # ---- TIME
    chk.rule("C03-TIME", "an awaited answer's creation time is taken from the clock where the request is transmitted")
    fld = "t_bidib_response_queue_entry.creation_time"
    sts = rules.stores_to_field(P, fld)
    chk.floor("creation_time_stores", len(sts), 1)
    for (f, s) in sts:
        srcs = flow.origins(f, s["val"])
        if srcs and all(t[0] == "call" and t[1] == "time" for t in srcs) and f.name in R.adders:
            chk.ok("C03-TIME", 1, {"store": s.loc()})
        else:
            chk.violation("C03-TIME", f.name, fld, s.loc(), "creation time of an awaited answer is not the clock value at admission (expiry would not count from transmission)")


def _branch_tag(f, s):
    """stable tag for a release site: which comparison guards it (match vs. expiry), not a line number"""
    for (br, taken) in reversed(rules.branch_conditions(f, s)):
        c = f.resolve(br["cond"])
        if c is not None and c.op == "icmp":
            return "match" if c["pred"] in ("eq", "ne") else "other"
        if c is not None and c.op == "fcmp":
            return "expiry"
    return "other"


def _limit_globals(P):
    """the response limit by role: the object the budget counter plus an amount is compared with (a macro constant has no object)"""
    out = set()
    for f in P.repo_functions():
        for c in f.all_insts():
            if c.op != "icmp":
                continue
            l = f.resolve(rules.strip_casts(f, c["a"]))
            if l is None or l.op != "add":
                continue
            la = f.resolve(rules.strip_casts(f, l["a"]))
            if la is None or la.op != "load" or rules.field_path_of_ptr(P, f, la["ptr"]) != ns.CMR:
                continue
            rsrc = rules.load_source(f, c["b"])
            if rsrc and rsrc[0] == "global":
                out.add(rsrc[1])
    return sorted(out)


def _in_retry(P, cf, R):
    """cf is a static helper used only by the retry routine(s)"""
    cs = P.callers().get(cf.name, [])
    return cf.internal and bool(cs) and all(c.name in R.retry or _in_retry(P, c, R) for c, i in cs)


def _amount_param(af, stores):
    for s in stores:
        v = af.resolve(rules.strip_casts(af, s["val"]))
        if v is not None and v.op == "add":
            bi = af.resolve(rules.strip_casts(af, v["b"]))
            if bi is not None and bi.op == "load":
                al = af.resolve(bi["ptr"])
                if al is not None and al.op == "alloca":
                    return af.param_index_of_alloca(al)
    return None


def _budget_guard(P, fn, gd, truth, lim):
    """the condition  counter + r <= limit  (on this edge)"""
    c = fn.resolve(gd["cond"])
    if c is None or c.op != "icmp":
        return False
    if not ((c["pred"] in ("sle", "ule") and truth) or (c["pred"] in ("sgt", "ugt") and not truth)):
        return False
    l = fn.resolve(rules.strip_casts(fn, c["a"]))
    if l is None or l.op != "add":
        return False
    la = fn.resolve(rules.strip_casts(fn, l["a"]))
    if la is None or la.op != "load" or rules.field_path_of_ptr(P, fn, la["ptr"]) != ns.CMR:
        return False
    rsrc = rules.load_source(fn, c["b"])
    return bool(rsrc and rsrc[0] == "global" and rsrc[1] in lim) or rules.const_of(fn, c["b"]) == 48


def fifo_rules(chk, w, R, rid, fields=(ns.MSGQ, ns.RESPQ)):
    """first-in-first-out use of the per-node queues and no overtaking of held messages (shared by C03, C04, C05: the order in which
    held messages reach the wire is the order of submission, which is also the order of their sequence numbers)"""
    P = w.P
    # ---- FIFO
    chk.rule(rid, "deferred-message%s queues: only FIFO operations, only fresh entries are pushed, direct admission requires an empty deferred queue" % (" and awaited-answer" if ns.RESPQ in fields else ""))
    nq = 0
    for fld in fields:
        for (f, i) in R.qcalls.get(fld, []):
            nq += 1
            if i.callee not in ALLOWED_Q:
                chk.violation(rid, f.name, fld, i.loc(), "%s on %s breaks first-in-first-out order" % (i.callee, fld))
                continue
            if i.callee == "g_queue_push_tail":
                srcs = flow.origins(f, i.args[1])
                fresh = srcs and all(t[0] == "call" and t[1] in ("malloc", "calloc", "g_malloc", "g_malloc0") for t in srcs)
                if not fresh:
                    chk.violation(rid, f.name, fld, i.loc(), "an entry that is not freshly allocated is appended to %s (re-queued entries lose their place)" % fld)
                    continue
            chk.ok(rid, 1, {"call": i.callee, "queue": fld, "at": i.loc()})
    chk.floor("queue_api_calls", nq, 12 if ns.RESPQ in fields else 6)
    # direct admission guarded by is_empty(message_queue): every increase of the budget outside the retry routine
    for name, stores in sorted(R.cmr_stores.items()):
        f = P.functions[name]
        for s_ in stores:
            v_ = f.resolve(rules.strip_casts(f, s_["val"]))
            if v_ is None or v_.op != "add":
                continue
            if name in R.retry or _in_retry(P, f, R):
                continue
            sites = [(f, s_)]
            if f.internal and P.callers().get(name):
                sites = [(cf, ci) for cf, ci in P.callers().get(name, [])]
            for (cf, ci) in sites:
                if cf.name in R.retry or _in_retry(P, cf, R):
                    continue
                ok = rules.guarded_here_or_at_callers(P, cf, ci, lambda fn_, gd_, tr_: ns.empty_queue_guard(P, fn_, gd_, tr_) == ns.MSGQ)
                if ok:
                    chk.ok(rid, 1, {"direct_admission": ci.loc(), "guard": "deferred queue empty"})
                else:
                    chk.violation(rid, cf.name, "overtake", ci.loc(), "direct admission is not guarded by an empty deferred queue: a newer message can overtake held ones")

    # the admission function (returns bool, reaches both the adder and a push onto the deferred queue): every point where its
    # result becomes 'true' (transmit now) lies behind the empty-deferred-queue test
    pushers = {f.name for (f, i) in R.qcalls.get(ns.MSGQ, []) if i.callee == "g_queue_push_tail"}
    def near(f, targets):
        # called directly, or by a direct callee (one helper level)
        for c in f.calls():
            if c.callee in targets:
                return True
            g = P.functions.get(c.callee) if c.callee else None
            if g is not None and g.blocks and any(c2.callee in targets for c2 in g.calls()):
                return True
        return False
    adm_fns = [f for f in P.repo_functions() if f.ret == "i1" and (any(c.callee in R.adders for c in f.calls()) or f.name in R.adders) and (f.name in pushers or near(f, pushers))]
    chk.floor("admission_functions", len(adm_fns), 1)
    for f in adm_fns:
        for (s, why) in true_result_points(f):
            ok = any(ns.empty_queue_guard(P, f, br, taken) == ns.MSGQ for (br, taken) in rules.conditions_at(f, s))
            if ok:
                chk.ok(rid, 1, {"admit_true": s.loc(), "guard": "deferred queue empty"})
            else:
                chk.violation(rid, f.name, "admit-without-empty-queue", s.loc(), "the admission result becomes true (%s) on a path that does not require the node's deferred queue to be empty: the message overtakes held ones" % why)



def true_result_points(f):
    """instructions where a bool function's result is set to true: stores of constant 1 into the cell that is returned, or `ret true`"""
    out = []
    cells = set()
    for i in f.all_insts():
        if i.op == "ret" and "val" in i.d:
            if rules.const_of(f, i["val"]) in (1, -1):
                out.append((i, "ret true"))
            src = rules.load_source(f, i["val"])
            if src and src[0] == "alloca":
                cells.add(src[1])
            elif rules.const_of(f, i["val"]) is None:
                # `return verdict == ADMITTED;` / `return a && b;`: what the value being true implies is looked up at the return itself
                out.append((i, "computed result"))
    for i in f.all_insts():
        if i.op == "store" and i["ptr"].get("k") == "inst" and i["ptr"]["id"] in cells:
            v = rules.const_of(f, i["val"])
            if v is None:
                out.append((i, "non-constant result"))
            elif v & 1:
                late = _true_survives_at(f, i, cells)
                if late is None:
                    out.append((i, "status = true"))
                else:
                    out += [(x, "status = true (initialised true, not reset on this path)") for x in late]
    return out


def _true_survives_at(f, st, cells):
    """`bool status = true; if (not ready) { ...; status = false; } else { admit }  return status;` - the result is true exactly on the paths from the
    initialisation to the return that pass no `status = false`.  Returns the last instructions of those paths before they join the return block (the guards
    that hold there are the guards of a true result), or None when the store is not such an initialisation."""
    cell = st["ptr"]["id"]
    falses = [x for x in f.all_insts() if x.op == "store" and x["ptr"].get("k") == "inst" and x["ptr"]["id"] == cell and x is not st and
              rules.const_of(f, x["val"]) is not None and (rules.const_of(f, x["val"]) & 1) == 0]
    if not falses or not all(f.dominates(st, x) for x in falses):
        return None
    kill = {x.bb.id for x in falses}
    rets = [r for r in f.all_insts() if r.op == "ret" and "val" in r.d and (rules.load_source(f, r["val"]) or (None, None))[1] == cell]
    if len(rets) != 1:
        return None
    R = rets[0].bb
    # blocks reachable from the initialisation without passing a killing block
    seen = set()
    work = [st.bb.id]
    while work:
        b = work.pop()
        if b in seen or b in kill:
            continue
        seen.add(b)
        work += f.bmap[b].succ
    pts = []
    for pb in R.pred:
        if pb in seen:
            pts.append(f.bmap[pb].term)
    if not pts or st.bb.id in [x.bb.id for x in pts]:
        return None
    return pts
