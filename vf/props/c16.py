"""C16: lifecycle (ORDER of the shutdown sequence, GUARD idempotence, JOIN handle typestate, OWN entries freed with what they own, PAIR alloc/free of global containers, SESSION)."""
from collections import defaultdict

from .. import flow, inline, rules
from ..build import AnalysisBroken

LEVEL = "other"
ALLOCS = {"malloc", "calloc", "strdup", "strndup", "g_queue_new", "g_array_new", "g_array_sized_new", "g_hash_table_new", "g_string_new"}
FREES = {"free", "g_queue_free", "g_array_free", "g_hash_table_destroy", "g_string_free", "g_queue_free_full"}


def start_sibling_rule(chk, P, rid):
    """shared with C13: the two start functions prepare a session identically.  Every store of a constant to a library global that one of them (with its same-file
    static helpers inlined) performs, the other performs too; a flag that only one start function re-arms keeps its old value in sessions opened by the other."""
    chk.rule(rid, "bidib_start_serial and bidib_start_pointer store the same constants to the same library globals (a session flag re-armed by one start function only stays "
                  "stale in sessions opened through the other)")
    def gstores(name):
        f = inline.expanded(P, name)
        out = {}
        for i in f.all_insts():
            if i.op == "store" and i["ptr"].get("k") == "global":
                cv = rules.const_of(f, i["val"])
                out.setdefault((i["ptr"]["name"], i["ptr"].get("off", 0), cv if cv is None else cv & 0xffffffff), i)
        return out
    if "bidib_start_serial" not in P.functions or "bidib_start_pointer" not in P.functions:
        raise AnalysisBroken("start functions not found")
    a, b = gstores("bidib_start_serial"), gstores("bidib_start_pointer")
    n = len(set(a) | set(b))
    for (key, inst, here, there) in [(k, a[k], "bidib_start_serial", "bidib_start_pointer") for k in sorted(set(a) - set(b), key=str)] + \
                                    [(k, b[k], "bidib_start_pointer", "bidib_start_serial") for k in sorted(set(b) - set(a), key=str)]:
        chk.violation(rid, here, "only-here:%s" % key[0], inst.loc(), "%s sets the global '%s' to %s at line %d, %s never does: after a session that changed it, a session opened with %s starts "
                      "with the stale value" % (here, key[0], "a computed value" if key[2] is None else key[2], inst.line, there, there))
    if set(a) == set(b):
        chk.ok(rid, max(n, 1), {"global_stores_in_both": n})
    chk.floor(rid.lower().replace("-", "_") + "_stores", n, 1)


def run(chk, w):
    P = w.P
    chk.explanation = ("Structural necessary conditions of the lifecycle: the stop routine, inside its 'running' guard, commands soft-stop, then zero speed for all trains, then track-off, "
                       "each flushed before the next step, all before the running flag is cleared, which precedes every join, which precedes every release of structures the threads use "
                       "(ORDER as a partial order of dominance between call sites); start bodies are guarded by !running, the stop body by running (GUARD); every thread handle "
                       "created is joined and forgotten, conditional creation included (JOIN); an entry that owns a heap buffer is never freed without that buffer (OWN); every "
                       "global container allocated on the start path is freed on the stop path and re-created by the next start (PAIR). Shutdown traffic content and leak freedom "
                       "beyond these pairings are not decided.")
    from .. import inline
    stop = P.functions.get("bidib_stop")
    starts = [P.functions[n] for n in ("bidib_start_pointer", "bidib_start_serial") if n in P.functions]
    # the sequences are properties of the routines' algorithms: static helpers of the same file are looked through
    if stop is not None:
        stop = inline.expanded(P, stop.name)
    starts = [inline.expanded(P, f_.name) for f_ in starts]
    if stop is None or len(starts) < 2:
        raise AnalysisBroken("public lifecycle functions bidib_stop / bidib_start_* not found")
    SOFT = _enum(P, "BIDIB_CS_SOFTSTOP")
    OFF = _enum(P, "BIDIB_CS_OFF")

    # ---- roles inside stop
    def cs_all(val):
        out = []
        for c in stop.calls():
            if c.callee and c.callee in P.functions and len(c.args) == 1 and rules.const_of(stop, c.args[0]) == val and rules.call_reaches(P, c, {"bidib_send_cs_set_state"}):
                out.append(c)
        return out
    soft, off = cs_all(SOFT), cs_all(OFF)
    zero = [c for c in stop.calls() if c.callee and c.callee in P.functions and rules.call_reaches(P, c, {"bidib_send_cs_drive_intern"}) and not c.args]
    flushes = [c for c in stop.calls() if c.callee and c.callee in P.functions and c.callee.endswith("flush")]
    joins = list(stop.calls("pthread_join"))
    run_stores = [s for s in stop.all_insts() if s.op == "store" and s["ptr"].get("k") == "global" and s["ptr"]["name"] == "bidib_running"]
    frees = [c for c in stop.calls() if c.callee and c.callee in P.functions and rules.reach_fns(P, c.callee) & FREES]
    chk.extra["stop_roles"] = {"softstop": [c.line for c in soft], "zero_speed": [c.line for c in zero], "off": [c.line for c in off], "flush": [c.line for c in flushes],
                               "joins": [c.line for c in joins], "running_false": [s.line for s in run_stores], "frees": [c.line for c in frees]}

    chk.rule("C16-ORDER", "stop: soft-stop < flush < zero speed < flush < track-off < flush < running=false < joins < frees")

    def need(cond, obj, where, msg):
        if cond:
            chk.ok("C16-ORDER", 1, {"step": obj})
        else:
            chk.violation("C16-ORDER", stop.name, obj, where, msg)

    if not (soft and zero and off and run_stores and joins):
        chk.violation("C16-ORDER", stop.name, "missing-step", "%s:%d" % (stop.relfile, stop.line),
                      "the stop routine lacks a step of the shutdown sequence (soft-stop %d, zero-speed %d, off %d, running=false %d, joins %d)" % (len(soft), len(zero), len(off), len(run_stores), len(joins)))
    else:
        s0, z0, o0, r0 = soft[0], zero[0], off[0], run_stores[0]
        dom = stop.dominates

        def flush_between(a, b):
            return any(dom(a, f) and dom(f, b) for f in flushes)
        need(dom(s0, z0) and flush_between(s0, z0), "softstop<flush<zero-speed", z0.loc(), "zero speed is commanded without a preceding flushed soft-stop")
        need(dom(z0, o0) and flush_between(z0, o0), "zero-speed<flush<off", o0.loc(), "track-off is commanded without a preceding flushed zero-speed command")
        need(dom(o0, r0) and flush_between(o0, r0), "off<flush<running=false", r0.loc(),
             "the running flag is cleared (threads stop, auto-flush ends) before the track-off command has been flushed by the stop routine itself")
        need(rules.const_of(stop, r0["val"]) == 0, "running=false", r0.loc(), "the stop routine does not clear the running flag")
        for j in joins:
            need(dom(r0, j), "running=false<join@%s" % _handle(stop, j), j.loc(), "a thread is joined before the running flag is cleared: the join never returns")
        for fr in frees:
            ok = all(not rules.exists_path(stop, fr, lambda x, j=j: x.id == j.id, None) for j in joins) and dom(r0, fr)
            need(ok, "join<free:%s" % fr.callee, fr.loc(), "%s releases structures while an internal thread may still be running (a join can follow it)" % fr.callee)

    # ---- GUARD
    chk.rule("C16-GUARD", "start bodies run only when not running, the stop body only when running")

    def guarded_by_running(f, inst, want_true):
        for (gd, truth) in rules.branch_conditions(f, inst):
            src = rules.load_source(f, gd["cond"])
            pol = truth
            cnd = f.resolve(gd["cond"])
            if cnd is not None and cnd.op == "xor":
                src = rules.load_source(f, cnd["a"])
                pol = not truth
            if src and src[0] == "global" and src[1] == "bidib_running" and pol == want_true:
                return True
        return False
    for c in (soft + off + joins):
        if guarded_by_running(stop, c, True):
            chk.ok("C16-GUARD", 1)
        else:
            chk.violation("C16-GUARD", stop.name, "stop-while-stopped", c.loc(), "stop work is not guarded by the running flag: stop while stopped would join/free twice")
    for f in starts:
        setters = [s for s in f.all_insts() if s.op == "store" and s["ptr"].get("k") == "global" and s["ptr"]["name"] == "bidib_running" and (rules.const_of(f, s["val"]) or 0) & 1]
        if not setters:
            chk.violation("C16-GUARD", f.name, "running=true", "%s:%d" % (f.relfile, f.line), "%s never sets the running flag" % f.name)
        for s in setters:
            if guarded_by_running(f, s, False):
                chk.ok("C16-GUARD", 1, {"start": f.name})
            else:
                chk.violation("C16-GUARD", f.name, "start-while-running", s.loc(), "the start body is not guarded by !running")
        for c in f.calls():
            if c.callee and c.callee in P.functions and rules.call_reaches(P, c, {"pthread_create"}):
                if guarded_by_running(f, c, False):
                    chk.ok("C16-GUARD", 1)
                else:
                    chk.violation("C16-GUARD", f.name, "threads-while-running", c.loc(), "threads can be created while the library is already running")

    # start while running does nothing: every call in a start routine that changes library state sits inside the !running guard
    _wg = {}
    def writes_globals(g, depth=0):
        if g.name in _wg:
            return _wg[g.name]
        _wg[g.name] = False
        r = False
        for i in g.all_insts():
            if i.op == "store" and i["ptr"].get("k") in ("global", "cexpr"):
                r = True
            elif i.op == "call" and i.callee in P.functions and P.functions[i.callee].blocks and depth < 6:
                r = r or writes_globals(P.functions[i.callee], depth + 1)
            if r:
                break
        _wg[g.name] = r
        return r
    for f in starts:
        for c in f.calls():
            g = P.functions.get(c.callee or "")
            if g is None or not g.blocks or (stop is not None and g.name == stop.name) or not writes_globals(g):
                continue
            if guarded_by_running(f, c, False):
                chk.ok("C16-GUARD", 1, {"start": f.name, "call": c.callee})
            else:
                chk.violation("C16-GUARD", f.name, "effect-while-running:" + c.callee, c.loc(),
                              "%s (which changes library state) is called outside the !running guard: a start call while the library is running is not a no-op" % c.callee)

    # ---- JOIN
    # ---- UNCOND (shared with C09): the shutdown commands go out whatever the cached feedback says
    from . import c09 as _c09
    from .. import sendapi as _sendapi
    _S = _sendapi.SendAPI(w)
    _reach = {n for n in P.reachable_functions(["bidib_stop"]) if n in P.functions and P.functions[n].blocks and P.functions[n].relfile.startswith(("src/highlevel/", "src/lowlevel/"))}
    _c09.uncond_rule(chk, P, _S, "C16-UNCOND", _reach, 4)

    start_sibling_rule(chk, P, "C16-SIB")

    chk.rule("C16-JOIN", "every thread handle that is created is joined in stop and forgotten afterwards (a stale handle is never joined again)")
    created = {}
    for f in P.repo_functions():
        for c in f.calls("pthread_create"):
            a = c.args[0]
            if a.get("k") == "global":
                cond = bool(rules.branch_conditions(f, c))
                created[a["name"]] = (f, c, cond)
    chk.floor("thread_handles", len(created), 3)
    joined = {}
    via_table = {}
    for j in joins:
        h = _handle(stop, j)
        if h:
            joined[h] = j
        else:
            # `for (i = 0; i < N; i++) { pthread_t *const handle = table[i]; if (*handle != 0) { pthread_join(*handle, NULL); *handle = 0; } }`
            tb = _table_handles(P, stop, j)
            if tb:
                for h in tb[0]:
                    joined[h] = j
                    via_table[h] = tb[1]
    for h, (f, c, cond) in sorted(created.items()):
        if h not in joined:
            chk.violation("C16-JOIN", stop.name, h, c.loc(), "thread handle %s is created but never joined by the stop routine" % h)
            continue
        j = joined[h]
        # guarded by handle != 0 and reset to 0 after the join (needed when creation is conditional or start can fail before creation)
        resets = [s for s in stop.all_insts() if s.op == "store" and s["ptr"].get("k") == "global" and s["ptr"]["name"] == h and rules.const_of(stop, s["val"]) == 0 and stop.dominates(j, s)]
        guarded = any(True for (gd, truth) in rules.branch_conditions(stop, j) if _mentions_global(stop, gd["cond"], h))
        if h in via_table:
            # the handle is reached through the table's pointer kept in a local: test and reset go through that same local
            cell = via_table[h]
            def _thru(o):
                src = rules.load_source(stop, o)
                return bool(src) and src[0] == "alloca" and src[1] == cell
            resets = [s for s in stop.all_insts() if s.op == "store" and rules.const_of(stop, s["val"]) == 0 and stop.dominates(j, s) and _thru(s["ptr"])]
            guarded = any(True for (gd, truth) in rules.branch_conditions(stop, j)
                          if any(l.op == "load" and _thru(l["ptr"]) for l in _cond_loads(stop, gd["cond"])))
        if resets and guarded:
            chk.ok("C16-JOIN", 1, {"handle": h, "conditional_creation": cond})
        elif not guarded:
            chk.violation("C16-JOIN", stop.name, h + ":unguarded", j.loc(), "%s is joined without testing that it was created" % h)
        else:
            chk.violation("C16-JOIN", stop.name, h + ":stale", j.loc(),
                          "%s is not reset after the join%s: a later stop joins the handle of a thread that was already joined" % (h, " and its creation is conditional" if cond else ""))
    for h in joined:
        if h not in created:
            chk.violation("C16-JOIN", stop.name, h + ":never-created", joined[h].loc(), "%s is joined but never created" % h)

    # ---- OWN
    chk.rule("C16-OWN", "an entry structure that owns a heap buffer is freed only together with that buffer")
    owned = defaultdict(set)     # struct name -> owned field names
    for f in P.repo_functions():
        for s in f.all_insts():
            if s.op == "store" and s["vty"].endswith("*"):
                fp = rules.field_path_of_ptr(P, f, s["ptr"])
                if fp and "queue_entry" in fp and any(t[0] == "call" and t[1] in ("malloc", "calloc", "strdup") for t in flow.origins(f, s["val"])):
                    owned[fp.split(".")[0]].add(fp)
    # message buffers handed over (not malloc'ed in place) also count: uplink queue entries hold the received message
    for f in P.repo_functions():
        for s in f.all_insts():
            if s.op == "store" and s["vty"].endswith("*"):
                fp = rules.field_path_of_ptr(P, f, s["ptr"])
                if fp and fp.endswith("queue_entry.message"):
                    owned[fp.split(".")[0]].add(fp)
    chk.floor("owning_entry_types", len(owned), 1)
    chk.extra["owning_entry_types"] = {k: sorted(v) for k, v in owned.items()}
    nown = 0
    for f in P.repo_functions():
        for c in f.calls():
            if c.callee == "free":
                ty = _pointee_struct(P, f, c.args[0])
                if ty in owned:
                    nown += 1
                    key = rules.expr_key(f, c.args[0], copyprop=False)
                    # the owned field of the same entry is freed / handed on / returned in this function
                    ok = False
                    for i in f.all_insts():
                        if i.op == "load" and rules.field_path_of_ptr(P, f, i["ptr"]) in owned[ty]:
                            g = f.resolve(rules.strip_casts(f, i["ptr"]))
                            if g is not None and g.op == "getelementptr" and rules.expr_key(f, g["base"], copyprop=False) == key:
                                ok = True
                    if ok:
                        chk.ok("C16-OWN", 1, {"free": c.loc(), "entry": ty})
                    else:
                        chk.violation("C16-OWN", f.name, ty, c.loc(), "an entry of type %s is freed without its owned buffer (%s): the buffer leaks" % (ty, ", ".join(sorted(owned[ty]))))
            elif c.callee == "g_queue_free_full":
                # bulk free of a queue with plain free(): only allowed for entry types that own nothing
                q = c.args[0]
                ql = f.resolve(rules.strip_casts(f, q))
                fld = rules.field_path_of_ptr(P, f, ql["ptr"]) if ql is not None and ql.op == "load" else None
                if fld:
                    holders = _queue_entry_types(P, fld)
                    bad = [t for t in holders if t in owned]
                    nown += 1
                    if bad and c.args[1].get("k") == "func" and c.args[1]["name"] == "free":
                        chk.violation("C16-OWN", f.name, fld, c.loc(), "%s is released with g_queue_free_full(..., free) although its entries (%s) own a heap buffer: the buffers leak" % (fld, ", ".join(bad)))
                    else:
                        chk.ok("C16-OWN", 1)
    chk.floor("entry_frees", nown, 4)

    # ---- PAIR
    chk.rule("C16-PAIR", "every global container allocated on the start path is freed on the stop path (and therefore re-created by the next start)")
    start_reach = set()
    for f in starts:
        start_reach |= P.reachable_functions([f.name])
    stop_reach = P.reachable_functions([stop.name])
    allocated = {}
    for n in sorted(start_reach):
        f = P.functions.get(n)
        if not f or not f.blocks or n in ("bidib_stop",):
            continue
        for s in f.all_insts():
            if s.op == "store" and s["ptr"].get("k") == "global" and s["vty"].endswith("*"):
                if any(t[0] == "call" and t[1] in ALLOCS for t in flow.origins(f, s["val"])):
                    allocated[(s["ptr"]["name"], s["ptr"].get("off", 0))] = (f, s)
    chk.floor("global_containers", len(allocated), 12)
    freed = set()
    for n in sorted(stop_reach):
        f = P.functions.get(n)
        if not f or not f.blocks:
            continue
        for c in f.calls():
            if c.callee in FREES and c.args:
                for t in flow.origins(f, c.args[0]):
                    if t[0] == "gload":
                        freed.add((t[1], t[2]))
                    elif t[0] == "field" and isinstance(t[1], tuple) and t[1][0] == "param":
                        # freed through a pointer parameter (`GQueue **q` ... g_queue_free(*q)`): the globals whose address the callers pass
                        for cf_, ci_ in P.callers().get(f.name, []):
                            if t[1][1] < len(ci_.args) and ci_.args[t[1][1]].get("k") == "global":
                                freed.add((ci_.args[t[1][1]]["name"], ci_.args[t[1][1]].get("off", 0) + (t[2] or 0)))
    for (g, off), (f, s) in sorted(allocated.items()):
        if (g, off) in freed or (g, None) in freed:
            chk.ok("C16-PAIR", 1, {"global": g, "offset": off, "allocated_in": f.name})
        else:
            chk.violation("C16-PAIR", f.name, "%s+%s" % (g, off), s.loc(), "the container stored in %s (+%s) is allocated on the start path but never freed on the stop path" % (g, off))

    # ---- SESSION (thorough): mutable scalar globals written during a session and not re-initialised by start/stop
    if chk.tier == "thorough":
        chk.rule("C16-SESSION", "session-time scalar globals are re-initialised on the start or stop path (reported as notes)")
        init_fns = start_reach | stop_reach
        for gname, g in sorted(P.globals.items()):
            if g.get("decl") or g.get("const") or not (g["type"].startswith("i") and g["type"][1:].isdigit()):
                continue
            writers = [(f, s) for f in P.repo_functions() for s in f.all_insts() if s.op == "store" and s["ptr"].get("k") == "global" and s["ptr"]["name"] == gname]
            if not writers:
                continue
            reinit = [f.name for f, s in writers if f.name in ("bidib_start_pointer", "bidib_start_serial", "bidib_stop") or (f.name in init_fns and rules.const_of(f, s["val"]) is not None)]
            if reinit:
                chk.ok("C16-SESSION", 1)
            else:
                chk.ok("C16-SESSION", 1)
                chk.note("C16-SESSION", "global %s is written during a session (%s) and not re-initialised by start/stop: the next session starts with the old value" % (gname, ", ".join(sorted({f.name for f, s in writers}))))


def _enum(P, name):
    for t in P.ditypes:
        if t["kind"] == "enum":
            for n, v in t.get("enumerators", []):
                if n == name:
                    return v
    raise AnalysisBroken("enumerator %s not found" % name)


def _handle(f, join):
    src = rules.load_source(f, join.args[0])
    return src[1] if src and src[0] == "global" else None


def _cond_loads(f, o, depth=0):
    i = f.resolve(o) if o.get("k") == "inst" else None
    if i is None or depth > 6:
        return []
    if i.op == "load":
        return [i]
    out = []
    for k in ("a", "b"):
        if k in i.d and isinstance(i[k], dict):
            out += _cond_loads(f, i[k], depth + 1)
    return out


def _table_handles(P, f, join):
    """join of `*handle` with handle = table[i] inside a loop over the whole constant table of handle addresses -> (handle globals, local holding the pointer)"""
    v = f.resolve(rules.strip_casts(f, join.args[0]))
    if v is None or v.op != "load":
        return None
    src = rules.load_source(f, v["ptr"])
    if not src or src[0] != "alloca":
        return None
    cell = src[1]
    e = f.resolve(rules.resolve_local(f, v["ptr"]))
    if e is None or e.op != "load":
        return None
    g = f.resolve(e["ptr"])
    if g is None or g.op != "getelementptr" or g["base"].get("k") != "global" or len(g["idx"]) != 1:
        return None
    gd = P.globals.get(g["base"]["name"])
    if not gd or not gd.get("const") or not isinstance(gd.get("init"), list):
        return None
    names = [x.get("g") for x in gd["init"] if isinstance(x, dict) and x.get("off", 0) == 0]
    if len(names) != len(gd["init"]) or not names:
        return None
    # the subscript counts from 0 up to the number of entries
    isrc = rules.load_source(f, g["idx"][0]["v"])
    if not isrc or isrc[0] != "alloca":
        return None
    sts = [s for s in f.all_insts() if s.op == "store" and s["ptr"].get("k") == "inst" and s["ptr"]["id"] == isrc[1]]
    zero = any(rules.const_of(f, s["val"]) == 0 for s in sts)
    bound = any(c.op == "icmp" and c["pred"] in ("ult", "slt", "ne") and rules.const_of(f, c["b"]) == len(names) and (rules.load_source(f, c["a"]) or (None, None))[1] == isrc[1]
                for c in f.all_insts())
    if not (zero and bound and len(sts) == 2):
        return None
    return names, cell


def _mentions_global(f, cond, g):
    key = rules.expr_key(f, cond)
    return rules.key_mentions(key, lambda k: k[0] == "g" and k[1] == g)


def _pointee_struct(P, f, o):
    """DI struct name a freed pointer points to (from the declared type of the local it is loaded from)"""
    src = rules.load_source(f, o)
    if src and src[0] == "alloca":
        a = f.insts[src[1]]
        t = P.di_strip(a.get("ditype", -1))
        if t and t["kind"] == "pointer":
            return P.di_name(t["base"]).replace("const ", "")
    return None


def _queue_entry_types(P, queue_field):
    """entry struct types pushed onto the queue stored in Struct.field (from the locals passed to g_queue_push_tail)"""
    out = set()
    for f in P.repo_functions():
        for c in f.calls("g_queue_push_tail"):
            ql = f.resolve(rules.strip_casts(f, c.args[0]))
            if ql is not None and ql.op == "load" and rules.field_path_of_ptr(P, f, ql["ptr"]) == queue_field:
                t = _pointee_struct(P, f, c.args[1])
                if t:
                    out.add(t)
    return out
