"""C11: no call blocks forever on the library's own locks (BAL, UNLOCK, SELF, ORD, INIT, WAIT, JOIN)."""
import os
from collections import defaultdict

from .. import flow, locks, lockrun, pathwalk
from ..build import AnalysisBroken, VERIF

LEVEL = "proof"
FIXTURES = (os.path.join(VERIF, "fixtures", "canary_locks.c"),)


def origins(E, ctx, seen=None):
    """deepest contexts below ctx whose exit lockset differs from their entry lockset"""
    seen = seen if seen is not None else set()
    if ctx.key in seen:
        return []
    seen.add(ctx.key)
    out = []
    for (_i, ck, _ls) in ctx.calls:
        sub = E.ctxs[ck]
        if any(ex != sub.entry for ex in sub.exits):
            out.extend(origins(E, sub, seen))
    # contexts entered with a re-entrant (count >= 2) read lock exist only downstream of a leak that is reported at its
    # own origin; the saturating counter makes their exit/entry comparison meaningless
    if not out and any(ex != ctx.entry for ex in ctx.exits) and not any(k >= 2 for (_l, _m, k) in ctx.entry):
        out = [ctx]
    return out


def balance(chk, E, root_ctxs, rule="C11-BAL"):
    chk.rule(rule, "every context (function x bool/callback args x entry lockset) returns with its entry lockset")
    unb = set()
    for c in E.ctxs.values():
        if c.fn.relfile.startswith("src" + os.sep) or c.fn.name.startswith("vf_canary"):
            chk.ok(rule, 1, {"function": c.fn.name, "entry": locks.ls_str(c.entry), "exits": [locks.ls_str(e) for e in c.exits]}
                   if len(c.entry) else None)
    reported = set()
    for rc in root_ctxs:
        for o in origins(E, rc):
            for ex in o.exits:
                if ex == o.entry:
                    continue
                leaked = sorted(l for l, m, k in ex if locks.ls_get(o.entry, l) is None or dict((a, c) for a, b, c in ex)[l] > dict((a, c) for a, b, c in o.entry).get(l, 0))
                dropped = sorted(l for l, m, k in o.entry if locks.ls_get(ex, l) is None)
                for l in leaked or dropped or ["?"]:
                    key = (o.fn.name, l)
                    if key in reported:
                        continue
                    reported.add(key)
                    chk.rule(rule)["instances"] -= 1   # the context was counted as an instance above
                    chk.violation(rule, o.fn.name, l, "%s:%d" % (o.fn.relfile, o.fn.line),
                                  "returns with %s %s (entered with %s, exit lockset %s)" % (l, "still held" if l in leaked else "released", locks.ls_str(o.entry), locks.ls_str(ex)),
                                  chain=E.chain(o))
    return reported


def run(chk, w):
    P = w.P
    E = w.lock_engine()
    chk.explanation = ("Path-sensitive lockset analysis of every function of the 30 units in every calling context reachable from the "
                       "public API and the three internal thread roots: balance at every return, no release of a lock not held, no "
                       "self-acquisition, acyclic lock-order graph with read/write modes, initialisation before first use, no waiting "
                       "for the receiver thread or joining a thread while holding a lock that thread needs.")
    chk.assumptions += ["user callbacks (read/write) do not call back into the library",
                        "glibc default rwlock kind (reader preference): nested read locks do not block on a waiting writer",
                        "allocation failure is out of scope"]
    # ---- floors
    chk.floor("lock_globals", len(E.locks), 15)
    chk.floor("acquisition_sites", len(E.acq_sites), 190)
    chk.floor("contexts", len(E.ctxs), 400)
    chk.floor("public_api", len([n for n in w.api if n in P.functions]), 150)
    chk.extra["contexts"] = len(E.ctxs)
    chk.extra["functions_analysed"] = len({c.fn.name for c in E.ctxs.values()})
    chk.extra["acquisition_sites"] = len(E.acq_sites)
    chk.extra["roots"] = {"api": len([1 for n, l in E.root_list if l in ("API", "ADMIN")]), "threads": [n for n, l in E.root_list if l.startswith("THREAD")],
                          "orphans": E.orphans}
    root_ctxs = [E.ctxs[k] for k in E.roots]

    # ---- BAL
    balance(chk, E, root_ctxs)

    # ---- UNLOCK / SELF (collected by the engine while exploring)
    chk.rule("C11-UNLOCK", "no release of a lock that is not held on that path")
    chk.rule("C11-SELF", "no acquisition of a lock the thread already holds (mutex; rwlock unless read-in-read)")
    chk.ok("C11-UNLOCK", len(E.acq_sites))
    chk.ok("C11-SELF", len(E.acq_sites))
    for v in E.violations:
        if v["rule"] == "UNLOCK":
            chk.violation("C11-UNLOCK", v["function"], v["lock"], "%s:%d" % (v["file"], v["line"]), v["msg"], chain=v["chain"], context=v["context"])
        elif v["rule"] == "SELF":
            chk.violation("C11-SELF", v["function"], v["lock"], "%s:%d" % (v["file"], v["line"]), v["msg"], chain=v["chain"], context=v["context"])
        elif v["rule"] == "BAL":
            chk.violation("C11-BAL", v["function"], "callback", "%s:%d" % (v["file"], v["line"]), v["msg"], chain=v["chain"])
    for n in E.notes:
        chk.note("C11-SELF", n["msg"], "%s:%d" % (n["file"], n["line"]))

    # ---- ORD
    chk.rule("C11-ORD", "lock-order graph over all contexts is free of cycles whose modes conflict")
    edges = E.edges
    pairs = sorted({(a, b) for (a, ma, b, mb) in edges})
    chk.ok("C11-ORD", len(pairs), {"edges": ["%s -> %s" % p for p in pairs[:12]]})
    chk.extra["order_edges"] = len(pairs)
    for cyc in lockrun.find_deadlock_cycles(edges):
        names = [e[0] for e in cyc]
        wit = []
        for e in cyc:
            ck, inst = edges[e][0]
            wit.append({"edge": "%s(%s) -> %s(%s)" % e, "at": inst.loc(), "chain": E.chain(E.ctxs[ck])})
        chk.violation("C11-ORD", "+".join(sorted(set(names))), "cycle", wit[0]["at"],
                      "lock-order cycle " + " -> ".join(names + [names[0]]), witnesses=wit)

    # ---- INIT: every lock global initialised with a NULL attribute; on each start path the initialisation
    # dominates thread creation and every acquisition
    chk.rule("C11-INIT", "every lock is initialised (NULL attribute) before threads are created and before its first acquisition")
    inits = defaultdict(list)
    for f in P.repo_functions():
        for i in f.calls():
            if i.callee in locks.INIT:
                a = i.args[0]
                if a.get("k") == "inst":
                    # `for (i = 0; i < N; i++) pthread_mutex_init(table[i], NULL);` over a constant table of lock addresses
                    for nm in (locks.table_locks(P, f, a, None) or []):
                        inits[nm].append((f, i))
                        if i.args[1].get("k") != "null":
                            chk.violation("C11-INIT", f.name, nm, i.loc(), "lock initialised with a non-default attribute; mode assumptions do not hold")
                if a.get("k") == "global":
                    inits[a["name"]].append((f, i))
                    if i.args[1].get("k") != "null":
                        chk.violation("C11-INIT", f.name, a["name"], i.loc(), "lock initialised with a non-default attribute; mode assumptions do not hold")
    for l in sorted(E.locks):
        if l not in inits:
            chk.violation("C11-INIT", "-", l, "-", "lock global %s is never initialised" % l)
        else:
            chk.ok("C11-INIT", 1, {"lock": l, "init_at": inits[l][0][1].loc()})
    # start functions = public functions that reach pthread_create
    starters = []
    for n, label in E.root_list:
        if label in ("API", "ADMIN") and any(True for x in P.reachable_functions([n]) if x in P.functions and any(True for _ in P.functions[x].calls("pthread_create"))):
            starters.append(n)
    chk.floor("start_functions", len(starters), 2)

    def reach_set(call):
        if not call.callee:
            return set()
        return P.reachable_functions([call.callee]) if call.callee in P.functions else {call.callee}

    for s in starters:
        f = P.functions[s]
        rootctx = E.ctxs.get((s, tuple(None for _ in f.params), ()))
        info = {}
        for c in f.calls():
            if not c.callee:
                continue
            init_here = set()
            creates = c.callee == "pthread_create"
            if c.callee in locks.INIT and c.args and c.args[0].get("k") == "global":
                init_here.add(c.args[0]["name"])        # initialised in the start function itself (the init helper inlined)
            for x in reach_set(c):
                fx = P.functions.get(x)
                if not fx:
                    continue
                for i in fx.calls():
                    if i.callee in locks.INIT and i.args[0].get("k") == "global":
                        init_here.add(i.args[0]["name"])
                    elif i.callee in locks.INIT and i.args[0].get("k") == "inst":
                        init_here |= set(locks.table_locks(P, fx, i.args[0], None) or [])
                    if i.callee == "pthread_create":
                        creates = True
            acq = set()
            if rootctx:
                for (ci, ck, _ls) in rootctx.calls:
                    if ci.id == c.id:
                        acq |= {l for l, m in E.ctxs[ck].acquires}
            info[c.id] = (init_here, creates, acq)
        # path-sensitive (constant propagation over the function's own flags such as `error`): user state = locks initialised so far
        reported = set()
        checked = set()

        def on_inst(inst, inited, facts, info=info, reported=reported, checked=checked, s=s):
            if inst.op != "call" or inst.id not in info:
                return None
            init_here, creates, acq = info[inst.id]
            need = (set(E.locks) if creates else set(acq)) - init_here - set(inited)
            for l in sorted(need):
                if (inst.id, l) not in reported:
                    reported.add((inst.id, l))
                    chk.violation("C11-INIT", s, l, inst.loc(), "%s: call to %s %s before %s is initialised on this path" % (
                        s, inst.callee, "creates threads" if creates else "acquires the lock", l))
            if (creates or acq) and inst.id not in checked:
                checked.add(inst.id)
            if init_here:
                return [frozenset(set(inited) | init_here)]
            return None

        wk = pathwalk.Walker(f)
        wk.walk(frozenset(), on_inst)
        if wk.truncated:
            raise AnalysisBroken("C11-INIT walk of %s truncated" % s)
        chk.ok("C11-INIT", len(checked), {"start_function": s, "calls_needing_initialised_locks": len(checked)})

    # ---- WAIT: polling for a message only the receiver thread can deliver while holding a lock the receiver needs
    chk.rule("C11-WAIT", "no lock needed by the receiver thread is held while polling for a message from the receiver")
    rx = None
    for n, label in E.root_list:
        if label.startswith("THREAD"):
            # the receiver is the thread root that reaches the read callback
            if "read_byte" in _globals_loaded(P, n):
                rx = n
    if rx is None:
        raise AnalysisBroken("receiver thread root (reaches the read callback) not found")
    rxctx = [c for k, c in E.ctxs.items() if k[0] == rx and k in E.roots][0]
    rx_acq = rxctx.acquires
    # consumers of the intern queue: functions popping from a queue global that only the receiver's call tree pushes to
    waiters = _rx_only_queue_consumers(P, rx)
    chk.floor("rx_queue_consumers", len(waiters), 1)
    nsites = 0
    for c in E.ctxs.values():
        for (ci, ck, ls) in c.calls:
            if ci.callee in waiters and _in_loop(c.fn, ci):
                nsites += 1
                bad = []
                for (l, m, k) in ls:
                    for (rl, rm) in rx_acq:
                        if rl == l and lockrun.conflict(rm, m):
                            bad.append((l, m, rm))
                # the hazard is a *waiting* cycle that keeps the lock: from the "no message yet" edge back to the poll
                # without passing a release of that lock in this function
                bad = [(l, m, rm) for (l, m, rm) in bad if _waits_with_lock(c.fn, ci, l)]
                if bad:
                    for (l, m, rm) in bad:
                        chk.violation("C11-WAIT", c.fn.name, l, ci.loc(),
                                      "polls %s in a loop while holding %s (%s); the receiver thread acquires %s (%s) and would block, so the awaited message never arrives" % (ci.callee, l, m, l, rm),
                                      chain=E.chain(c))
                else:
                    chk.ok("C11-WAIT", 1, {"function": c.fn.name, "at": ci.loc(), "held": locks.ls_str(ls)})
    chk.floor("rx_poll_sites", nsites, 3)

    # ---- JOIN: pthread_join with a lock held that the joined thread needs
    chk.rule("C11-JOIN", "pthread_join is never called while holding a lock the internal threads acquire")
    thread_acq = set()
    for k in E.roots:
        if any(l.startswith("THREAD") for l in E.roots[k]):
            thread_acq |= {l for l, m in E.ctxs[k].acquires}
    nj = 0
    for c in E.ctxs.values():
        for i in c.fn.calls("pthread_join"):
            for ls in c.inst_states.get(i.id, ()):
                nj += 1
                bad = [l for l, m, k in ls if l in thread_acq]
                if bad:
                    chk.violation("C11-JOIN", c.fn.name, bad[0], i.loc(), "pthread_join while holding %s which the internal threads acquire" % bad[0], chain=E.chain(c))
                else:
                    chk.ok("C11-JOIN", 1, {"at": i.loc(), "held": locks.ls_str(ls)})
    chk.floor("join_sites", nj, 3)

    # ---- callbacks (note)
    for c in E.ctxs.values():
        for i in c.fn.calls():
            if i.callee is None:
                for ls in c.inst_states.get(i.id, ()):
                    chk.note("C11-CB", "indirect call with lockset %s" % locks.ls_str(ls), i.loc())

    # ---- canaries (separate engine; never mixed into the verdict)
    CE = locks.LockEngine(P)
    croots = []
    for name in ("vf_canary_bad_leak", "vf_canary_bad_order", "vf_canary_good_order", "vf_canary_bad_self", "vf_canary_ok_cond", "vf_canary_ok_local_flag"):
        if name not in P.functions:
            raise AnalysisBroken("canary %s missing" % name)
        croots.append(CE.analyze_root(name, "CANARY"))
    unbalanced = {c.fn.name for c in croots if any(ex != c.entry for ex in c.exits)}
    chk.canary("bal_leak_detected", "vf_canary_bad_leak" in unbalanced)
    chk.canary("bal_conditional_lock_silent", "vf_canary_ok_cond" not in unbalanced and "vf_canary_ok_local_flag" not in unbalanced)
    chk.canary("self_detected", any(v["rule"] == "SELF" and v["function"] == "vf_canary_bad_self" for v in CE.violations))
    chk.canary("self_silent_on_ok", not any(v["function"].startswith("vf_canary_ok") or v["function"] == "vf_canary_helper" for v in CE.violations))
    merged = dict(edges)
    for k, v in CE.edges.items():
        merged.setdefault(k, []).extend(v)
    cyc = lockrun.find_deadlock_cycles(merged)
    chk.canary("order_cycle_detected", any({e[0] for e in c} == {"trackstate_segments_mutex", "trackstate_trains_mutex"} for c in cyc))


def _globals_loaded(P, root):
    out = set()
    for n in P.reachable_functions([root]):
        f = P.functions.get(n)
        if not f:
            continue
        for i in f.all_insts():
            if i.op == "load" and i["ptr"].get("k") == "global":
                out.add(i["ptr"]["name"])
    return out


def _rx_only_queue_consumers(P, rx):
    """names of functions that name (load) a queue global for a pop, where that queue is pushed to only from the
    receiver thread's call tree; provenance of the queue argument is followed through helper parameters"""
    rx_tree = P.reachable_functions([rx])
    pushers = defaultdict(set)
    poppers = defaultdict(set)
    for f in P.repo_functions():
        for i in f.calls():
            if i.callee in ("g_queue_push_tail", "g_queue_push_head", "g_queue_pop_head", "g_queue_pop_tail") and i.args:
                for g, namer in flow.global_sources(P, f, i.args[0]):
                    (pushers if "push" in i.callee else poppers)[g].add(namer)
    callers = P.callers()

    def only_rx(fn, depth=0):
        if fn == rx:
            return True
        cs = callers.get(fn, [])
        if not cs or depth > 8:
            return False
        return all(only_rx(cf.name, depth + 1) for cf, _ in cs)

    out = set()
    for g, ps in pushers.items():
        if ps and all(only_rx(p) for p in ps):
            for p in poppers.get(g, ()):
                if p not in rx_tree:
                    out.add(p)
    return out


def _in_loop(fn, inst):
    for h, body in fn.loops().items():
        if inst.bb.id in body:
            return True
    return False


def _waits_with_lock(fn, call, lock):
    """True if the poll call can be reached again from its 'result is NULL' edge (or, when that edge cannot be
    identified, from the call itself) without executing an unlock of `lock` in this function."""
    rel_blocks = set()
    for b in fn.blocks:
        for i in b.insts:
            if i.op == "call" and i.callee in locks.REL and i.args and i.args[0].get("k") == "global" and i.args[0]["name"] == lock:
                rel_blocks.add(b.id)
    starts = None
    # result stored to a local; a branch comparing that local with null
    slot = None
    for i in call.bb.insts[call.idx + 1:]:
        if i.op == "store" and i["val"].get("k") == "inst" and i["val"]["id"] == call.id and i["ptr"].get("k") == "inst":
            slot = i["ptr"]["id"]
            break
    if slot is not None:
        for b in fn.blocks:
            t = b.term
            if t.op == "br" and "cond" in t.d:
                c = fn.resolve(t["cond"])
                if c is not None and c.op == "icmp" and c["pred"] in ("eq", "ne") and c["b"].get("k") == "null":
                    ld = fn.resolve(c["a"])
                    if ld is not None and ld.op == "load" and ld["ptr"].get("k") == "inst" and ld["ptr"]["id"] == slot:
                        null_succ = t["t"] if c["pred"] == "eq" else t["f"]
                        starts = (starts or []) + [null_succ]
    if not starts:
        starts = list(call.bb.succ)
        if call.bb.id in rel_blocks:
            # release after the call in the same block?
            for i in call.bb.insts[call.idx + 1:]:
                if i.op == "call" and i.callee in locks.REL and i.args[0].get("name") == lock:
                    return False
    seen = set()
    st = list(starts)
    while st:
        x = st.pop()
        if x in seen or x in rel_blocks:
            continue
        seen.add(x)
        if x == call.bb.id:
            return True
        st.extend(fn.bmap[x].succ)
    return False
