"""C02: uplink decoding (GATE crc==0 before dispatch, FOLD every stored byte folded, RAW delimiter test on the raw byte, ESC sibling constants,
NODROP exactly one dispatch per split message, SAME-EXIT crc failure leaves the caller's control flow unchanged, BND/PROG via intervals)."""
from .. import dispatch, flow, rules
from ..build import AnalysisBroken

LEVEL = "other"


def receiver_roles(w):
    P = w.P
    D = dispatch.Dispatch(w)
    disp = D.fn
    # byte reader callback: indirect call with one pointer argument (success flag) returning i8
    readers = []
    for f in P.repo_functions():
        for i in f.calls():
            if i.callee is None and len(i.args) == 1 and i["ty"] == "i8":
                readers.append((f, i))
    if not readers:
        raise AnalysisBroken("read-callback call sites not found")
    # assembly function: reads bytes and folds them through the CRC table
    asm = None
    for f in {f.name: f for f, i in readers}.values():
        for i in f.all_insts():
            if i.op == "getelementptr" and i["base"].get("k") == "global" and i["base"]["name"] == "bidib_crc_array":
                asm = f
    if asm is None:
        raise AnalysisBroken("packet assembly function (reads bytes and folds the CRC) not found")
    # splitter: allocates a message and calls the dispatcher
    split = None
    for f in P.repo_functions():
        if any(c.callee == disp.name for c in f.calls()) and any(c.callee == "malloc" for c in f.calls()):
            split = f
    if split is None:
        raise AnalysisBroken("packet splitter (malloc + dispatch) not found")
    return D, disp, asm, split, readers


def run(chk, w):
    P = w.P
    D, disp, asm, split, readers = receiver_roles(w)
    MAGIC = w.macro("BIDIB_PKT_MAGIC")
    ESC = w.macro("BIDIB_PKT_ESCAPE")
    chk.explanation = ("Structural necessary conditions of uplink decoding: the splitter/dispatcher is reached only on the 'CRC accumulator == 0' edge and every "
                       "byte stored into the packet buffer is folded into the accumulator (GATE, FOLD); the delimiter and escape tests are applied to the raw "
                       "byte from the read callback, before un-escaping (RAW); the receiver un-escapes with the sender's constant and compares against the same "
                       "two framing bytes (ESC); each message cut out of a packet is dispatched exactly once on every path, whatever its sequence number "
                       "(NODROP); a CRC failure returns to the caller exactly like a good packet (SAME-EXIT); the packet buffer index stays inside the buffer "
                       "and the split loop always advances (BND, PROG). Stream order of delivered fields and round-trip equality are not decided.")
    chk.extra["roles"] = {"assemble": asm.name, "split": split.name, "dispatcher": disp.name}

    # ---- accumulator cell and data cell in the assembly function
    crc_cells = set()
    folds = []
    for i in asm.all_insts():
        if i.op == "store" and i["ptr"].get("k") == "inst" and asm.insts[i["ptr"]["id"]].op == "alloca":
            v = asm.resolve(rules.strip_casts(asm, i["val"]))
            if v is not None and v.op == "load":
                gp = asm.resolve(v["ptr"])
                if gp is not None and gp.op == "getelementptr" and gp["base"].get("k") == "global" and gp["base"]["name"] == "bidib_crc_array" and gp["idx"]:
                    folds.append((i, gp))
                    crc_cells.add(i["ptr"]["id"])
    if not folds:
        raise AnalysisBroken("CRC fold not found in %s" % asm.name)
    data_cells = set()
    for (f, i) in readers:
        if f is asm:
            for s in asm.all_insts():
                if s.op == "store" and s["val"].get("k") == "inst" and s["val"]["id"] == i.id:
                    data_cells.add(s["ptr"]["id"])

    # ---- POLL: a byte is used only after the poll that produced it reported success
    chk.rule("C02-POLL", "the value returned by the read callback is used (stored to a buffer, compared, passed on) only after its success flag was tested")
    for (f, c) in readers:
        flag = f.resolve(rules.strip_casts(f, c.args[0]))
        if flag is None or flag.op != "alloca":
            chk.abstain("C02-POLL", "success flag is not a local", c.loc())
            continue
        tv, tcells = _taint(f, c)
        def is_test(x, f=f, flag=flag):
            if x.op == "br" and "cond" in x.d:
                return any(l["ptr"].get("k") == "inst" and l["ptr"]["id"] == flag.id for l in _cond_loads(f, x["cond"]))
            return False
        def is_sink(x, f=f, tv=tv, tcells=tcells, c=c):
            if x.id == c.id:
                return False
            if x.op == "store":
                if x["val"].get("k") == "inst" and x["val"]["id"] in tv:
                    p_ = f.resolve(x["ptr"])
                    return not (p_ is not None and p_.op == "alloca" and p_.id in tcells)
                return False
            if x.op in ("br", "switch") and "cond" in x.d:
                return any(l.id in tv for l in _cond_loads(f, x["cond"])) or (x["cond"].get("k") == "inst" and x["cond"]["id"] in tv)
            if x.op == "call":
                return any(a.get("k") == "inst" and a["id"] in tv for a in x.args)
            if x.op == "ret" and "val" in x.d:
                return x["val"].get("k") == "inst" and x["val"]["id"] in tv
            return False
        def stop(x, c=c, is_test=is_test):
            # the flag was tested, or another poll overwrites the byte
            return is_test(x) or (x.op == "call" and x.callee is None and x.id != c.id and len(x.args) == 1)
        p_ = rules.exists_path(f, c, is_sink, stop)
        if p_:
            chk.violation("C02-POLL", f.name, "unchecked-poll", c.loc(),
                          "the byte polled at line %d is used at line %d without testing the success flag of that poll (%s): an empty poll injects a garbage byte into the stream" % (c.line, p_[-1].line, rules.path_text(p_)))
        else:
            chk.ok("C02-POLL", 1, {"poll": c.loc(), "function": f.name})
    chk.floor("read_callback_calls", len(readers), 4)

    # ---- GATE
    chk.rule("C02-GATE", "the splitter is called only on the true edge of 'CRC accumulator == 0'")
    calls = [c for c in asm.calls() if c.callee == split.name or rules.call_reaches(P, c, {disp.name})]
    chk.floor("split_calls", len(calls), 1)
    gate_edges = []
    for c in calls:
        ok = False
        for (gd, truth) in rules.branch_conditions(asm, c):
            cnd = asm.resolve(gd["cond"])
            if cnd is not None and cnd.op == "icmp" and cnd["pred"] in ("eq", "ne") and rules.const_of(asm, cnd["b"]) == 0:
                src = rules.load_source(asm, cnd["a"])
                if src and src[0] == "alloca" and src[1] in crc_cells and ((cnd["pred"] == "eq") == truth):
                    ok = True
        if ok:
            chk.ok("C02-GATE", 1, {"call": c.loc()})
        else:
            chk.violation("C02-GATE", asm.name, "crc-gate", c.loc(), "messages of a packet are dispatched without the CRC residue test (accumulator == 0) on this path")

    # ---- FOLD
    chk.rule("C02-FOLD", "every byte stored into the packet buffer is folded into the CRC accumulator in the same block")
    pk_stores = packet_stores(P, asm)
    chk.floor("packet_buffer_stores", len(pk_stores), 1)
    for (s, g, b) in pk_stores:
        same_block = [fd for fd in folds if fd[0].bb is s.bb and fd[0].idx > s.idx]
        ok = False
        for (fst, gp) in same_block:
            x = asm.resolve(rules.strip_casts(asm, gp["idx"][0]["v"]))
            if x is not None and x.op == "xor":
                keys = {rules.expr_key(asm, x["a"]), rules.expr_key(asm, x["b"])}
                stored = rules.expr_key(asm, s["val"])
                reread = ("load", rules.expr_key(asm, s["ptr"]))
                if stored in keys or reread in keys:
                    ok = True
        if ok:
            chk.ok("C02-FOLD", 1, {"store": s.loc()})
        else:
            chk.violation("C02-FOLD", asm.name, "fold", s.loc(), "a byte is stored into the packet buffer without being folded into the CRC accumulator")

    # ---- RAW + ESC
    chk.rule("C02-RAW", "delimiter and escape tests see the raw byte from the read callback (un-escaping happens after them)")
    chk.rule("C02-ESC", "the receiver un-escapes with the sender's xor constant and tests the same two framing bytes")
    xor_stores = []
    for s in asm.all_insts():
        if s.op == "store" and s["ptr"].get("k") == "inst" and s["ptr"]["id"] in data_cells:
            v = asm.resolve(rules.strip_casts(asm, s["val"]))
            if v is not None and v.op == "xor":
                xc = rules.const_of(asm, v["b"])
                if xc is None:
                    # `data ^= mask` with a mask variable that is only ever 0 or the escape constant
                    msrc = rules.load_source(asm, v["b"]) or rules.load_source(asm, v["a"])
                    if msrc and msrc[0] == "alloca":
                        vals = {rules.const_of(asm, st_["val"]) for st_ in asm.all_insts() if st_.op == "store" and st_["ptr"].get("k") == "inst" and st_["ptr"]["id"] == msrc[1]}
                        if None not in vals and vals - {0}:
                            nz = {x & 0xff for x in vals if x}
                            if len(nz) == 1:
                                xc = nz.pop()
                xor_stores.append((s, xc))
    cmps = {}
    for i in asm.all_insts():
        if i.op == "icmp" and i["pred"] in ("eq", "ne"):
            cv = rules.const_of(asm, i["b"])
            src = rules.load_source(asm, i["a"])
            if cv is not None and src and src[0] == "alloca" and src[1] in data_cells:
                cmps.setdefault(cv & 0xff, []).append(i)
        elif i.op == "switch":
            # `switch (data) { case MAGIC: ... case ESCAPE: ... default: ... }` compares the byte with each case constant
            src = rules.load_source(asm, i["cond"])
            if src and src[0] == "alloca" and src[1] in data_cells:
                for cv, cb in i["cases"]:
                    cmps.setdefault(cv & 0xff, []).append(i)
    if MAGIC in cmps and ESC in cmps:
        chk.ok("C02-ESC", 1, {"framing_bytes_tested": [MAGIC, ESC]})
    else:
        chk.violation("C02-ESC", asm.name, "framing-bytes", "%s:%d" % (asm.relfile, asm.line), "the receiver does not test both framing bytes 0x%02X and 0x%02X (tests: %s)" % (MAGIC, ESC, sorted(cmps)))
    if xor_stores and all((c or 0) & 0xff == 0x20 for s, c in xor_stores):
        chk.ok("C02-ESC", 1, {"unescape_xor": 0x20})
    else:
        chk.violation("C02-ESC", asm.name, "unescape", "%s:%d" % (asm.relfile, asm.line), "un-escaping does not xor with 0x20 like the sender (found %s)" % [c for s, c in xor_stores])
    reads = {s.id for s in asm.all_insts() if s.op == "store" and s["ptr"].get("k") == "inst" and s["ptr"]["id"] in data_cells and
             s["val"].get("k") == "inst" and asm.insts[s["val"]["id"]].op == "call"}
    for (xs, c) in xor_stores:
        bad = None
        for cv in (MAGIC, ESC):
            for cmpi in cmps.get(cv, []):
                p = rules.exists_path(asm, xs, lambda x: x.id == cmpi.id, lambda x: x.id in reads)
                if p:
                    bad = (cv, cmpi)
        if bad:
            chk.violation("C02-RAW", asm.name, "unescape-before-test", xs.loc(),
                          "the byte un-escaped at line %d reaches the framing test against 0x%02X at line %d without a fresh read: an escaped payload byte can be taken for a delimiter" % (xs.line, bad[0], bad[1].line))
        else:
            chk.ok("C02-RAW", 1, {"unescape": xs.loc()})
    if not xor_stores:
        chk.violation("C02-RAW", asm.name, "no-unescape", "%s:%d" % (asm.relfile, asm.line), "no un-escaping found")

    delim_rule(chk, asm, "C02-DELIM", cmps, reads, pk_stores, MAGIC)

    # ---- SAME-EXIT
    chk.rule("C02-EXIT", "a CRC failure returns to the caller exactly like a good packet (no extra resynchronisation)")
    if asm.ret == "void":
        chk.ok("C02-EXIT", 1, {"returns": "void"})
    else:
        # values returned on the 'CRC ok' side and on the 'CRC wrong' side must not differ
        ret_points = []     # (inst, constant or None)
        for r in asm.all_insts():
            if r.op == "ret" and "val" in r.d:
                src = rules.load_source(asm, r["val"])
                if src and src[0] == "alloca":
                    for st_ in asm.all_insts():
                        if st_.op == "store" and st_["ptr"].get("k") == "inst" and st_["ptr"]["id"] == src[1]:
                            ret_points.append((st_, rules.const_of(asm, st_["val"])))
                else:
                    ret_points.append((r, rules.const_of(asm, r["val"])))
        ids = {p.id for p, c in ret_points}
        sides = {True: set(), False: set()}
        for b in asm.blocks:
            t = b.term
            if t.op == "br" and "cond" in t.d:
                cnd = asm.resolve(t["cond"])
                if cnd is not None and cnd.op == "icmp" and cnd["pred"] in ("eq", "ne") and rules.const_of(asm, cnd["b"]) == 0:
                    cs = rules.load_source(asm, cnd["a"])
                    if cs and cs[0] == "alloca" and cs[1] in crc_cells:
                        for succ, truth in ((t["t"], cnd["pred"] == "eq"), (t["f"], cnd["pred"] != "eq")):
                            first = asm.bmap[succ].insts[0]
                            for (p, c) in ret_points:
                                if rules.exists_path(asm, first, lambda x, p=p: x.id == p.id, lambda x, p=p: x.id in ids and x.id != p.id, include_start=True):
                                    sides[truth].add(c if c is None else c & 1)
        if sides[True] and sides[False] and sides[True] != sides[False]:
            chk.violation("C02-EXIT", asm.name, "crc-dependent-result", "%s:%d" % (asm.relfile, asm.line),
                          "the assembly routine can return %s after a good packet but %s after a CRC failure: a bad packet changes how the caller continues (later packets can be swallowed)" % (sorted(map(str, sides[True])), sorted(map(str, sides[False]))))
        else:
            chk.ok("C02-EXIT", 1, {"returns": "same on both CRC outcomes", "ok_side": sorted(map(str, sides[True])), "bad_side": sorted(map(str, sides[False]))})

    # ---- NODROP in the splitter
    chk.rule("C02-NODROP", "every message cut out of a packet is handed to the dispatcher exactly once on every path (sequence-number mismatch included)")
    mallocs = [c for c in split.calls("malloc")]
    dcalls = [c for c in split.calls(disp.name)]
    chk.floor("split_dispatch_calls", len(dcalls), 1)
    for m in mallocs:
        head_first = {split.bmap[h].insts[0].id for h, body in split.loops().items() if m.bb.id in body}
        def done(x):
            return x.op == "ret" or (x.id in head_first) or (x.op == "call" and x.callee == "malloc" and x.id != m.id)
        p = rules.exists_path(split, m, done, lambda x: x.op == "call" and x.callee == disp.name)
        if p:
            chk.violation("C02-NODROP", split.name, "dropped-message", m.loc(), "a message allocated at line %d can reach the next iteration/return without being dispatched (%s)" % (m.line, rules.path_text(p)))
        else:
            chk.ok("C02-NODROP", 1, {"allocation": m.loc()})
    for d in dcalls:
        p = rules.exists_path(split, d, lambda x: x.op == "call" and x.callee == disp.name, lambda x: x.op == "call" and x.callee == "malloc")
        if p:
            chk.violation("C02-NODROP", split.name, "double-dispatch", d.loc(), "a message can be dispatched twice (%s)" % rules.path_text(p))
        else:
            chk.ok("C02-NODROP", 1, {"dispatch": d.loc()})
        # the dispatched pointer is the allocated one
        marg = d.args[D.mparam]
        if any(t[0] == "call" and t[1] == "malloc" for t in flow.origins(split, marg)):
            chk.ok("C02-NODROP", 1)
        else:
            chk.violation("C02-NODROP", split.name, "dispatch-argument", d.loc(), "the dispatched buffer is not the message allocated for this iteration")

    # ---- BND / PROG via the interval engine
    from .. import intervals
    E = intervals.Engine(w, set())
    chk.rule("C02-BND", "the packet buffer index stays inside the packet buffer; the split copy reads inside the packet")
    fa = E.analysis(asm)
    for (gep, base) in intervals.array_accesses(P, asm):
        if base[0] == "local":
            ok, detail = intervals.check_gep(fa, gep, base)
            if ok:
                chk.ok("C02-BND", 1, {"access": gep.loc(), "array": base[1]})
            else:
                chk.violation("C02-BND", asm.name, base[1], gep.loc(), "access to the %d-byte packet buffer '%s' is not bounded: %s" % (base[2], base[1], detail))
    chk.rule("C02-PROG", "every iteration of the split loop advances the read position by at least one byte")
    _progress(chk, w, E, split)
    state_rule(chk, asm, [i for (f, i) in readers if f is asm], cmps, MAGIC)
    term_rule(chk, w, D, split)
    pad_rule(chk, w, split)


def pad_rule(chk, w, split):
    """PAD: the address handed to the dispatcher is rebuilt completely for every message.  The extractor that fills the splitter's address array writes all of
    its bytes on every call (copies up to the terminator, then pads with zeros up to the array size), so no byte of the previous message's address survives."""
    P = w.P
    chk.rule("C02-PAD", "the address extractor writes every byte of the caller's address array on every call (copy up to the terminator, zero padding up to the array size): "
                        "a shallower address after a deeper one in the same packet does not inherit stale bytes")
    n = 0
    for c in split.calls():
        g = P.functions.get(c.callee or "")
        if g is None or not g.blocks or g.ret != "void" or len(c.args) != 2:
            continue
        # second argument: a local array of the splitter
        b = split.resolve(rules.strip_casts(split, c.args[1])) if c.args[1].get("k") == "inst" else None
        while b is not None and b.op in ("getelementptr", "bitcast"):
            o_ = b["base"] if b.op == "getelementptr" else b["a"]
            b = split.resolve(o_) if o_.get("k") == "inst" else None
        if b is None or b.op != "alloca" or not str(b.get("aty", "")).startswith("["):
            continue
        size = int(str(b["aty"])[1:].split(" ")[0])
        # stores through parameter 1 of g
        sts = []
        for s_ in g.all_insts():
            if s_.op == "store" and s_["ptr"].get("k") == "inst":
                gp = g.resolve(s_["ptr"])
                if gp is not None and gp.op == "getelementptr":
                    src = rules.load_source(g, gp["base"])
                    if src and src[0] == "alloca" and g.param_index_of_alloca(g.insts[src[1]]) == 1:
                        sts.append((s_, gp))
                elif gp is not None and gp.op == "load" and gp["ptr"].get("k") == "inst" and g.insts[gp["ptr"]["id"]].op == "alloca" and \
                        _cursor_into(g, gp["ptr"]["id"], 1):
                    sts.append((s_, gp))           # `*out = ...` with out a running pointer into the output array
        if not sts:
            continue
        n += 1
        # a zero store through the output parameter inside a loop whose continuation test is `index < size`
        padded = False
        for (s_, gp) in sts:
            if rules.const_of(g, s_["val"]) == 0 and gp.op == "load":
                # pointer form: the loop continues while `out < dest + size`
                for h, body in g.loops().items():
                    if s_.bb.id not in body:
                        continue
                    for bb in body:
                        t = g.bmap[bb].term
                        if t.op == "br" and "cond" in t.d and (t["t"] not in body or t["f"] not in body):
                            cnd = g.resolve(t["cond"])
                            if cnd is None or cnd.op != "icmp" or cnd["pred"] not in ("slt", "ult", "ne"):
                                continue
                            la = g.resolve(rules.strip_casts(g, cnd["a"]))
                            e_ = g.resolve(rules.resolve_local(g, rules.strip_casts(g, cnd["b"])))
                            if la is not None and la.op == "load" and la["ptr"] == gp["ptr"] and e_ is not None and e_.op == "getelementptr" and \
                                    not e_["idx"] and e_["off"] == size:
                                bs = rules.load_source(g, e_["base"])
                                if bs and bs[0] == "alloca" and g.param_index_of_alloca(g.insts[bs[1]]) == 1:
                                    padded = True
                continue
            if rules.const_of(g, s_["val"]) != 0 or not gp["idx"]:
                continue
            isrc = rules.load_source(g, gp["idx"][-1]["v"])
            for h, body in g.loops().items():
                if s_.bb.id not in body:
                    continue
                for bb in body:
                    t = g.bmap[bb].term
                    if t.op == "br" and "cond" in t.d and (t["t"] not in body or t["f"] not in body):
                        cnd = g.resolve(t["cond"])
                        if cnd is not None and cnd.op == "icmp" and cnd["pred"] in ("slt", "ult", "ne") and rules.const_of(g, cnd["b"]) == size and \
                                isrc is not None and rules.load_source(g, cnd["a"]) == isrc:
                            padded = True
        # ... and that loop is reached on every path (it post-dominates the entry)
        if padded:
            chk.ok("C02-PAD", 1, {"extractor": g.name, "array_bytes": size})
        else:
            # or the caller clears the array itself in every iteration, before the call
            cleared = False
            for mc in split.calls():
                if mc.callee and (mc.callee.startswith("llvm.memset") or mc.callee.startswith("llvm.memcpy")) and split.dominates(mc, c):
                    d_ = split.resolve(rules.strip_casts(split, mc.args[0])) if mc.args[0].get("k") == "inst" else None
                    while d_ is not None and d_.op in ("getelementptr", "bitcast"):
                        o_ = d_["base"] if d_.op == "getelementptr" else d_["a"]
                        d_ = split.resolve(o_) if o_.get("k") == "inst" else None
                    if d_ is not None and d_.id == b.id and rules.const_of(split, mc.args[2]) == size and \
                            all((mc.bb.id in body) == (c.bb.id in body) for h, body in split.loops().items()):
                        cleared = True
            if cleared:
                chk.ok("C02-PAD", 1, {"extractor": g.name, "array_cleared_by_caller_per_message": True})
            else:
                chk.violation("C02-PAD", g.name, "address-padding", c.loc(), "%s does not write all %d bytes of the address array it is given at line %d (no zero padding up to the array size) and the "
                              "caller does not clear the array per message: a message from a shallower node inherits address bytes of the previous message" % (g.name, size, c.line))
    chk.floor("address_extractor_calls", n, 1)


def _index_plus(f, o):
    """operand = (load of an integer local) + constant (through casts) -> (alloca id, constant, load id); the scan position may also be a running
    pointer into the message: `cursor + c` as a pointer, or `(cursor - message) + c` as a position"""
    k = 0
    for _ in range(10):
        if o.get("k") != "inst":
            return None
        i = f.insts[o["id"]]
        if i.op in ("zext", "sext", "trunc", "ptrtoint", "bitcast"):
            o = i["a"]
        elif i.op == "getelementptr" and not i["idx"]:
            k += i["off"]
            o = i["base"]
        elif i.op == "sub" and rules.const_of(f, i["b"]) is None:
            # cursor - message: the position of the cursor
            b = f.resolve(rules.strip_casts(f, i["b"]))
            if b is not None and b.op == "ptrtoint":
                b = f.resolve(rules.strip_casts(f, b["a"]))
            if b is None or b.op != "load" or b["ptr"].get("k") != "inst" or f.param_index_of_alloca(f.insts[b["ptr"]["id"]]) is None:
                return None
            o = i["a"]
        elif i.op in ("add", "sub"):
            c = rules.const_of(f, i["b"])
            if c is None:
                return None
            k += c if i.op == "add" else -c
            o = i["a"]
        elif i.op == "load":
            p_ = i["ptr"]
            if p_.get("k") == "inst" and f.insts[p_["id"]].op == "alloca" and str(f.insts[p_["id"]].get("aty", "")).startswith("i"):
                a_ = f.insts[p_["id"]]
                if str(a_.get("aty", "")).endswith("*") and f.param_index_of_alloca(a_) is not None:
                    return None
                return p_["id"], k, i.id
            return None
        else:
            return None
    return None


def _cursor_into(f, aid, mparam):
    """the local pointer only ever points into the message parameter: assigned `message + c` or itself + c"""
    a = f.insts[aid]
    if f.param_index_of_alloca(a) is not None or rules._escapes(f, a):
        return False
    sts = [x for x in f.all_insts() if x.op == "store" and x["ptr"].get("k") == "inst" and x["ptr"]["id"] == aid]
    from_msg = 0
    for x in sts:
        o = x["val"]
        for _ in range(6):
            v = f.resolve(rules.strip_casts(f, o))
            if v is not None and v.op == "getelementptr":
                o = v["base"]
                continue
            break
        if v is None or v.op != "load" or v["ptr"].get("k") != "inst":
            return False
        if v["ptr"]["id"] == aid:
            continue
        if f.param_index_of_alloca(f.insts[v["ptr"]["id"]]) == mparam:
            from_msg += 1
            continue
        return False
    return from_msg >= 1


def _msg_elem(f, o, mparam):
    """operand is a load of message[index + c] (message = pointer parameter mparam) -> (index alloca id, c)"""
    if o.get("k") != "inst":
        return None
    i = f.insts[o["id"]]
    for _ in range(4):
        if i.op in ("zext", "sext", "trunc"):
            if i["a"].get("k") != "inst":
                return None
            i = f.insts[i["a"]["id"]]
    if i.op != "load":
        return None
    g = f.resolve(i["ptr"])
    # `cursor[c]` / `*cursor` with cursor a running pointer into the message
    cp = _index_plus(f, i["ptr"]) if i["ptr"].get("k") == "inst" else None
    if cp is not None and str(f.insts[cp[0]].get("aty", "")).endswith("*") and _cursor_into(f, cp[0], mparam):
        return cp
    if g is None or g.op != "getelementptr" or not g["idx"]:
        return None
    src = rules.load_source(f, g["base"])
    if not src or src[0] != "alloca" or f.param_index_of_alloca(f.insts[src[1]]) != mparam:
        return None
    ix = g["idx"][-1]
    if len(g["idx"]) != 1 or ix.get("scale") != 1:
        return None
    ip = _index_plus(f, ix["v"])
    return (ip[0], ip[1] + (g.get("off") or 0), ip[2]) if ip else None


def term_rule(chk, w, D, split):
    """TERM: the field extractors locate sequence number, type and data relative to the 0x00 that ends the address stack.  Every value an
    extractor returns is computed from a scan index for which `message[index] == 0` was established on every path since the index last
    changed (forward must-analysis of the index's offset from the terminator), and the offsets are the protocol's: seq +1, type +2, data +3."""
    P = w.P
    chk.rule("C02-TERM", "each field extractor derives its result from the position of the address stack's terminating 0x00 (established on every path), "
                         "at the offsets of the wire layout: sequence number +1, type +2, first data byte +3")
    # role of the type extractor: its result is the dispatcher's type argument
    type_fns = set()
    for c in split.calls(D.fn.name):
        if D.tparam < len(c.args):
            o = rules.resolve_local(split, rules.strip_casts(split, c.args[D.tparam]))
            ci = split.resolve(o) if o.get("k") == "inst" else None
            if ci is not None and ci.op == "call" and ci.callee in P.functions:
                type_fns.add(ci.callee)
    n = 0
    byte_offsets = {}
    for f in P.repo_functions():
        if not f.blocks or not f.relfile.startswith("src/transmission/") or f.ret == "void":
            continue
        # terminator tests: message[i + 0] ==/!= 0 with message a pointer parameter
        tests = []
        for i in f.all_insts():
            if i.op == "icmp" and i["pred"] in ("eq", "ne") and rules.const_of(f, i["b"]) == 0:
                for mp in range(len(f.params)):
                    if f.params[mp]["type"] != "i8*":
                        continue
                    e = _msg_elem(f, i["a"], mp)
                    if e and e[1] == 0:
                        tests.append((i, e[0], mp))
        if not tests:
            continue
        idx = tests[0][1]
        mp = tests[0][2]
        if any(t[1] != idx for t in tests):
            continue
        # establishing edges
        est = set()
        for b in f.blocks:
            t = b.term
            if t.op == "br" and "cond" in t.d and t["t"] != t.get("f"):
                for (ti, _, _) in tests:
                    for truth in (True, False):
                        if _is_cmp(f, t["cond"], ti, truth):
                            est.add((b.id, t["t"] if truth else t["f"]))
        # forward must-analysis: offset of the index from the terminator (None = unknown)
        TOP = "?"
        inn = {b.id: None for b in f.blocks}         # None = unreached
        inn[f.blocks[0].id] = TOP
        out_edge = {}
        results = []
        changed = True
        rounds = 0
        load_state = {}
        def flow_block(b, st, collect):
            for x in b.insts:
                if collect and x.op == "load" and x["ptr"].get("k") == "inst" and x["ptr"]["id"] == idx:
                    load_state[x.id] = st
                if x.op == "store" and x["ptr"].get("k") == "inst":
                    if x["ptr"]["id"] == idx:
                        ip = _index_plus(f, x["val"])
                        st = st + ip[1] if (ip and ip[0] == idx and st != TOP) else TOP
                    elif collect and retcell is not None and x["ptr"]["id"] == retcell:
                        results.append((x, x["val"], st))
                elif collect and x.op == "ret" and "val" in x.d and retcell is None:
                    results.append((x, x["val"], st))
            return st
        retcell = None
        for r in f.all_insts():
            if r.op == "ret" and "val" in r.d:
                src = rules.load_source(f, r["val"])
                if src and src[0] == "alloca" and f.param_index_of_alloca(f.insts[src[1]]) is None and src[1] != idx:
                    retcell = src[1]
        while changed and rounds < 50:
            changed = False
            rounds += 1
            for b in f.blocks:
                if inn[b.id] is None:
                    continue
                st = flow_block(b, inn[b.id], False)
                for s_ in b.succ:
                    v = 0 if (b.id, s_) in est else st
                    old = inn[s_]
                    new = v if old is None else (old if old == v else TOP)
                    if new != old:
                        inn[s_] = new
                        changed = True
        for b in f.blocks:
            if inn[b.id] is not None:
                flow_block(b, inn[b.id], True)
        def leaves(o, depth=0):
            """alternatives of a result value: through phi / select and locals that are assigned once"""
            if depth > 6 or o.get("k") != "inst":
                return [o]
            o = rules.resolve_local(f, o)
            if o.get("k") != "inst":
                return [o]
            i_ = f.insts[o["id"]]
            if i_.op == "phi":
                return [l for (_, v) in i_["incoming"] for l in leaves(v, depth + 1)]
            if i_.op == "select":
                return leaves(i_["a"], depth + 1) + leaves(i_["b"], depth + 1)
            if i_.op in ("zext", "sext", "trunc") and _index_plus(f, o) is None and _msg_elem(f, o, mp) is None:
                return leaves(i_["a"], depth + 1)
            return [o]
        results = [(x, l, st) for (x, val, st) in results for l in leaves(val)]
        for (x, val, st) in results:
            if rules.const_of(f, val) is not None:
                continue
            ip = _index_plus(f, val)
            me = _msg_elem(f, val, mp)
            if ip and ip[0] == idx:
                kind, off, st = "position", ip[1], load_state.get(ip[2], TOP)
            elif me and me[0] == idx:
                kind, off, st = "byte", me[1], load_state.get(me[2], TOP)
            else:
                continue
            n += 1
            if st == TOP:
                chk.violation("C02-TERM", f.name, "unterminated:%s" % kind, x.loc(),
                              "%s returns a %s computed from the scan index although the address stack's terminating 0x00 was not found at that index on every path "
                              "(a bound on the scan ends it elsewhere): seq/type/data are read at the wrong offset for some address depth" % (f.name, "position" if kind == "position" else "message byte"))
                continue
            rel = st + off
            if kind == "position":
                if rel == 3:
                    chk.ok("C02-TERM", 1, {"function": f.name, "returns": "terminator+3 (first data byte)"})
                else:
                    chk.violation("C02-TERM", f.name, "offset:position", x.loc(), "%s returns terminator%+d as the first data byte index; the wire layout puts it at terminator+3" % (f.name, rel))
            else:
                byte_offsets.setdefault(f.name, []).append((rel, x))
    for fn_, lst in sorted(byte_offsets.items()):
        for rel, x in lst:
            want = 2 if fn_ in type_fns else (1 if type_fns else None)
            if want is None:
                chk.abstain("C02-TERM", "type extractor not identified through the dispatcher call", fn_)
            elif rel == want:
                chk.ok("C02-TERM", 1, {"function": fn_, "returns": "message[terminator+%d] (%s)" % (rel, "type" if want == 2 else "sequence number")})
            else:
                chk.violation("C02-TERM", fn_, "offset:byte", x.loc(), "%s returns message[terminator%+d]; the wire layout puts the %s at terminator+%d" % (fn_, rel, "type" if want == 2 else "sequence number", want))
    chk.floor("extractor_results", n, 3)


def state_rule(chk, asm, polls, cmps, MAGIC):
    """STATE: the framing state is per packet.  Every byte poll that follows a delimiter (the next packet starts there) finds each
    loop-carried scalar local of the assembly function (write index, escape flag, CRC accumulator, oversize flag ...) holding the constant it
    was initialised with.  Decided by exploring the function over abstract values of exactly those locals (constant / known non-zero /
    overwritten), so that `index == 0` on an edge selects the states in which nothing was accumulated."""
    from .. import cellstate
    chk.rule("C02-STATE", "every byte poll that follows a delimiter finds the per-packet framing state (index, escape flag, CRC accumulator, oversize flag) "
                          "at its initial values: neither a discarded packet nor a stray escape or delimiter leaks state into the next packet")
    pollids = {i.id for i in polls}
    # cells: non-escaping integer locals with a constant initialisation in the entry block that are loop carried across a poll
    cells = {}
    init = {}
    for a in asm.all_insts():
        if a.op != "alloca" or not str(a.get("aty", "")).startswith("i"):
            continue
        uses_ok = True
        for u in asm.all_insts():
            for k_, v_ in u.d.items():
                if k_ in ("loc",):
                    continue
                vs = v_ if isinstance(v_, list) else [v_]
                for v in vs:
                    if isinstance(v, dict) and v.get("k") == "inst" and v.get("id") == a.id:
                        if not ((u.op == "load" and k_ == "ptr") or (u.op == "store" and k_ == "ptr") or (u.op == "call" and (u.callee or "").startswith("llvm.dbg"))):
                            uses_ok = False
        if not uses_ok:
            continue
        # the initialisation: a store of a constant that dominates every other access of the local
        acc = [x for x in asm.all_insts() if x.op in ("load", "store") and x["ptr"].get("k") == "inst" and x["ptr"]["id"] == a.id]
        first = None
        for s_ in acc:
            if s_.op == "store" and rules.const_of(asm, s_["val"]) is not None and all(asm.dominates(s_, x) for x in acc):
                first = rules.const_of(asm, s_["val"])
                break
        if first is None:
            continue
        carried = False
        for pl in polls:
            def is_load(x, a=a):
                return x.op == "load" and x["ptr"].get("k") == "inst" and x["ptr"]["id"] == a.id
            def is_store(x, a=a):
                return x.op == "store" and x["ptr"].get("k") == "inst" and x["ptr"]["id"] == a.id
            if rules._exists_path_plain(asm, pl, is_load, is_store, False, 200000):
                carried = True
                break
        if carried:
            cells[a.id] = {"bool": asm.is_bool_alloca(a), "name": a.get("var") or "local%d" % a.id}
            init[a.id] = first & 1 if asm.is_bool_alloca(a) else first
    if len(cells) < 2:
        chk.abstain("C02-STATE", "fewer than two loop-carried framing locals found in %s" % asm.name, asm.name)
        return
    # delimiter edges
    dedges = set()
    for ci in cmps.get(MAGIC, []):
        if ci.op == "icmp":
            for b in asm.blocks:
                t = b.term
                if t.op == "br" and "cond" in t.d and t["t"] != t.get("f"):
                    for truth in (True, False):
                        if _is_cmp(asm, t["cond"], ci, truth):
                            dedges.add((b.id, t["t"] if truth else t["f"]))
        elif ci.op == "switch":
            for cv, cl in ci["cases"]:
                if cv & 0xff == MAGIC:
                    dedges.add((ci.bb.id, cl))
    if not dedges:
        chk.abstain("C02-STATE", "delimiter edge not found in %s" % asm.name, asm.name)
        return
    cell_allocas = set(cells)
    def cond_on_other_local(t):
        """the branch tests a local that is not a tracked cell and not the polled byte / its success flag"""
        for l in _cond_loads(asm, t["cond"]) if "cond" in t.d else []:
            if l["ptr"].get("k") == "inst":
                x = asm.insts[l["ptr"]["id"]]
                if x.op == "alloca" and x.id not in cell_allocas:
                    return True
        return False
    W = cellstate.CellWalk(asm, cells)
    bad = {}
    opaque = {}

    def on_inst(inst, st, key):
        fresh, opq = st[2]
        if inst.id in pollids and fresh:
            for c in W.order:
                v = st[0][W.pos[c]]
                if v != ("c", init[c]):
                    (opaque if opq else bad).setdefault(c, (inst, v, key))
            return (False, False)
        if fresh and inst.op in ("br", "switch") and "cond" in inst.d and cond_on_other_local(inst):
            return (fresh, True)
        if inst.op == "ret":
            return (False, False)
        return None

    def on_edge(b, s, st):
        if (b.id, s) in dedges:
            return (True, False)
        return None
    try:
        n = W.run((True, False), on_inst, on_edge)
    except cellstate.Truncated:
        chk.abstain("C02-STATE", "state exploration of %s truncated" % asm.name, asm.name)
        return
    chk.extra["framing_state"] = {"cells": {cells[c]["name"]: init[c] for c in W.order}, "explored_states": n, "delimiter_edges": len(dedges)}
    for c in W.order:
        nm = cells[c]["name"]
        if c in bad:
            inst, v, key = bad[c]
            lines = []
            k = key
            for _ in range(40):
                if k is None:
                    break
                lines.append(asm.bmap[k[0]].insts[0].line)
                k = W.parent.get(k)
            what = "holds %d" % v[1] if v != cellstate.T and v[0] == "c" else ("is non-zero" if v != cellstate.T else "still holds a value computed for the previous frame")
            chk.violation("C02-STATE", asm.name, "state:%s" % nm, inst.loc(),
                          "the byte poll at line %d can follow a delimiter while '%s' %s (initial value %d; blocks at lines %s): the next packet is decoded with state left over from "
                          "the frame before it" % (inst.line, nm, what, init[c], " < ".join(str(x) for x in lines[:12] if x)))
        elif c in opaque:
            chk.abstain("C02-STATE", "'%s' not shown initial at a poll after a delimiter, but the path tests locals the analysis does not track" % nm, asm.name)
        else:
            chk.ok("C02-STATE", 1, {"cell": nm, "initial": init[c]})


def _is_cmp(f, cond, cmp_inst, truth):
    """the branch condition, holding with `truth`, means the comparison `cmp_inst` found equality"""
    pol = truth
    o = cond
    for _ in range(8):
        if o.get("k") != "inst":
            return False
        i = f.insts[o["id"]]
        if i.id == cmp_inst.id:
            return pol == (i["pred"] == "eq")
        if i.op in ("zext", "sext", "trunc"):
            o = i["a"]
        elif i.op == "xor" and rules.const_of(f, i["b"]) in (1, -1):
            pol = not pol
            o = i["a"]
        elif i.op == "icmp" and i["pred"] in ("eq", "ne") and rules.const_of(f, i["b"]) == 0:
            if i["pred"] == "eq":
                pol = not pol
            o = i["a"]
        else:
            return False
    return False


def _progress(chk, w, E, split):
    """outer loop `for (i = 0; i < n; i += j)`: at the increment j >= 1"""
    fa = E.analysis(split)
    found = False
    for s in split.all_insts():
        if s.op != "store" or s["ptr"].get("k") != "inst" or s["ptr"]["id"] not in fa.cells:
            continue
        v = split.resolve(rules.strip_casts(split, s["val"]))
        if v is None or v.op != "add":
            continue
        a = split.resolve(rules.strip_casts(split, v["a"]))
        b = split.resolve(rules.strip_casts(split, v["b"]))
        def is_load_of(x, cell):
            return x is not None and x.op == "load" and x["ptr"].get("k") == "inst" and x["ptr"]["id"] == cell
        other = None
        if is_load_of(a, s["ptr"]["id"]) and b is not None and b.op == "load":
            other = v["b"]
        elif is_load_of(b, s["ptr"]["id"]) and a is not None and a.op == "load":
            other = v["a"]
        if other is None:
            continue
        # only loop-carried position updates: the store lies in a loop whose head tests the same cell
        if not any(s.bb.id in body for body in split.loops().values()):
            continue
        found = True
        lo = None
        for st in fa.pre.get(s.id, []):
            iv = fa.iv(other, st)
            lo = iv[0] if lo is None else min(lo, iv[0])
        if lo is not None and lo >= 1:
            chk.ok("C02-PROG", 1, {"advance": s.loc(), "step_lower_bound": lo})
        else:
            chk.violation("C02-PROG", split.name, "no-progress", s.loc(), "the read position may advance by %s bytes: a zero step stalls the receiver" % lo)
    if not found:
        chk.abstain("C02-PROG", "position update 'i += j' not recognised", split.name)


def delim_rule(chk, asm, rid, cmps, reads, pk_stores, MAGIC):
    # ---- DELIM: the delimiter is never taken for payload (also not right after an escape byte)
    chk.rule(rid, "every byte is compared with the packet delimiter before it can be stored as payload: 0xFE always ends/starts a packet, so a truncated packet cannot swallow the next one")
    magic_cmps = {c.id for c in cmps.get(MAGIC, [])}
    for (ps, g_, b_) in pk_stores:
        bad = None
        for rd_id in sorted(reads):
            rd = asm.insts[rd_id]
            p = rules.exists_path(asm, rd, lambda x, ps=ps: x.id == ps.id, lambda x: x.id in magic_cmps or (x.id in reads and x.id != rd_id))
            if p:
                bad = (rd, p)
                break
        if bad:
            chk.violation(rid, asm.name, "payload-without-delimiter-test", ps.loc(),
                          "the byte read at line %d can be stored into the packet at line %d without having been compared with the delimiter 0x%02X (%s): after an escape byte a delimiter is swallowed and the following packet is lost" % (
                              bad[0].line, ps.line, MAGIC, rules.path_text(bad[1])))
        else:
            chk.ok(rid, 1, {"store": ps.loc()})



def delim_standalone(chk, w, rid):
    """the delimiter rule for another property driver (C12: a truncated packet must not stop later packets)"""
    P = w.P
    D, disp, asm, split, readers = receiver_roles(w)
    MAGIC = w.macro("BIDIB_PKT_MAGIC")
    data_cells = set()
    for (f, i) in readers:
        if f is asm:
            for s in asm.all_insts():
                if s.op == "store" and s["val"].get("k") == "inst" and s["val"]["id"] == i.id:
                    data_cells.add(s["ptr"]["id"])
    cmps = {}
    for i in asm.all_insts():
        if i.op == "icmp" and i["pred"] in ("eq", "ne"):
            cv = rules.const_of(asm, i["b"])
            src = rules.load_source(asm, i["a"])
            if cv is not None and src and src[0] == "alloca" and src[1] in data_cells:
                cmps.setdefault(cv & 0xff, []).append(i)
        elif i.op == "switch":
            # `switch (data) { case MAGIC: ... case ESCAPE: ... default: ... }` compares the byte with each case constant
            src = rules.load_source(asm, i["cond"])
            if src and src[0] == "alloca" and src[1] in data_cells:
                for cv, cb in i["cases"]:
                    cmps.setdefault(cv & 0xff, []).append(i)
    reads = {s.id for s in asm.all_insts() if s.op == "store" and s["ptr"].get("k") == "inst" and s["ptr"]["id"] in data_cells and
             s["val"].get("k") == "inst" and asm.insts[s["val"]["id"]].op == "call"}
    pk_stores = packet_stores(P, asm)
    if not pk_stores or not reads:
        raise AnalysisBroken("packet buffer stores / byte reads not found in %s" % asm.name)
    delim_rule(chk, asm, rid, cmps, reads, pk_stores, MAGIC)


def packet_stores(P, asm):
    """stores into a local array of the assembler: (store, address computation or None, array) - by subscript, or through a running write pointer that only
    ever points into that array (`*write_pos = data; write_pos++`)"""
    from .. import intervals
    out = []
    pc = intervals.pointer_cells(P, asm)
    for i in asm.all_insts():
        if i.op != "store":
            continue
        g = asm.resolve(i["ptr"])
        if g is not None and g.op == "getelementptr" and g["idx"]:
            b = _array_base(asm, g)
            if b is not None and b.op == "alloca" and b["aty"].startswith("["):
                out.append((i, g, b))
                continue
        q = g
        while q is not None and q.op in ("getelementptr", "bitcast"):
            o_ = q["base"] if q.op == "getelementptr" else q["a"]
            q = asm.resolve(o_) if o_.get("k") == "inst" else None
        if q is not None and q.op == "load" and q["ptr"].get("k") == "inst" and q["ptr"]["id"] in pc and pc[q["ptr"]["id"]][0][0] == "L":
            out.append((i, None, asm.insts[pc[q["ptr"]["id"]][0][1]]))
    return out


def _array_base(f, gep):
    """the object a subscript finally indexes: follows `&array[0]` decays and casts (an array handed to an inlined helper as a pointer)"""
    b = f.resolve(gep["base"])
    for _ in range(4):
        if b is None:
            return None
        if b.op == "bitcast":
            b = f.resolve(b["a"])
        elif b.op == "getelementptr" and not b["idx"] and b.get("off", 0) == 0:
            b = f.resolve(b["base"])
        else:
            break
    return b


def _cond_loads(f, o, depth=0, seen=None):
    """loads feeding a condition through compares, casts and bit operations"""
    seen = seen if seen is not None else set()
    i = f.resolve(o) if o and o.get("k") == "inst" else None
    if i is None or depth > 8 or i.id in seen:
        return []
    seen.add(i.id)
    if i.op == "load":
        return [i]
    out = []
    for k in ("a", "b", "cond"):
        if k in i.d and isinstance(i[k], dict):
            out += _cond_loads(f, i[k], depth + 1, seen)
    if i.op == "phi":
        for b, v in i["incoming"]:
            out += _cond_loads(f, v, depth + 1, seen)
    return out


def _taint(f, c):
    """values derived from the result of call c (through casts/arithmetic and the locals it is stored into); returns (value ids, cell ids)"""
    tv = {c.id}
    cells = set()
    changed = True
    while changed:
        changed = False
        for i in f.all_insts():
            if i.id in tv:
                continue
            if i.op == "store":
                if i["val"].get("k") == "inst" and i["val"]["id"] in tv:
                    p_ = f.resolve(i["ptr"])
                    if p_ is not None and p_.op == "alloca" and p_.id not in cells and "size" in p_.d and (p_.get("size") or 0) <= 8:
                        cells.add(p_.id)
                        changed = True
                continue
            hit = False
            if i.op == "load":
                hit = i["ptr"].get("k") == "inst" and i["ptr"]["id"] in cells
            elif i.op in ("zext", "sext", "trunc", "xor", "and", "or", "add", "sub", "icmp", "shl", "lshr"):
                hit = any(k in i.d and isinstance(i[k], dict) and i[k].get("k") == "inst" and i[k]["id"] in tv for k in ("a", "b"))
            if hit:
                tv.add(i.id)
                changed = True
    return tv, cells
