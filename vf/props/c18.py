"""C18: low-level send functions (ONE transmit per accepted call / none on rejection, TYPE literal < 0x80, LEN data_length + 7 <= 128,
BND buffers of the constructors and encoders, RANGE documented parameter ranges = accepted set)."""
import glob, os, re

from .. import intervals, pathwalk, rules, sendapi
from ..build import AnalysisBroken

LEVEL = "other"


def documented_ranges(repo):
    """(function, param) -> (lo, hi, divisor or None) from '@param name ..., range A...B. Must be divisible by N.' in include/lowlevel/*.h"""
    out = {}
    for path in sorted(glob.glob(os.path.join(repo, "include", "lowlevel", "*.h"))):
        src = open(path, errors="replace").read()
        for m in re.finditer(r"/\*\*(.*?)\*/\s*(?:[A-Za-z_][\w\s\*]*?)\b(bidib_\w+)\s*\(", src, re.S):
            doc, fn = m.group(1), m.group(2)
            doc1 = re.sub(r"\n\s*\*", " ", doc)
            for pm in re.finditer(r"@param\s+(\w+)\s+(.*?)(?=@param|@return|$)", doc1, re.S):
                name, text = pm.group(1), pm.group(2)
                rm = re.search(r"(?<!value )range\s+(0x[0-9a-fA-F]+|\d+)\s*(?:\.\.\.|…)\s*(0x[0-9a-fA-F]+|\d+)", text)
                dm = re.search(r"divisible by\s+(\d+)", text)
                if rm or dm:
                    lo = int(rm.group(1), 0) if rm else 0
                    hi = int(rm.group(2), 0) if rm else 255
                    out[(fn, name)] = (lo, hi, int(dm.group(1)) if dm else None, os.path.relpath(path, repo))
                    continue
                # bit layout of one byte: '100HHHHH, hour indication, value range 0...23' / '01000www, ... 0=Monday, ... 6=Sunday' / '110fffff, ...'
                bm = re.match(r"\s*([01]+)([A-Za-z])\2*\s*,", text)
                if bm and len(re.match(r"\s*([01]+[A-Za-z]+)", text).group(1)) == 8:
                    prefix = bm.group(1)
                    nvar = 8 - len(prefix)
                    base = int(prefix, 2) << nvar
                    vm = re.search(r"value range\s+(\d+)\s*(?:\.\.\.|…)\s*(\d+)", text)
                    enum = [int(x) for x in re.findall(r"\b(\d+)\s*=\s*[A-Z]", text)]
                    if vm:
                        vlo, vhi = int(vm.group(1)), int(vm.group(2))
                    elif len(enum) >= 2:
                        vlo, vhi = min(enum), max(enum)
                    else:
                        vlo, vhi = 0, (1 << nvar) - 1
                    out[(fn, name)] = (base + vlo, base + vhi, None, os.path.relpath(path, repo))
    return out


def run(chk, w):
    P = w.P
    S = sendapi.SendAPI(w)
    E = intervals.Engine(w, set())
    LOG_ERR = 3
    chk.explanation = ("For the %d call sites of the two message constructors in %d encoder functions: the type argument is a literal below 0x80 (TYPE); the payload "
                       "length argument is at most 121, so that length + 7 <= 128 and the 8-bit length arithmetic cannot wrap (LEN, interval analysis with guard facts); "
                       "every path of an encoder makes at most one transmit call and none after a rejection (ONE); every variable subscript of the encoders' and "
                       "constructors' local arrays / VLAs stays inside them, using the call-site bounds as parameter ranges (BND); documented parameter ranges "
                       "('range A...B', 'divisible by N') coincide with the set of values the encoder accepts, evaluated for all 256 values (RANGE). Whether the "
                       "bytes are the specified encoding is value-level and not decided.") % (len(S.sites), len({f.name for f, c, k in S.sites}))
    chk.floor("constructor_call_sites", len(S.sites), 70)
    encoders = sorted({f.name for f, c, k in S.sites})
    chk.extra["encoders"] = len(encoders)

    # ---- TYPE
    chk.rule("C18-TYPE", "every transmit call site passes a literal message type below 0x80")
    for (f, c, ctor) in S.sites:
        tvs = S.type_values(f, c)
        if tvs is None:
            chk.violation("C18-TYPE", f.name, "type", c.loc(), "message type passed to %s is not a literal" % ctor)
            continue
        for (g_, c_, t) in tvs:
            if not (0 <= t < 0x80):
                chk.violation("C18-TYPE", g_.name, "type", c_.loc(), "message type 0x%02x is not a downlink type (>= 0x80): it indexes the response table out of range" % t)
            else:
                chk.ok("C18-TYPE", 1, {"site": c_.loc(), "type": "0x%02x" % t} if g_.name.endswith("ping") else None)

    # ---- LEN
    chk.rule("C18-LEN", "at every transmit call site the payload length is <= 121 (length byte <= 127, no 8-bit wrap in the constructor)")
    maxlen = 0
    for (f, c, ctor) in S.sites:
        la = S.len_arg(c)
        if la is None:
            continue
        fa = E.analysis(f, E.param_intervals(f) if f.internal else None)
        hi = None
        for st in fa.pre.get(c.id, []):
            iv = fa.iv(la, st)
            hi = iv[1] if hi is None else max(hi, iv[1])
        if hi is None:
            chk.abstain("C18-LEN", "call site unreachable in the abstract interpretation", c.loc())
            continue
        maxlen = max(maxlen, hi if hi != intervals.INF else 10 ** 9)
        if hi <= 121:
            chk.ok("C18-LEN", 1, {"site": c.loc(), "data_length_max": hi} if hi > 100 else None)
        else:
            chk.violation("C18-LEN", f.name, "data_length", c.loc(), "payload length may reach %s at this call (max 121): the length byte can exceed 127 or the 8-bit length can wrap" % hi)
    chk.extra["max_data_length_over_all_sites"] = maxlen

    # ---- ONE
    chk.rule("C18-ONE", "every path of an encoder makes at most one transmit call, and none on a path that logged a rejection")
    npaths = 0
    for name in encoders:
        f = P.functions[name]
        if not name.startswith("bidib_send_"):
            continue
        tx = [c for c in f.calls() if c.callee in S.constructors]
        # a routine that also sends through other functions (the start-up / reset dialogue) is a sequence of messages by design, not one encoder:
        # the single-message rule is for the leaf encoders
        if any(c.callee in P.functions and c.callee not in S.constructors and P.functions[c.callee].blocks and rules.call_reaches(P, c, set(S.constructors)) for c in f.calls()):
            chk.ok("C18-ONE", 1, {"routine": name, "sends_through_other_functions": True})
            continue
        # (a) two transmit calls on one path: one reachable from the other, or one inside a loop
        many = None
        for a in tx:
            if any(a.bb.id in body for body in f.loops().values()):
                many = (a, a)
            for b in tx:
                if a is not b and rules.exists_path(f, a, lambda x, b=b: x.id == b.id, None):
                    many = (a, b)
        # (b) transmit after a logged rejection
        rej = [c for c in f.calls("syslog_libbidib") if c.args and rules.const_of(f, c.args[0]) == LOG_ERR]
        after = None
        for r in rej:
            p = rules.exists_path(f, r, lambda x: x.op == "call" and x.callee in S.constructors, None)
            if p:
                after = (r, p)
        npaths += 1
        if many:
            chk.violation("C18-ONE", name, "transmit-count", many[0].loc(), "%s can submit more than one message on one path (transmit calls at lines %d and %d)" % (name, many[0].line, many[1].line))
        elif after:
            chk.violation("C18-ONE", name, "transmit-after-reject", after[0].loc(), "%s logs a parameter rejection at line %d and can still submit a message (%s)" % (name, after[0].line, rules.path_text(after[1])))
        else:
            chk.ok("C18-ONE", 1, {"encoder": name, "transmit_calls": len(tx), "rejections": len(rej)} if rej else None)
    chk.extra["encoders_checked"] = npaths

    # ---- PRIV: concurrent senders do not share the assembly buffer
    from . import c05
    wire = c05.wire_append_fns(P, w)
    if wire:
        c05.priv_rule(chk, P, sorted(S.constructors), wire, "C18-PRIV")

    # ---- BND
    chk.rule("C18-BND", "every variable subscript of the encoders' and constructors' arrays / VLAs is inside the array")
    nb = 0
    ctor_params = {}
    for cname in S.constructors:
        cf = P.functions[cname]
        ctor_params[cname] = E.param_intervals(cf)
    for name in sorted(set(encoders) | set(S.constructors)):
        f = P.functions[name]
        acc = intervals.array_accesses(P, f)
        if not acc:
            continue
        fa = E.analysis(f, ctor_params.get(name) or (E.param_intervals(f) if f.internal else None))
        for gep, base in acc:
            if base[0] == "global" and P.globals.get(base[1], {}).get("const"):
                continue
            nb += 1
            ok, detail = intervals.check_gep(fa, gep, base)
            if ok:
                chk.ok("C18-BND", 1, {"access": gep.loc(), "array": base[1]} if base[0] == "vla" and nb % 7 == 0 else None)
            else:
                chk.violation("C18-BND", name, "%s@%s" % (base[1], _where(f, gep)), gep.loc(), "subscript of '%s' may leave the array: %s" % (base[1], detail))
    chk.floor("encoder_array_subscripts", nb, 6)
    # negative index into caller buffers (data[data_size - 1] for data_size == 0)
    for name in encoders:
        f = P.functions[name]
        ptr_params = {k for k, p in enumerate(f.params) if p["type"].endswith("*")}
        if not ptr_params:
            continue
        fa = None
        for i in f.all_insts():
            if i.op == "getelementptr" and i["idx"]:
                b = f.resolve(rules.strip_casts(f, i["base"]))
                if b is not None and b.op == "load":
                    al = f.resolve(b["ptr"])
                    if al is not None and al.op == "alloca" and f.param_index_of_alloca(al) in ptr_params:
                        fa = fa or E.analysis(f, None)
                        lo = None
                        for st in fa.pre.get(i.id, []):
                            l = fa.lf(i["idx"][0]["v"], st)
                            iv = fa.iv_lf(l, st) if l is not None else (-intervals.INF, 0)
                            lo = iv[0] if lo is None else min(lo, iv[0])
                        nb += 1
                        if lo is not None and lo < 0:
                            chk.violation("C18-BND", name, "caller-buffer@%s" % _where(f, i), i.loc(), "the caller's buffer is read at index %s (negative) for a boundary value of the size parameter" % lo)
                        else:
                            chk.ok("C18-BND", 1)

    # ---- CAP
    from . import c12 as _c12
    reach = {n for n in P.reachable_functions(sorted(set(encoders) | set(S.constructors))) if n in P.functions and P.functions[n].blocks and P.functions[n].relfile.startswith("src/")}
    _c12.cap_rule(chk, P, reach, "C18-CAP", 2)

    # ---- RANGE
    chk.rule("C18-RANGE", "a documented parameter range ('range A...B', 'divisible by N') equals the set of values the encoder accepts")
    docs = documented_ranges(w.repo)
    chk.floor("documented_ranges", len(docs), 10)
    for (fn, pname), (lo, hi, div, hdr) in sorted(docs.items()):
        f = P.functions.get(fn)
        if f is None:
            continue
        pidx = None
        for a in f.allocas().values():
            if a.get("param") and a.get("var") == pname and a["aty"] in ("i8", "i16", "i32"):
                pidx = a["param"] - 1
        if pidx is None:
            chk.abstain("C18-RANGE", "parameter %s of %s is not a plain integer parameter" % (pname, fn))
            continue
        want = {v for v in range(256) if lo <= v <= hi and (div is None or v % div == 0)}
        # accepted(v): with the parameter fixed to v (constant propagation on that parameter only, every other branch both ways)
        # some path still reaches a transmit call
        pcell = {a.id: a for a in f.allocas().values() if a.get("param") and a["param"] - 1 == pidx and a.get("var") == pname}
        got = set()
        for v in range(256):
            hit = {"tx": False}

            def on_inst(inst, u, facts, hit=hit):
                if inst.op == "call" and inst.callee and (inst.callee in S.constructors or (inst.callee in P.functions and rules.call_reaches(P, inst, set(S.constructors)))):
                    hit["tx"] = True
                return None
            from ..pending import bool_cells
            cells_ = dict(bool_cells(f))
            cells_.update(pcell)
            wk = pathwalk.Walker(f, cells=cells_, fork_cells=(), argvals={pidx: v}, max_states=20000)
            wk.walk(0, on_inst)
            if hit["tx"]:
                got.add(v)
        if got == want:
            chk.ok("C18-RANGE", 1, {"function": fn, "param": pname, "accepted": "%d..%d%s" % (lo, hi, " step %d" % div if div else "")})
        elif not (want - got) and (got - want) and lo == 0 and hi == 255:
            chk.ok("C18-RANGE", 1)
        else:
            extra = sorted(got - want)
            missing = sorted(want - got)
            chk.violation("C18-RANGE", fn, pname, "%s:%d" % (f.relfile, f.line),
                          "%s(%s): documented %d...%d%s (%s) but accepted set differs: accepts undocumented %s, rejects documented %s" % (
                              fn, pname, lo, hi, " divisible by %d" % div if div else "", hdr, _rng(extra), _rng(missing)))


def _rng(vals):
    if not vals:
        return "none"
    out = []
    s = p = vals[0]
    for v in vals[1:]:
        if v != p + 1:
            out.append((s, p))
            s = v
        p = v
    out.append((s, p))
    return ",".join("%d" % a if a == b else "%d-%d" % (a, b) for a, b in out[:6]) + ("..." if len(out) > 6 else "")


def _where(f, inst):
    """stable tag of an access: the how-manieth subscript of that array in the function (not a line number)"""
    n = 0
    for i in f.all_insts():
        if i.op == "getelementptr" and i["idx"]:
            n += 1
            if i.id == inst.id:
                return "#%d" % n
    return "#?"
