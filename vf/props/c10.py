"""C10: documented thread-safe API is race-free (CON: lock contracts at call sites; ACC: region accesses x locksets x thread classes)."""
import os
from collections import defaultdict

from .. import access, locks, lockrun
from ..build import AnalysisBroken, VERIF

LEVEL = "other"
FIXTURES = (os.path.join(VERIF, "fixtures", "canary_race.c"),)


def contracts(chk, w, db):
    E = db.E
    chk.rule("C10-CON", "every 'Shall only be called with X acquired' contract holds at every call site, in every concurrent context, with the required mode")
    if E.contract_unresolved:
        raise AnalysisBroken("contract comments name locks that do not exist: %s" % E.contract_unresolved[:3])
    chk.floor("contracts", len(E.contracts), 45)
    n = 0
    for c in E.ctxs.values():
        conc = c.key in db.labels
        for (ci, ck, ls) in c.calls:
            callee = ck[0]
            con = E.contracts.get(callee)
            if not con:
                continue
            st = (c.fn.name, ci.id) in db.st_edges
            for l, m in sorted(con["require"].items()):
                held = locks.ls_get(ls, l)
                if locks.mode_ok(held, m):
                    n += 1
                    chk.ok("C10-CON", 1, {"callee": callee, "at": ci.loc(), "requires": "%s>=%s" % (l, m), "held": locks.ls_str(ls)})
                elif not conc or st:
                    chk.note("C10-CON", "contract of %s (%s) not met in the single-threaded start/stop phase (%s)" % (callee, l, db.st_why.get((c.fn.name, ci.id), "caller runs before thread creation / after joins")), ci.loc())
                else:
                    chk.violation("C10-CON", c.fn.name, "%s:%s" % (callee, l), ci.loc(),
                                  "%s requires %s (%s) but the call is made with lockset %s" % (callee, l, "write" if m == "W" else ">= read" if m == "R" else "held", locks.ls_str(ls)),
                                  contract=con["text"], contract_at=con["where"], chain=E.chain(c), classes=sorted(db.labels.get(c.key, [])))
            for l in con["forbid"]:
                if locks.ls_get(ls, l) is not None and conc:
                    chk.violation("C10-CON", c.fn.name, "%s:!%s" % (callee, l), ci.loc(),
                                  "%s must be called with none of the state locks held but %s is held" % (callee, l), contract=con["text"], chain=E.chain(c))
                elif conc:
                    chk.ok("C10-CON", 1)
    chk.floor("contract_call_sites", n, 150)


def regions_rule(chk, w, db):
    E = db.E
    chk.rule("C10-ACC", "no pair of accesses to one field of a shared region from threads that can run in parallel, one a write, without a common protecting lock")
    chk.rule("C10-LOCKTAB", "the designated lock of each region is the lock held at the majority of its accesses")
    nreg = 0
    for region, accs in sorted(db.by_region.items(), key=lambda kv: str(kv[0])):
        lock, src = db.lock_of(region)
        if lock is None:
            continue
        nreg += 1
        inf = db.inferred(region)
        if inf is not None and inf != lock:
            chk.violation("C10-LOCKTAB", "-", "%s.%s" % region if region[1] else region[0], "-",
                          "designated lock %s (%s) but most accesses hold %s" % (lock, src, inf))
        else:
            chk.ok("C10-LOCKTAB", 1, {"region": "%s.%s" % region if region[1] else region[0], "lock": lock, "source": src, "accesses": len(accs)})
        # discipline deviations are notes (a violation only if they race, below)
        seen = set()
        for a in accs:
            held = locks.ls_get(a.ls, lock)
            if held is None or (a.mode == "w" and held == "R"):
                k = (a.fn.name, a.inst.line)
                if k not in seen:
                    seen.add(k)
                    chk.note("C10-ACC", "discipline: %s of %s.%s [%s] %s %s (classes %s)" % (
                        "write" if a.mode == "w" else "read", region[0], region[1] or "", a.field, "without " + lock if held is None else "under a read lock only", locks.ls_str(a.ls), ",".join(sorted(a.labels))), a.loc())
    chk.floor("regions_with_lock", nreg, 15)
    # obligations: one per (region, field) group
    groups = set()
    for a in db.accesses:
        if a.region[0] not in access.FLAGS:
            groups.add((a.region, a.field))
    rs = access.races(db)
    bad_groups = set()
    for (region, f, wa, b) in rs:
        bad_groups.add((region, f))
        obj = "%s%s:%s" % (region[0], "." + region[1] if region[1] else "", f)
        chk.violation("C10-ACC", wa.fn.name, obj, wa.loc(),
                      "write (%s, lockset %s, classes %s) races with %s in %s at %s (lockset %s, classes %s)" % (
                          wa.what, locks.ls_str(wa.ls), ",".join(sorted(wa.labels)), "write" if b.mode == "w" else "read", b.fn.name, b.loc(),
                          locks.ls_str(b.ls), ",".join(sorted(b.labels))),
                      chain_write=E.chain(E.ctxs[wa.ctx]), chain_other=E.chain(E.ctxs[b.ctx]))
    for g in sorted(groups - bad_groups, key=str):
        chk.ok("C10-ACC", 1, {"region": str(g[0]), "field": g[1]})
    chk.extra["accesses"] = len(db.accesses)
    chk.floor("shared_accesses", len(db.accesses), 2000)


def flags_rule(chk, w, db):
    """C10-FLAG: lock-free flag variables shared between threads must at least be volatile-qualified single-byte objects whose
    writers are enumerated; reported as notes with their writers (a data race in the strict C11 sense, benign on the supported targets)."""
    chk.rule("C10-FLAG", "lock-free flags are volatile single-byte objects; every writer is listed")
    P = w.P
    for g in access.FLAGS:
        gd = P.globals.get(g)
        if gd is None:
            chk.abstain("C10-FLAG", "flag %s no longer exists" % g)
            continue
        accs = db.by_region.get((g, None), [])
        writers = sorted({"%s (%s)" % (a.fn.name, ",".join(sorted(a.labels))) for a in accs if a.mode == "w"})
        nonvol = [a for a in accs if a.what in ("load", "store") and not a.inst.get("volatile")]
        if gd["size"] != 1:
            chk.violation("C10-FLAG", "-", g, "%s:%s" % (gd.get("file"), gd.get("line")), "lock-free flag %s is %d bytes wide: accesses are not single-copy atomic" % (g, gd["size"]))
        elif nonvol:
            a = nonvol[0]
            chk.violation("C10-FLAG", a.fn.name, g, a.loc(), "non-volatile access to lock-free flag %s (the compiler may cache or tear it)" % g)
        else:
            chk.ok("C10-FLAG", 1, {"flag": g, "writers": writers, "accesses": len(accs)})
            chk.note("C10-FLAG", "flag %s is accessed without a lock by design (volatile bool); writers: %s" % (g, "; ".join(writers)))


def pops(chk, w, db):
    """C10-POP: every removal from a shared queue happens under that queue's mutex (one entry goes to one reader)"""
    chk.rule("C10-POP", "every g_queue_pop_* on a shared queue holds the queue's designated mutex")
    n = 0
    for a in db.accesses:
        if a.what.startswith("call g_queue_pop"):
            lock, src = db.lock_of(a.region)
            if lock is None:
                continue
            n += 1
            if locks.ls_get(a.ls, lock) is None:
                chk.violation("C10-POP", a.fn.name, a.region[0], a.loc(), "%s without %s (lockset %s)" % (a.what, lock, locks.ls_str(a.ls)), chain=E_chain(db, a))
            else:
                chk.ok("C10-POP", 1, {"at": a.loc(), "queue": a.region[0], "held": locks.ls_str(a.ls)})
    chk.floor("queue_pops", n, 5)


def E_chain(db, a):
    return db.E.chain(db.E.ctxs[a.ctx])


def run(chk, w):
    from . import c01 as _c01
    _c01.prepare(w)
    db = access.AccessDB(w)
    chk.explanation = ("Lock-discipline and race analysis: (CON) the documented lock contracts of internal accessors are checked at every call site in "
                       "every calling context; (ACC) every load/store/memcpy/library call whose pointer is rooted (context-sensitive provenance) in a shared "
                       "global region is collected with its lockset and the thread classes that can execute it (application threads, admin calls, the three "
                       "internal threads; code before thread creation and after the joins is single-threaded); a pair of conflicting accesses to the same "
                       "field from classes that can run in parallel must share a protecting lock.")
    chk.assumptions += ["README: start/stop/sys_reset are never called concurrently with any other library call",
                        "glib containers are only reached through pointers rooted in the tabled globals",
                        "user callbacks do not touch library state"]
    chk.extra["contexts"] = len(db.E.ctxs)
    chk.extra["concurrent_contexts"] = len(db.labels)
    chk.extra["single_threaded_call_edges"] = sorted("%s -> %s" % (k[0], w.P.functions[k[0]].insts[k[1]].callee) for k in db.st_edges)
    contracts(chk, w, db)
    regions_rule(chk, w, db)
    pops(chk, w, db)
    flags_rule(chk, w, db)
    # the user's write callback is only ever entered by one thread at a time
    from . import c01
    chk.rule("C10-CB", "the write callback is invoked only with the send-buffer mutex held (never by two threads at once)")
    c01.callback_rule(chk, w, c01.send_roles(w), db, "C10-CB")
    # a tracked-state store that follows the submit of a message in the same function
    from .. import atomic as _atomic, sendapi as _sendapi
    chk.rule("C10-AFTER", "a store to tracked state that follows the submit of a message in the same function is made under a lock that was already held exclusively at the submit "
                          "(otherwise the answer can be processed in between and the late store overwrites what it recorded)")
    _S = _sendapi.SendAPI(w)
    found_a, nfr = _atomic.submit_then_write(db, set(_S.constructors), lambda a: "track_state" in str(a.region[0]))
    for (key, t, ls1, pt, ls2, wa) in found_a:
        f = db.E.ctxs[key].fn
        chk.violation("C10-AFTER", f.name, "%s:%s" % (wa.region[0], wa.field), pt.loc(),
                      "%s submits a message through %s at line %d (lockset %s) and stores %s afterwards at line %d (lockset %s) with no lock held exclusively at both points: the "
                      "receiver can apply the answer between the two and the late store replaces it" % (f.name, t.callee, t.line, locks.ls_str(ls1), wa.field, pt.line, locks.ls_str(ls2)),
                      chain=db.E.chain(db.E.ctxs[key]))
    if not found_a:
        chk.ok("C10-AFTER", max(nfr, 1), {"frames_with_a_submit": nfr})
    chk.floor("frames_with_a_submit", nfr, 40)

    # read-modify-write of tracked state split over two critical sections
    from .. import atomic
    chk.rule("C10-ATOM", "a value read from a shared field in one critical section and written back (modified) in a later one is covered by a lock held exclusively across both (no lost update)")
    found, st = atomic.split_rmw(db)
    chk.extra["atom_stats"] = st
    seen_k = set()
    for (key, i1, i2, r, wr, lock) in found:
        f = db.E.ctxs[key].fn
        kk = (f.name, wr.field)
        if kk in seen_k:
            continue
        seen_k.add(kk)
        chk.violation("C10-ATOM", f.name, "%s:%s" % (wr.region[1] or wr.region[0], wr.field), i2.loc(),
                      "%s reads %s below the call at line %d (%s) and writes it back below the call at line %d (%s); %s is released in between and no lock is held exclusively across both calls "
                      "(locksets %s / %s): two threads can both read the old value and one update is lost" % (
                          f.name, wr.field, i1.line, i1.callee, i2.line, i2.callee, lock,
                          locks.ls_str(next(ls for (ci, ck, ls) in db.E.ctxs[key].calls if ci.id == i1.id)), locks.ls_str(next(ls for (ci, ck, ls) in db.E.ctxs[key].calls if ci.id == i2.id))),
                      read_at=r.loc(), write_at=wr.loc(), chain=db.E.chain(db.E.ctxs[key]))
    for _ in range(st["spanned_by_exclusive_lock"]):
        chk.ok("C10-ATOM", 1)

    # canaries: fixture functions analysed as extra API roots in a separate engine
    canary(chk, w)


def canary(chk, w):
    from .. import regions
    P = w.P
    names = ["vf_canary_race_writer", "vf_canary_race_reader_unlocked", "vf_canary_race_reader_locked"]
    for n in names:
        if n not in P.functions:
            raise AnalysisBroken("canary %s missing" % n)
    E = locks.LockEngine(P, interesting=access.interesting)
    for n in names:
        E.analyze_root(n, "API")
    R = regions.Regions(w, E)
    found = {}
    for n in names:
        key = (n, tuple(None for _ in P.functions[n].params), ())
        ctx = E.ctxs[key]
        for (inst, mode, roots, field, what) in R.accesses(key):
            for ls in ctx.inst_states.get(inst.id, ()):
                if any(r[1] == "bidib_boards" for r in roots):
                    found.setdefault(n, []).append((mode, ls, field))
    w_ok = any(m == "w" for m, ls, f in found.get("vf_canary_race_writer", []))
    r_unlocked = any(m == "r" and not ls for m, ls, f in found.get("vf_canary_race_reader_unlocked", []))
    r_locked = all(locks.ls_get(ls, "bidib_boards_rwlock") for m, ls, f in found.get("vf_canary_race_reader_locked", [])) and found.get("vf_canary_race_reader_locked")
    chk.canary("shared_write_seen", w_ok)
    chk.canary("unlocked_read_seen", r_unlocked)
    chk.canary("locked_read_has_lockset", bool(r_locked))
    # and the pair must be reported as a race by the same predicate the verdict uses
    wa = [(m, ls, f) for m, ls, f in found["vf_canary_race_writer"] if m == "w"][0]
    ra = [(m, ls, f) for m, ls, f in found["vf_canary_race_reader_unlocked"] if m == "r" and f == wa[2]]
    chk.canary("race_pair_detected", bool(ra) and not access.protects(wa[1], ra[0][1]) and access.parallel({"API"}, {"API"}))
    la = [(m, ls, f) for m, ls, f in found["vf_canary_race_reader_locked"] if f == wa[2]]
    chk.canary("locked_pair_silent", bool(la) and access.protects(wa[1], la[0][1]))
