"""C13: start with arbitrary configuration files terminates with 0 or 1 (BAL, STOP, RET, PROP, PROG, NUL, DBLFREE)."""
from .. import flow, locks, nullwalk, pathwalk, rules
from ..build import AnalysisBroken

LEVEL = "other"


def run(chk, w):
    P = w.P
    E = w.lock_engine()
    starts = [P.functions[n] for n in ("bidib_start_pointer", "bidib_start_serial") if n in P.functions]
    if len(starts) != 2:
        raise AnalysisBroken("start functions not found")
    parser_fns = [f for f in P.repo_functions() if "parser" in f.relfile]
    chk.floor("parser_functions", len(parser_fns), 18)
    chk.explanation = ("Structural necessary conditions for 'start terminates with 0 or 1 for any configuration': every context of the start call tree returns with its entry "
                       "lockset (BAL); in both start functions every path that sets error reaches the stop routine before returning, and the result is 0 or 1 (STOP, RET); "
                       "the boolean result of every parser/validation function is consumed - branched on or stored into an error flag (PROP); every loop of a parser function "
                       "consumes a YAML event or is a counted loop (PROG); with the parser state machines explored exactly (flags and enum state constant-propagated), no pointer "
                       "field of a record under construction is dereferenced while NULL (NUL), and a record handed by value to its free helper is not freed again (DBLFREE). "
                       "Leak freedom and raw byte noise inside libyaml are not decided.")

    # ---- BAL over the start call tree
    chk.rule("C13-BAL", "every context reachable from the start functions returns with its entry lockset")
    n = 0
    reach = set()
    for s in starts:
        k = (s.name, tuple(None for _ in s.params), ())
        st = [k]
        while st:
            x = st.pop()
            if x in reach or x not in E.ctxs:
                continue
            reach.add(x)
            for (_i, ck, _ls) in E.ctxs[x].calls:
                st.append(ck)
    for k in reach:
        c = E.ctxs[k]
        n += 1
        bad = [ex for ex in c.exits if ex != c.entry]
        if bad and not any(kk >= 2 for (_l, _m, kk) in c.entry):
            deeper = any(any(e2 != E.ctxs[ck].entry for e2 in E.ctxs[ck].exits) for (_i, ck, _ls) in c.calls)
            if not deeper:
                chk.violation("C13-BAL", c.fn.name, "lock-leak", "%s:%d" % (c.fn.relfile, c.fn.line),
                              "%s can return with lockset %s (entered with %s): the stop that follows a failed start blocks forever" % (c.fn.name, locks.ls_str(bad[0]), locks.ls_str(c.entry)),
                              chain=E.chain(c))
                continue
        chk.ok("C13-BAL", 1)
    chk.floor("start_contexts", n, 200)
    for v in E.violations:
        if v["rule"] == "SELF" and v["chain"] and v["chain"][0].startswith("bidib_start"):
            chk.violation("C13-BAL", v["function"], "self-deadlock:" + v.get("lock", ""), "%s:%d" % (v["file"], v["line"]), v["msg"], chain=v["chain"])

    # ---- STOP / RET
    chk.rule("C13-STOP", "in the start functions every path on which error is set calls the stop routine before returning; the result is 0 or 1")
    for f in starts:
        err_cells = [a for a in f.allocas().values() if a.get("var") == "error"]
        if not err_cells:
            chk.abstain("C13-STOP", "no local named error", f.name)
            continue
        ec = err_cells[0].id
        res = {"bad": None, "paths": 0, "vals": set()}

        def on_inst(inst, u, facts, f=f):
            if inst.op == "call" and inst.callee == "bidib_stop":
                return [True]
            return None

        def on_exit(ret, u, facts, f=f, ec=ec, res=res):
            res["paths"] += 1
            v = facts.get(ec)
            rv = wk.ev(ret["val"], facts) if "val" in ret.d else None
            res["vals"].add(rv)
            if v is not None and v != 0 and not u:
                res["bad"] = ret
            if v is None and not u and rv not in (0, 1):
                res["bad"] = res["bad"] or ret

        wk = pathwalk.Walker(f, fork_cells=(ec,))
        wk.walk(False, on_inst, on_exit)
        if res["bad"] is not None:
            chk.violation("C13-STOP", f.name, "error-without-stop", res["bad"].loc(), "%s can return with error set without having called the stop routine (threads and memory stay allocated)" % f.name)
        else:
            chk.ok("C13-STOP", 1, {"start": f.name, "paths": res["paths"]})
        vals = {v for v in res["vals"] if v is not None}
        if vals <= {0, 1} and None not in res["vals"]:
            chk.ok("C13-STOP", 1, {"start": f.name, "results": sorted(vals)})
        else:
            chk.violation("C13-STOP", f.name, "result", "%s:%d" % (f.relfile, f.line), "%s can return something other than 0 or 1 (%s)" % (f.name, sorted(map(str, res["vals"]))))

    # ---- PROP
    chk.rule("C13-PROP", "the boolean/int result of every parser, validation and registration function is consumed (branch or error flag)")
    producers = {f.name for f in P.repo_functions() if f.ret in ("i1", "i32") and ("parser" in f.relfile or f.name.startswith("bidib_state_add_") or f.name.startswith("bidib_string_to"))}
    npc = 0
    for f in P.repo_functions():
        if "parser" not in f.relfile and f.name not in ("bidib_state_init",):
            continue
        for c in f.calls():
            if c.callee in producers:
                npc += 1
                used = False
                for i in f.all_insts():
                    for k, o in locks.operands(i):
                        if o.get("k") == "inst" and o["id"] == c.id:
                            used = True
                if used:
                    chk.ok("C13-PROP", 1)
                else:
                    chk.violation("C13-PROP", f.name, c.callee, c.loc(), "the result of %s is ignored: a rejected entry would be accepted silently" % c.callee)
    chk.floor("error_result_call_sites", npc, 60)

    # ---- PROG
    chk.rule("C13-PROG", "every loop of a parser function consumes a YAML event or is a counted loop")
    nl = 0
    for f in parser_fns:
        for h, body in f.loops().items():
            nl += 1
            consumes = any(i.op == "call" and i.callee and (i.callee == "yaml_parser_parse" or (i.callee in P.functions and rules.call_reaches(P, i, {"yaml_parser_parse"})))
                           for b in body for i in f.bmap[b].insts)
            counted = False
            for b in body:
                t = f.bmap[b].term
                if t.op == "br" and "cond" in t.d and (t["t"] not in body or t["f"] not in body):
                    for c2 in _icmps(f, t["cond"]):
                        if c2["pred"] in ("ult", "slt", "ule", "sle", "ne"):
                            counted = True
            if consumes or counted:
                chk.ok("C13-PROG", 1)
            else:
                chk.violation("C13-PROG", f.name, "loop@%d" % f.bmap[h].insts[0].line, f.bmap[h].insts[0].loc(), "a parser loop neither consumes an event nor counts: start can hang on some configuration")
    chk.floor("parser_loops", nl, 25)

    # ---- NUL
    chk.rule("C13-NUL", "no pointer field of a record under construction is dereferenced while NULL on any abstract path of a parser/registration function")
    targets = [f for f in P.repo_functions() if "parser" in f.relfile or f.name.startswith("bidib_state_add_")]
    nn = 0
    for f in sorted(targets, key=lambda f: f.name):
        nw = nullwalk.NullWalk(P, f)
        if not nw.slots:
            continue
        fs = nw.run()
        if nw.truncated:
            chk.abstain("C13-NUL", "state space truncated", f.name)
            continue
        nn += 1
        if not fs:
            chk.ok("C13-NUL", 1, {"function": f.name, "pointer_slots": len(nw.slots)} if len(nw.slots) > 8 else None)
        seen = set()
        for (inst, slot, dec, what) in fs:
            if slot in seen:
                continue
            seen.add(slot)
            chk.violation("C13-NUL", f.name, slot, inst.loc(), "%s of %s while it is NULL on the path with %s" % (what, slot, ", ".join("%s=%s" % kv for kv in dec.items())))
    chk.floor("functions_with_records", nn, 15)

    # ---- SIB (shared with C16): "can be started again" through either start function
    from . import c16 as _c16
    _c16.start_sibling_rule(chk, P, "C13-SIB")

    # ---- FMT: text from the configuration files never becomes a format string
    chk.rule("C13-FMT", "every printf-style call passes a string literal as its format (or forwards the wrapper's own format parameter): strings taken from the "
                        "configuration files are only ever arguments, so a '%' in an id or value cannot be interpreted as a conversion")
    FMT = {"printf": 0, "fprintf": 1, "sprintf": 1, "snprintf": 2, "syslog": 1, "vsyslog": 1, "vsnprintf": 2, "vsprintf": 1, "vprintf": 0, "vfprintf": 1,
           "g_string_printf": 1, "g_string_append_printf": 1, "dprintf": 1, "g_strdup_printf": 0, "g_printerr": 0, "g_print": 0}
    # the library's own wrappers: a variadic repo function whose parameter reaches the format position of one of the above
    wrappers = {}
    for f in P.repo_functions():
        if not f.blocks or not f.d.get("vararg"):
            continue
        for c in f.calls():
            if c.callee in FMT and FMT[c.callee] < len(c.args):
                src = rules.load_source(f, c.args[FMT[c.callee]])
                k = f.param_index_of_alloca(f.insts[src[1]]) if src and src[0] == "alloca" else None
                if k is not None:
                    wrappers[f.name] = k
    nf = 0
    for f in P.repo_functions():
        for c in f.calls():
            pos = FMT.get(c.callee, wrappers.get(c.callee))
            if pos is None or pos >= len(c.args):
                continue
            nf += 1
            a = c.args[pos]
            if a.get("k") == "global" and "str" in a:
                chk.ok("C13-FMT", 1, None)
                continue
            src = rules.load_source(f, a)
            k = f.param_index_of_alloca(f.insts[src[1]]) if src and src[0] == "alloca" else None
            if k is not None and wrappers.get(f.name) == k:
                chk.ok("C13-FMT", 1, {"wrapper": f.name, "forwards_its_format_parameter": True})
                continue
            chk.violation("C13-FMT", f.name, "%s:format" % c.callee, c.loc(), "%s is called with a format that is not a string literal: text built at run time (configuration ids and values are "
                          "echoed in diagnostics) is interpreted as conversions; '%%s' / '%%n' in a configuration file crash the start" % c.callee)
    chk.floor("format_calls", nf, 150)

    # ---- DBLFREE: a record passed by value to a free helper must not have its fields freed again by the caller
    # ---- REL: files and YAML parsers opened while reading the configuration are released on every path
    from .. import resources
    chk.rule("C13-REL", "every file / YAML parser opened during start is closed / deleted on every path, error returns included (the acquiring helper is analysed inlined into its callers)")
    def _ok(f, chain):
        chk.ok("C13-REL", 1, {"function": f.name, "through": chain})
    def _bad(f, kind, acq, ret, chain):
        chk.violation("C13-REL", f.name, kind, ret.loc(), "the %s opened at %s%s is still open when %s returns at line %d: a failed start leaks it and repeated starts exhaust descriptors/memory" % (
            kind, acq.loc(), (" (via %s)" % " <- ".join(chain)) if chain else "", f.name, ret.line))
    def _abst(f, why):
        chk.abstain("C13-REL", why, f.name)
    nrel = resources.check(P, _ok, _bad, _abst)
    chk.floor("resource_acquirers", nrel, 3)

    chk.rule("C13-DBLFREE", "after a record was handed by value to its free helper the caller does not free the record's fields again")
    free_helpers = {f.name for f in P.repo_functions() if "free" in f.name and any("byval" in p for p in f.params)}
    nd = 0
    for f in targets:
        for c in f.calls():
            if c.callee in free_helpers and c.get("byval"):
                nd += 1
                # the temp copy's source record
                src = _byval_source_alloca(f, c.args[c["byval"][0]])
                if src is None:
                    chk.ok("C13-DBLFREE", 1)
                    continue
                bad = None
                for c2 in f.calls():
                    if c2.callee in ("free", "g_string_free", "g_array_free") and c2.id != c.id:
                        a = f.resolve(rules.strip_casts(f, c2.args[0]))
                        if a is not None and a.op == "load":
                            b = _alloca_of(f, a["ptr"])
                            if b == src and rules.exists_path(f, c, lambda x, c2=c2: x.id == c2.id, None):
                                bad = c2
                # or the same record handed to the helper twice
                for c2 in f.calls():
                    if c2.callee == c.callee and c2.id != c.id and c2.get("byval") and _byval_source_alloca(f, c2.args[c2["byval"][0]]) == src:
                        if rules.exists_path(f, c, lambda x, c2=c2: x.id == c2.id, None) and not any(c.bb.id in body and c2.bb.id in body for body in f.loops().values()):
                            bad = c2
                if bad is not None:
                    chk.violation("C13-DBLFREE", f.name, "%s@%s" % (c.callee, f.insts[src].get("var")), bad.loc(),
                                  "the record '%s' is passed by value to %s (line %d), which cannot clear the caller's copy, and its fields are freed again at line %d" % (f.insts[src].get("var"), c.callee, c.line, bad.line))
                else:
                    chk.ok("C13-DBLFREE", 1)
    chk.floor("by_value_free_calls", nd, 10)


def _icmps(f, o, depth=0, seen=None):
    seen = seen if seen is not None else set()
    i = f.resolve(o) if o and o.get("k") == "inst" else None
    if i is None or depth > 6 or i.id in seen:
        return []
    seen.add(i.id)
    if i.op == "icmp":
        return [i]
    out = []
    for k in ("a", "b"):
        if k in i.d and isinstance(i.d[k], dict):
            out += _icmps(f, i.d[k], depth + 1, seen)
    for x in i.d.get("incoming", ()):
        out += _icmps(f, x[1], depth + 1, seen)
    return out


def _alloca_of(f, o):
    for _ in range(8):
        o = rules.strip_casts(f, o)
        i = f.resolve(o)
        if i is None:
            return None
        if i.op == "alloca":
            return i.id
        if i.op == "getelementptr":
            o = i["base"]
        else:
            return None
    return None


def _byval_source_alloca(f, a):
    """by-value argument: a temp filled by memcpy from a local record -> that record's alloca id"""
    t = _alloca_of(f, a)
    if t is None:
        return None
    for c in f.calls():
        if c.callee and c.callee.startswith("llvm.memcpy") and _alloca_of(f, c.args[0]) == t:
            s = _alloca_of(f, c.args[1])
            if s is not None:
                return s
    return t
