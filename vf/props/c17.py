"""C17: query results are initialised deep copies, safe to free (INIT, ELEM, COPY, DEEP, CNT, FREE)."""
from collections import defaultdict

from .. import flow, results, rules
from ..build import AnalysisBroken

LEVEL = "other"
ALLOCS = {"malloc", "calloc", "strdup", "strndup", "g_strdup", "g_malloc", "g_malloc0", "realloc"}


def prepare(w):
    """inline (once per run) the void static copy helpers of the getter unit into their callers: a field-by-field copy that was moved into a
    shared helper is then still seen where the result object lives"""
    if getattr(w, "_c17_prepared", False):
        return w._c17_inlined
    from .. import inline
    P = w.P
    done = {}
    files = {f.relfile for f in P.repo_functions() if f.name in w.api and "getter" in f.relfile}
    for f in list(P.repo_functions()):
        if f.relfile not in files:
            continue
        def pred(g, f=f):
            return g.internal and g.relfile == f.relfile and g.ret == "void" and g.name != f.name and g.name not in P.addr_taken() and any("*" in (p.get("type") or "") for p in g.params)
        got = inline.inline_helpers(P, f.name, pred)
        if got:
            done[f.name] = got
    w._c17_prepared = True
    w._c17_inlined = done
    return done


def getters(w):
    P = w.P
    prepare(w)
    out = []
    for name in sorted(w.api):
        f = P.functions.get(name)
        if f is None or not f.blocks or "getter" not in f.relfile:
            continue
        R = results.ResultObject(P, f)
        if R.kind:
            out.append((f, R))
    return out


def lookup_calls(P, f):
    """calls to internal reference lookups (functions returning a pointer into shared state: '..._ref...' role = returns pointer, may return NULL)"""
    out = []
    for c in f.calls():
        g = P.functions.get(c.callee) if c.callee else None
        if g is not None and g.blocks and g.ret.endswith("*") and "state" in g.relfile:
            out.append(c)
    return out


def elem_arrays(P, f):
    """heap arrays built by f: (alloca holding the array pointer, element DI type, element size)"""
    out = []
    for a in f.allocas().values():
        t = P.di_strip(a.get("ditype", -1), typedefs=False) or P.di(a.get("ditype", -1))       # `T *const state`
        if t and t["kind"] == "pointer":
            el = P.di_strip(t["base"])
            if el and el["kind"] == "struct" and el["size"] > 0:
                # assigned from malloc (the allocation itself, not a second pointer into it)
                for s in f.all_insts():
                    if s.op == "store" and s["ptr"].get("k") == "inst" and s["ptr"]["id"] == a.id:
                        v = f.resolve(rules.strip_casts(f, s["val"]))
                        if v is not None and v.op == "load":
                            continue
                        if any(tg[0] == "call" and tg[1] in ALLOCS for tg in flow.origins(f, s["val"])):
                            out.append((a, t["base"], el["size"]))
                            break
    return out


def elem_offset(f, ptr, arr_alloca, esize):
    """pointer operand -> byte offset inside element arr[var] (None if not of that shape)"""
    off = 0
    o = ptr
    seen_var = False
    for _ in range(10):
        o = rules.strip_casts(f, o)
        i = f.resolve(o)
        if i is None:
            return None
        if i.op == "getelementptr":
            off += i["off"]
            for x in i["idx"]:
                if x["scale"] == esize and not seen_var:
                    seen_var = True
                else:
                    return None
            o = i["base"]
            continue
        if i.op == "load" and i["ptr"].get("k") == "inst" and i["ptr"]["id"] == arr_alloca.id:
            return off if seen_var else None
        if i.op == "load" and i["ptr"].get("k") == "inst" and not seen_var and 0 <= off < esize and _running_elem_ptr(f, i["ptr"]["id"], arr_alloca, esize):
            return off          # `dst->field` with dst a running write position in the array (starts at the array, advances by whole elements)
        return None
    return None


def _running_elem_ptr(f, aid, arr_alloca, esize):
    a = f.insts[aid]
    if a.op != "alloca" or f.param_index_of_alloca(a) is not None or aid == arr_alloca.id or rules._escapes(f, a):
        return False
    sts = [x for x in f.all_insts() if x.op == "store" and x["ptr"].get("k") == "inst" and x["ptr"]["id"] == aid]
    start = step = 0
    for x in sts:
        v = f.resolve(rules.strip_casts(f, x["val"]))
        if v is not None and v.op == "load" and v["ptr"].get("k") == "inst" and v["ptr"]["id"] == arr_alloca.id:
            start += 1
        elif v is not None and v.op == "getelementptr" and not v["idx"] and v["off"] == esize:
            b = f.resolve(rules.strip_casts(f, v["base"]))
            if b is None or b.op != "load" or b["ptr"].get("k") != "inst" or b["ptr"]["id"] != aid:
                return False
            step += 1
        else:
            return False
    return start >= 1 and step >= 1


def _member_names(P, sid, depth=0):
    out = set()
    for (n, off, size, mt) in (P.di_members(sid) or []):
        out.add(n)
        t = P.di_strip(mt)
        if t and t["kind"] in ("struct", "union") and depth < 2:
            out |= _member_names(P, mt, depth + 1)
    return out


def _src_fields(P, f, o, d=0, seen=None):
    """'Struct.field' names of the entity fields an operand's value is copied from (through casts, locals, strdup and repo helpers' arguments)"""
    seen = set() if seen is None else seen
    out = set()
    if o.get("k") != "inst" or d > 10 or o["id"] in seen:
        return out
    seen.add(o["id"])
    o2 = rules.resolve_local(f, o)
    if o2 != o:
        return _src_fields(P, f, o2, d + 1, seen)
    i = f.insts[o["id"]]
    if i.op == "load":
        if i["ptr"].get("k") == "inst":
            fp = rules.field_path_of_ptr(P, f, i["ptr"])
            if fp and not fp.startswith("_G"):
                out.add(fp)
            elif fp and fp.startswith("_GString"):
                out |= _src_fields(P, f, i["ptr"], d + 1, seen)
            a = f.insts[i["ptr"]["id"]]
            if a.op == "alloca":
                for s_ in f.all_insts():
                    if s_.op == "store" and s_["ptr"].get("k") == "inst" and s_["ptr"]["id"] == a.id:
                        out |= _src_fields(P, f, s_["val"], d + 1, seen)
        return out
    if i.op == "getelementptr":
        return _src_fields(P, f, i["base"], d + 1, seen)
    if i.op == "call":
        if i.callee in ("strdup", "g_strdup") or (i.callee in P.functions and P.functions[i.callee].blocks and P.functions[i.callee].internal):
            for a in i.args:
                out |= _src_fields(P, f, a, d + 1, seen)
        return out
    if i.op == "phi":
        for _, v in i["incoming"]:
            out |= _src_fields(P, f, v, d + 1, seen)
        return out
    for k in ("a", "b", "c"):
        if k in i.d and isinstance(i[k], dict):
            out |= _src_fields(P, f, i[k], d + 1, seen)
    return out


def run(chk, w):
    P = w.P
    gs = getters(w)
    chk.explanation = ("For every public getter that returns a structure: a forward must-analysis shows that every leaf field of the result type is assigned on every "
                       "path to every return (INIT); heap arrays built by the snapshot helpers and getters have every leaf of every element assigned in each loop "
                       "iteration (ELEM); each single-entity getter reads every data field of the entity it looked up, i.e. what the snapshot helper copies (COPY); "
                       "no pointer into shared state survives in a result: a block copy from an entity is followed by re-assignment of every pointer leaf from an "
                       "allocator, and pointer leaves are only stored from allocators or NULL (DEEP); an id-list's length and its fill loop are guarded by the same "
                       "conditions (CNT); free functions free exactly pointer leaves, each behind a NULL test (FREE). Value equality with the state is not decided.")
    chk.floor("struct_returning_getters", len(gs), 35)

    # ---- INIT
    chk.rule("C17-INIT", "every leaf field of a getter's result is assigned on every path to every return")
    for (f, R) in gs:
        at = results.must_init(P, f, R)
        if not at:
            chk.abstain("C17-INIT", "no return found", f.name)
            continue
        un = set()
        for rid, st in at.items():
            un |= set(range(len(R.leaves))) - st
        if un:
            names = [R.leaves[k][2] + ("*" if R.leaves[k][3] else "") for k in sorted(un)]
            ptrs = [R.leaves[k][2] for k in sorted(un) if R.leaves[k][3]]
            chk.violation("C17-INIT", f.name, ",".join(names[:4]) + ("..." if len(names) > 4 else ""), "%s:%d" % (f.relfile, f.line),
                          "%s can return with uninitialised field(s) %s%s" % (f.name, ", ".join(names[:8]), "; the pointer field(s) %s are later passed to free()" % ", ".join(ptrs) if ptrs else ""))
        else:
            chk.ok("C17-INIT", 1, {"getter": f.name, "leaves": len(R.leaves), "returns": len(at)} if len(R.leaves) > 6 else None)

    # ---- ELEM: heap arrays of structs
    chk.rule("C17-ELEM", "every leaf of every element of a heap array built for a result is assigned in each loop iteration")
    builders = [f for f in P.repo_functions() if "getter" in f.relfile and "highlevel" in f.relfile]
    nel = 0
    for f in builders:
        for (a, eldt, esize) in elem_arrays(P, f):
            leaves = results.leaves_of(P, eldt)
            if not leaves:
                continue
            covered = set()
            stores = []
            for i in f.all_insts():
                if i.op == "store":
                    off = elem_offset(f, i["ptr"], a, esize)
                    if off is not None:
                        stores.append((i, off, i["size"]))
                elif i.op == "call" and i.callee and i.callee.startswith("llvm.memcpy"):
                    off = elem_offset(f, i.args[0], a, esize)
                    ln = rules.const_of(f, i.args[2])
                    if off is not None and ln is not None:
                        stores.append((i, off, ln))
            if not stores:
                continue
            nel += 1
            # must-analysis restricted to the loop containing the stores: reset at the loop head, check at the latches
            heads = [h for h, body in f.loops().items() if any(s[0].bb.id in body for s in stores)]
            if not heads:
                chk.abstain("C17-ELEM", "array filled outside a loop", f.name)
                continue
            # outermost loop that contains all element stores
            head = max(heads, key=lambda h: len(f.loops()[h]))
            body = f.loops()[head]
            st_in = {b: None for b in body}
            st_in[head] = frozenset()
            work = [head]
            latch_out = []
            bystore = defaultdict(list)
            for (i, off, sz) in stores:
                bystore[i.bb.id].append((i, off, sz))
            while work:
                b = work.pop()
                cur = set(st_in[b])
                for (i, off, sz) in sorted(bystore.get(b, []), key=lambda x: x[0].idx):
                    cur |= {k for k, (lo, s2, path, isp, dt) in enumerate(leaves) if off <= lo and lo + s2 <= off + sz}
                out = frozenset(cur)
                for s in f.bmap[b].succ:
                    if s == head:
                        latch_out.append(out)
                        continue
                    if s not in body:
                        continue
                    old = st_in[s]
                    new = out if old is None else old & out
                    if new != old:
                        st_in[s] = new
                        work.append(s)
            un = set()
            for o in latch_out:
                un |= set(range(len(leaves))) - o
            # in a snapshot helper every element field is copied unconditionally (only the loop condition may guard it):
            # a copy that depends on another field of the entity makes the snapshot disagree with the single-entity getter
            if f.internal:
                cond_of = {}
                uncond = set()
                for (i, off, sz) in stores:
                    extra = []
                    for (gd, truth) in rules.branch_conditions(f, i):
                        cnd = f.resolve(gd["cond"])
                        if cnd is None or cnd.op == "phi":
                            continue
                        if cnd.bb.id in f.loops():
                            continue
                        extra.append(cnd)
                    ks = {k for k, (lo, s2, path, isp, dt) in enumerate(leaves) if off <= lo and lo + s2 <= off + sz}
                    # unconditional = executed on every iteration: the store's block dominates every latch of the loop it is in
                    # (the else-arm of `if (a && b)` has two predecessors and therefore no single dominating edge, but it is conditional)
                    every_iter = True
                    for h_, body_ in f.loops().items():
                        if i.bb.id in body_:
                            latches = [p_ for p_ in f.bmap[h_].pred if p_ in body_]
                            if not all(i.bb.id == l_ or i.bb.id in f.dom().get(l_, ()) for l_ in latches):
                                every_iter = False
                    if not every_iter and not extra:
                        extra = [i]
                    if extra:
                        for k in ks:
                            cond_of.setdefault(k, (i, extra[0]))
                    else:
                        uncond |= ks
                # a leaf that is also assigned unconditionally (e.g. NULL first, the allocation only when the count is not 0) is fine
                bad = sorted(k for k in cond_of if k not in uncond)
                if bad:
                    i, cnd0 = cond_of[bad[0]]
                    lname = [leaves[k][2] for k in bad]
                    chk.violation("C17-ELEM", f.name, "%s[].%s:conditional" % (a.get("var"), ",".join(lname[:2])), i.loc(),
                                  "the snapshot copies %s only under a condition on the entity (line %d); the single-entity getter copies it always, so the two disagree" % (",".join(lname[:2]), cnd0.line))
            if un:
                names = [leaves[k][2] for k in sorted(un)]
                chk.violation("C17-ELEM", f.name, "%s[].%s" % (a.get("var"), ",".join(names[:4])), "%s:%d" % (f.relfile, f.line),
                              "elements of the array '%s' built by %s leave field(s) %s unassigned: the caller reads uninitialised heap memory" % (a.get("var"), f.name, ", ".join(names)))
            else:
                chk.ok("C17-ELEM", 1, {"builder": f.name, "array": a.get("var"), "leaves_per_element": len(leaves)})
    chk.floor("result_arrays", nel, 8)

    # ---- COPY: a single getter reads every data field of the entity it looked up
    chk.rule("C17-COPY", "a single-entity getter reads every data field of the looked-up entity (the fields the snapshot copies)")
    ncopy = 0
    for (f, R) in gs:
        for c in lookup_calls(P, f):
            g = P.functions[c.callee]
            rt = (g.d.get("ditypes") or [None])[0]
            et = P.di_strip(rt) if rt is not None and rt >= 0 else None
            if not et or et["kind"] != "pointer":
                continue
            ent = P.di_strip(et["base"])
            if not ent or ent["kind"] != "struct":
                continue
            ent_name = P.di_name(et["base"]).replace("const ", "")
            members = P.di_members(et["base"]) or []
            sites = {}
            reads, whole = results.entity_field_reads(P, f, c, sites)
            read_names = set()
            for ch in reads:
                for k in range(len(ch)):
                    read_names.add(ch[k])
            # scope: the getter's result type embeds a data structure of this entity
            res_types = {P.di_name(dt) for (lo, sz, path, isp, dt) in []}
            res_struct_names = _nested_struct_names(P, R.ditype)
            data_m = [m for m in members if m[0] == "data"]
            if data_m and P.di_name(data_m[0][3]) in res_struct_names:
                dt = data_m[0][3]
                dname = P.di_name(dt)
                want = ["%s.%s" % (dname, m[0]) for m in (P.di_members(dt) or [])]
            elif not data_m and ent_name.endswith("_intern") and any(n.replace("_data", "") in ent_name for n in res_struct_names if n.endswith("_data")):
                # intern entity (train / segment): the snapshot helper for the same entity defines what is copied
                want = sorted(_snapshot_reads(P, builders, ent_name) - {"%s.id" % ent_name, "%s.length" % ent_name})
            else:
                continue
            if not want:
                continue
            copied_all = any(len(ch) >= 1 and ch[-1].endswith(".data") for ch in whole)
            ncopy += 1
            missing = [x for x in want if x not in read_names]
            skipped = None
            if not missing and not copied_all:
                # must-read: once the entity was found, no path to the return skips the read of a copied field (an early return on
                # another field of the entity makes the single getter disagree with the snapshot)
                found_edges = []
                for b in f.blocks:
                    t = b.term
                    if t.op == "br" and "cond" in t.d:
                        cnd = f.resolve(t["cond"])
                        if cnd is not None and cnd.op == "icmp" and cnd["pred"] in ("eq", "ne") and cnd["b"].get("k") == "null":
                            o = rules.resolve_local(f, cnd["a"])
                            oi = f.resolve(o)
                            if oi is not None and oi.id == c.id:
                                found_edges.append(t["t"] if cnd["pred"] == "ne" else t["f"])
                for fe in found_edges:
                    start = f.bmap[fe].insts[0]
                    for x in want:
                        ids = {i.id for i in sites.get(x, [])}
                        if not ids:
                            continue
                        pth = rules.exists_path(f, start, "exit", lambda y, ids=ids: y.id in ids, include_start=True)
                        if pth:
                            skipped = (x, pth)
                            break
                    if skipped:
                        break
            if skipped:
                chk.violation("C17-COPY", f.name, "%s:%s:skipped" % (ent_name, skipped[0].split(".")[-1]), c.loc(),
                              "%s can return for a known %s without reading %s (%s): on that path the result differs from the whole-track snapshot" % (f.name, ent_name, skipped[0], rules.path_text(skipped[1])))
            elif copied_all or not missing:
                chk.ok("C17-COPY", 1, {"getter": f.name, "entity": ent_name, "fields": len(want)})
            else:
                chk.violation("C17-COPY", f.name, "%s:%s" % (ent_name, ",".join(m.split(".")[-1] for m in missing)), c.loc(),
                              "%s never reads %s of the %s it looked up: the result differs from the whole-track snapshot for these fields" % (f.name, ", ".join(missing), ent_name))
    chk.floor("single_entity_getters", ncopy, 7)

    # ---- DEEP
    chk.rule("C17-DEEP", "no pointer into shared state survives in a result: pointer leaves come from allocators (or NULL); block copies from entities are followed by re-assignment of their pointer leaves")
    nd = 0
    for f in builders:
        # (a) stores of pointers into result memory (result object or result arrays)
        R = results.ResultObject(P, f)
        arrs = elem_arrays(P, f)
        for i in f.all_insts():
            if i.op != "store" or not i["vty"].endswith("*"):
                continue
            target = None
            if R.kind and R.offset_of(i["ptr"]) is not None:
                target = "result"
            else:
                for (a, eldt, esize) in arrs:
                    if elem_offset(f, i["ptr"], a, esize) is not None:
                        target = a.get("var")
                # ids[i] arrays of char*
                if target is None:
                    tg = flow.origins(f, i["ptr"])
                    if any(t[0] == "elem" and isinstance(t[1], tuple) and t[1][0] in ("field",) for t in tg) and R.kind:
                        base_ok = any(_through_result(f, R, t) for t in tg)
                        if base_ok:
                            target = "result-array"
            if target is None:
                continue
            nd += 1
            src = flow.origins(f, i["val"])
            ok = src and all(t[0] == "null" or (t[0] == "call" and (t[1] in ALLOCS or _returns_fresh(P, t[1]))) or t[0] == "const" for t in src)
            if ok:
                chk.ok("C17-DEEP", 1, {"store": i.loc(), "into": target} if nd % 9 == 0 else None)
            else:
                chk.violation("C17-DEEP", f.name, "%s@%s" % (target, rules.field_path_of_ptr(P, f, i["ptr"]) or "ptr"), i.loc(),
                              "a pointer that is not a fresh allocation is stored into %s: the result aliases library state" % target)
        # (b) block copies from shared entities into result memory that cover pointer leaves
        for i in f.all_insts():
            if not (i.op == "call" and i.callee and i.callee.startswith("llvm.memcpy")):
                continue
            ln = rules.const_of(f, i.args[2])
            dst_leaves = None
            where = None
            if R.kind and R.offset_of(i.args[0]) is not None and ln is not None:
                off = R.offset_of(i.args[0])
                dst_leaves = [(lo - off, isp, path) for (lo, sz, path, isp, dt) in R.leaves if off <= lo and lo + sz <= off + ln]
                where = ("result", None, off)
            for (a, eldt, esize) in arrs:
                off = elem_offset(f, i.args[0], a, esize)
                if off is not None and ln is not None:
                    lv = results.leaves_of(P, eldt)
                    dst_leaves = [(lo - off, isp, path) for (lo, sz, path, isp, dt) in lv if off <= lo and lo + sz <= off + ln]
                    where = ("array", a, off)
            if where is None:
                # copy into a heap array hanging off a pointer leaf of the result object: its element type must not contain pointers
                dres = f.resolve(rules.strip_casts(f, i.args[0]))
                if R.kind and dres is not None and dres.op == "load":
                    loff = R.offset_of(dres["ptr"])
                    if loff is not None:
                        for (lo, sz, path, isp, dt) in R.leaves:
                            if lo == loff and isp:
                                pt = P.di_strip(dt)
                                lv = results.leaves_of(P, pt["base"]) if pt and pt["kind"] == "pointer" else []
                                if any(x[3] for x in lv) and _from_shared(f, i.args[1]):
                                    nd += 1
                                    chk.violation("C17-DEEP", f.name, "%s[]:bulk-copy" % path, i.loc(),
                                                  "elements containing pointers (%s) are bulk-copied from library state into result.%s: the copied pointers alias the live state (shallow copy)" % (
                                                      ", ".join(x[2] for x in lv if x[3]), path))
            if where is None and ln is None:
                # variable-length copy into a result array: element type must not contain pointers
                for (a, eldt, esize) in arrs:
                    dbase = f.resolve(rules.strip_casts(f, i.args[0]))
                    if dbase is not None and dbase.op == "load" and dbase["ptr"].get("k") == "inst" and dbase["ptr"]["id"] == a.id:
                        lv = results.leaves_of(P, eldt)
                        if any(isp for (lo, sz, path, isp, dt) in lv) and _from_shared(f, i.args[1]):
                            nd += 1
                            chk.violation("C17-DEEP", f.name, "%s[]:bulk-copy" % a.get("var"), i.loc(),
                                          "elements containing pointers are bulk-copied from library state into '%s': the copied pointers alias the live state (shallow copy)" % a.get("var"))
                continue
            if where is None or not dst_leaves:
                continue
            if not _from_shared(f, i.args[1]):
                continue
            ptr_leaves = [(o, path) for (o, isp, path) in dst_leaves if isp]
            if not ptr_leaves:
                continue
            nd += 1
            missing = []
            for (o, path) in ptr_leaves:
                # a later store to that leaf (same object) that post-dominates the copy within the iteration
                redo = False
                for s in f.all_insts():
                    if s.op == "store" and s["vty"].endswith("*") and f.dominates(i, s):
                        if where[0] == "result" and R.offset_of(s["ptr"]) == where[2] + o:
                            redo = True
                        elif where[0] == "array" and elem_offset(f, s["ptr"], where[1], P.di_strip(eldt)["size"] if False else [e for (aa, ed, e) in arrs if aa is where[1]][0]) == where[2] + o:
                            redo = True
                if not redo:
                    missing.append(path)
            if missing:
                chk.violation("C17-DEEP", f.name, "copy:%s" % ",".join(missing), i.loc(), "a block copy from library state leaves pointer field(s) %s pointing into the live state (no deep copy follows)" % ", ".join(missing))
            else:
                chk.ok("C17-DEEP", 1, {"block_copy": i.loc(), "pointer_fields_recopied": [p for o, p in ptr_leaves]})
    chk.floor("pointer_stores_into_results", nd, 40)

    # ---- CNT: id-list length vs fill loop
    chk.rule("C17-CNT", "the element count of an id list and the loop that fills it are guarded by the same conditions")
    ncnt = 0
    for (f, R) in gs:
        cnt_cells = set()
        # count cell: local incremented (+= x) and stored into the result's length leaf
        for s in f.all_insts():
            if s.op == "store" and R.offset_of(s["ptr"]) is not None:
                src = rules.load_source(f, s["val"])
                if src and src[0] == "alloca":
                    cnt_cells.add(src[1])
        fills = [i for i in f.all_insts() if i.op == "store" and i["vty"] == "i8*" and any(t[0] == "call" and t[1] in ("strdup", "strndup") for t in flow.origins(f, i["val"]))
                 and any(i.bb.id in body for body in f.loops().values())]
        incs = []
        for s in f.all_insts():
            if s.op == "store" and s["ptr"].get("k") == "inst" and s["ptr"]["id"] in cnt_cells:
                v = f.resolve(rules.strip_casts(f, s["val"]))
                if v is not None and v.op == "add" and any(s.bb.id in body for body in f.loops().values()):
                    incs.append(s)
        if not incs or not fills:
            continue
        cnt_names = {f.insts[c].get("var") for c in cnt_cells}
        ncnt += 1
        gi = _guard_keys(f, incs[0])
        gf = _guard_keys(f, fills[0])
        extra = gf - gi
        # the fill loop may additionally be guarded by a test of the count itself ('count > 0')
        extra = {g for g in extra if not rules.key_mentions(g[0], lambda k: k[0] == "local" and k[1] in cnt_names)}
        missing = gi - gf
        if not extra and not missing:
            chk.ok("C17-CNT", 1, {"getter": f.name, "guards": len(gi)})
        else:
            chk.violation("C17-CNT", f.name, "count-vs-fill", incs[0].loc(),
                          "the list length (line %d) and the fill loop (line %d) are guarded by different conditions (%d only on the count, %d only on the fill): entries are left uninitialised or written past the array" % (
                              incs[0].line, fills[0].line, len(missing), len(extra)))
    chk.floor("counted_id_lists", ncnt, 8)

    # ---- FREE
    # ---- NAME: a result field is filled from the entity's field of the same name when the entity has one
    chk.rule("C17-NAME", "a result field copied from an entity is copied from the entity's member of the same name whenever the entity has such a member "
                         "(snapshot and single getter then report the same value)")
    nname = 0
    for f in P.repo_functions():
        if not f.blocks or not f.relfile.startswith("src/highlevel/bidib_highlevel_getter"):
            continue
        for st in f.all_insts():
            if st.op != "store" or st["ptr"].get("k") != "inst":
                continue
            dp = rules.field_path_of_ptr(P, f, st["ptr"])
            if not dp:
                continue
            srcs = _src_fields(P, f, st["val"])
            if not srcs:
                continue
            nname += 1
            dn = dp.split(".")[-1]
            if dn in {x.split(".")[-1] for x in srcs}:
                chk.ok("C17-NAME", 1, None)
                continue
            # does an entity the value comes from have a member (possibly nested) called like the destination?
            cand = None
            for x in srcs:
                sid = P.di_struct_by_name(x.split(".")[0])
                if sid is not None and dn in _member_names(P, sid):
                    cand = x
            if cand is None:
                chk.ok("C17-NAME", 1, None)
            else:
                chk.violation("C17-NAME", f.name, "%s<-%s" % (dp, cand), st.loc(), "%s is filled from %s although %s has a member '%s': the result reports another field's value" % (
                    dp, cand, cand.split(".")[0], dn))
    chk.floor("named_copies", nname, 40)

    # ---- NULL ids
    from .. import nullparam
    nullparam.run(chk, P, "C17-NULL", set(w.api), lambda f_: f_.relfile.startswith("src/highlevel/bidib_highlevel_getter"), 30)

    chk.rule("C17-FREE", "no free function frees the same field twice on one path")
    nfree = 0
    for name in sorted(w.api):
        f = P.functions.get(name)
        if f is None or not f.blocks or "free" not in name or "getter" not in f.relfile:
            continue
        frees = list(f.calls("free"))
        if not frees:
            continue
        nfree += 1
        bad = None
        keys = defaultdict(list)
        for c in frees:
            keys[rules.expr_key(f, c.args[0], copyprop=True)].append(c)
        dbl = None
        for k, cs in keys.items():
            for a in cs:
                for b in cs:
                    if a is not b and rules.exists_path(f, a, lambda x, b=b: x.id == b.id, lambda x: x.op == "store" and rules.expr_key(f, x["ptr"], copyprop=True) == (k[1] if k[0] == "load" else None)):
                        if not any(a.bb.id in body and b.bb.id in body for body in f.loops().values()):
                            dbl = (a, b)
        if bad is not None:
            chk.violation("C17-FREE", name, "foreign-free", bad.loc(), "%s frees something that is not a field of its argument" % name)
        elif dbl:
            chk.violation("C17-FREE", name, "double-free", dbl[0].loc(), "%s can free the same field twice on one path (lines %d and %d)" % (name, dbl[0].line, dbl[1].line))
        else:
            chk.ok("C17-FREE", 1, {"free_function": name, "frees": len(frees)})
    chk.floor("free_functions", nfree, 10)


def _through_result(f, R, tag):
    x = tag
    while x[0] in ("elem", "field") and isinstance(x[1], tuple):
        x = x[1]
    if x[0] == "param" and R.kind == "sret" and x[1] == R.sret:
        return True
    if x[0] == "alloca" and R.kind == "local" and x[1] == R.alloca:
        return True
    return False


def _from_shared(f, src):
    for t in flow.origins(f, src):
        x = t
        while x[0] in ("elem", "field") and isinstance(x[1], tuple):
            x = x[1]
        if x[0] in ("gload", "gaddr", "call", "param"):
            if x[0] == "call" and x[1] in ALLOCS:
                continue
            return True
    return False


def _returns_fresh(P, name):
    g = P.functions.get(name)
    if g is None or not g.blocks:
        return False
    for r in g.all_insts():
        if r.op == "ret" and "val" in r.d:
            if not all(t[0] == "null" or (t[0] == "call" and t[1] in ALLOCS) for t in flow.origins(g, r["val"])):
                return False
    return True


def _guard_keys(f, inst):
    """structural keys of the non-loop conditions guarding inst, with loop counters normalised"""
    out = set()
    counters = set()
    for h, body in f.loops().items():
        for b in body:
            for s in f.bmap[b].insts:
                if s.op == "store" and s["ptr"].get("k") == "inst":
                    v = f.resolve(rules.strip_casts(f, s["val"]))
                    if v is not None and v.op == "add" and rules.const_of(f, v["b"]) == 1:
                        counters.add(s["ptr"]["id"])

    def norm(k):
        if isinstance(k, tuple):
            if len(k) == 2 and k[0] == "alloca" and k[1] in counters:
                return ("ctr",)
            if len(k) == 2 and k[0] == "alloca":
                a = f.insts.get(k[1])
                return ("local", a.get("var") if a is not None else k[1])
            return tuple(norm(x) for x in k)
        return k
    for (gd, truth) in rules.branch_conditions(f, inst):
        cnd = f.resolve(gd["cond"])
        if cnd is None:
            continue
        if cnd.op == "phi":
            continue        # short-circuit results: their components are listed separately
        key = norm(rules.expr_key(f, gd["cond"], copyprop=True))
        if _is_loop_cond(f, gd, inst):
            continue
        # bounds checks on the running counters (i < len, current_index < count) are loop control, not selection
        if key[0] == "icmp" and key[1] in ("ult", "slt", "ule", "sle", "ugt", "sgt") and _mentions_ctr(key):
            continue
        out.add((key, truth))
    return out


def _is_loop_cond(f, gd, inst):
    cnd = f.resolve(gd["cond"])
    if cnd is None or cnd.op != "icmp" or cnd["pred"] not in ("ult", "slt", "ule", "sle"):
        return False
    return any(cnd.bb.id == h for h in f.loops())


def _loop_conds(f, inst):
    return set()


def _nested_struct_names(P, ditype, depth=0):
    out = set()
    t = P.di_strip(ditype)
    if t is None or depth > 4:
        return out
    if t["kind"] in ("struct", "union"):
        for m in t.get("members", []):
            md = P.di(m)
            out.add(P.di_name(md["base"]))
            out |= _nested_struct_names(P, md["base"], depth + 1)
    elif t["kind"] == "pointer":
        out |= _nested_struct_names(P, t["base"], depth + 1)
    return out


def _snapshot_reads(P, builders, ent_name):
    """'Entity.field' names read by the snapshot helper (a static builder that iterates the entity array) for this entity type"""
    out = set()
    for g in builders:
        if not g.internal:
            continue
        for i in g.all_insts():
            if i.op == "load" or (i.op == "call" and i.callee and i.callee.startswith("llvm.memcpy")):
                p = i["ptr"] if i.op == "load" else i.args[1]
                for n in rules.field_chain(P, g, rules.strip_casts(g, p)):
                    if n.startswith(ent_name + "."):
                        out.add(n)
    return out


def _mentions_ctr(key):
    if key == ("ctr",):
        return True
    if isinstance(key, tuple):
        return any(_mentions_ctr(k) for k in key if isinstance(k, tuple))
    return False
