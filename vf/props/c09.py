"""C09: high-level commands emit the configured messages or nothing (ERR return code vs. transmit, OPT optimistic update with submit, IDEQ exact id matching,
GROUP function-group ranges cover the bit being changed, RNG function bit index bounded, CONN = C15-CONN)."""
import os

from .. import flow, intervals, pathwalk, rules, sendapi
from ..build import AnalysisBroken, VERIF

LEVEL = "other"
FIXTURES = (os.path.join(VERIF, "fixtures", "canary_ideq.c"),)

# return 1 after a transmit when a lookup keyed by a configuration-derived id fails: infeasible in a started library
# (the parsers append mapping and state together or start fails); listed explicitly, see DESIGN C12-NUL construction table
CONSTRUCTION = {
    ("bidib_switch_point", "bidib_state_get_dcc_accessory_state_ref"): "a DCC accessory state exists for every DCC point mapping",
    ("bidib_set_signal", "bidib_state_get_dcc_accessory_state_ref"): "a DCC accessory state exists for every DCC signal mapping",
}
PREFIX_COMPARES = {"strncmp", "strncasecmp", "strcasecmp", "strstr", "g_str_has_prefix", "g_str_has_suffix", "memcmp", "g_ascii_strcasecmp", "g_ascii_strncasecmp", "strcoll"}


def run(chk, w):
    P = w.P
    S = sendapi.SendAPI(w)
    chk.explanation = ("Structural necessary conditions for 'configured message(s) or nothing': for every command function of the high-level setter/admin units, on every path "
                       "(return value constant-propagated) a non-zero result implies that nothing was submitted, and a zero result implies that a submit call (or a loop of submit "
                       "calls over a configured list) was passed (ERR); the DCC drive/accessory submit functions apply the optimistic state update on exactly the paths that "
                       "submit (OPT); identifiers are matched with exact string comparison only (IDEQ); in the train-function command each branch of the function-group ladder "
                       "preserves a bit range that contains every bit the branch can be handling (GROUP) and the group index is bounded by the parser's bit <= 31 rule (RNG); "
                       "commands go only to connected boards at their current address (CONN, shared with C15). Speed/aspect/function encodings are values and not decided.")
    cmds = [f for f in P.repo_functions() if f.ret == "i32" and "highlevel" in f.relfile and ("setter" in f.relfile or "admin" in f.relfile)]
    chk.floor("command_functions", len(cmds), 12)

    def is_tx(f, inst):
        return inst.op == "call" and inst.callee and (inst.callee in S.constructors or (inst.callee in P.functions and P.functions[inst.callee].ret != "i32" and rules.call_reaches(P, inst, set(S.constructors))))

    # ---- ERR
    chk.rule("C09-ERR", "non-zero result => nothing submitted; zero result => a submit call or submit loop was passed")
    npaths = 0
    nwrites = 0
    for f in sorted(cmds, key=lambda f: f.name):
        loops = f.loops()
        tx_loop_heads = {h for h, body in loops.items() if any(is_tx(f, i) for b in body for i in f.bmap[b].insts)}
        head_first = {f.bmap[h].insts[0].id for h in tx_loop_heads}
        res = {"bad": [], "paths": 0}
        state_writes = _state_writes(P, f)
        nwrites += len(state_writes)

        def on_inst(inst, u, facts, f=f, head_first=head_first, wr=state_writes):
            tx, loop, lookups, wrote = u
            if inst.id in head_first and not loop:
                u = (tx, True, lookups, wrote)
                tx, loop, lookups, wrote = u
            if is_tx(f, inst):
                return [(min(tx + 1, 2), loop, lookups, wrote)]
            if inst.op == "call" and inst.callee and any(inst.callee == k[1] and f.name == k[0] for k in CONSTRUCTION) and tx:
                return [(tx, loop, lookups + (inst.callee,), wrote)]
            if inst.id in wr and not wrote:
                return [(tx, loop, lookups, inst.id)]
            if inst.id in head_first:
                return [u]
            return None

        def on_exit(ret, u, facts, f=f, res=res):
            res["paths"] += 1
            tx, loop, lookups, wrote = u
            rv = wk.ev(ret["val"], facts) if "val" in ret.d else None
            if rv is None:
                # delegated result (return other_command(...)): the callee is a command function checked on its own;
                # this function must then not have touched the tracked state itself
                if wrote:
                    res["bad"].append((f.insts[wrote], "writes tracked state and returns a delegated result"))
                return
            if rv != 0 and wrote and not tx:
                res["bad"].append((f.insts[wrote], "returns %d after writing tracked state (line %d) without submitting" % (rv, f.insts[wrote].line)))
                return
            if rv != 0 and tx > 0:
                if lookups:
                    return      # construction table: failure of a configuration-derived lookup after submitting
                res["bad"].append((ret, "returns %d after submitting a message" % rv))
            elif rv == 0 and tx == 0 and not loop:
                res["bad"].append((ret, "returns 0 without having submitted anything"))

        cells = {cid: a for cid, a in pathwalk.tracked_cells(f).items() if a.get("var") in (None, "ret", "error", "retval") or f.is_bool_alloca(a)}
        wk = pathwalk.Walker(f, cells=cells, max_states=200000)
        wk.walk((0, False, (), 0), on_inst, on_exit)
        if wk.truncated:
            chk.abstain("C09-ERR", "path enumeration truncated", f.name)
            continue
        npaths += res["paths"]
        if res["bad"]:
            ret, why = res["bad"][0]
            kind = "state-write" if "tracked state" in why else ("tx-then-error" if "after submitting" in why else "ok-without-tx")
            chk.violation("C09-ERR", f.name, kind, ret.loc(), "%s %s" % (f.name, why))
        else:
            chk.ok("C09-ERR", 1, {"command": f.name, "paths": res["paths"]})
    chk.extra["command_paths"] = npaths
    chk.extra["direct_state_writes_in_commands"] = nwrites
    chk.floor("direct_state_writes_in_commands", nwrites, 2)
    for (fn, callee), why in CONSTRUCTION.items():
        chk.note("C09-ERR", "construction table: %s may return 1 after submitting when %s fails: %s" % (fn, callee, why))

    # ---- CONN: every message a command submits is addressed from a board's stored node address behind that board's connected flag
    chk.rule("C09-CONN", "every submit call of a command function takes its destination from a configured board's stored node address, behind a test of that board's connected flag")
    from . import c15
    sends = {(f.name, c.id): g for (f, c, g) in c15.board_addressed_sends(P, S, cmds)}
    ntx = 0
    for f in cmds:
        for c in f.calls():
            if not is_tx(f, c) or c.callee.endswith("flush"):
                continue
            ntx += 1
            g = sends.get((f.name, c.id))
            if g is None:
                chk.violation("C09-CONN", f.name, c.callee, c.loc(), "the destination of %s is not a configured board's stored node address" % c.callee)
            elif not g:
                chk.violation("C09-CONN", f.name, c.callee, c.loc(), "%s is submitted without a test of the owning board's connected flag" % c.callee)
            else:
                chk.ok("C09-CONN", 1)
    chk.floor("command_submit_calls", ntx, 12)

    # ---- ADDR: the stored address a command uses is the board's current one (every node-new notice for a configured board rewrites it)
    from . import c15
    c15.upd_rule(chk, P, c15.node_roles(P), "C09-ADDR")

    # ---- OPT
    opt_rule(chk, w, S, "C09-OPT")

    # ---- IDEQ
    ideq_rule(chk, P, "C09-IDEQ", 100)
    # canary: the fixture's strncmp must be seen by the same scan
    cf = P.functions.get("vf_canary_prefix_match")
    chk.canary("prefix_compare_detected", cf is not None and any(c.callee in PREFIX_COMPARES for c in cf.calls()))

    # ---- DIR
    dir_rule(chk, P, "C09-DIR")

    # ---- TRUNC: range checks see the argument, not a narrowed copy of it
    chk.rule("C09-TRUNC", "no range check of a high-level command is applied to a narrowed copy of a wider value that may not fit (interval analysis): an out-of-range "
                          "argument is rejected as such and never wrapped into the valid range first")
    E2 = intervals.Engine(w, set())
    ntr = 0
    for f in P.repo_functions():
        if not f.blocks or not f.relfile.startswith("src/highlevel/bidib_highlevel_setter"):
            continue
        fa = None
        for i in f.all_insts():
            if i.op != "trunc" or i.get("ty") not in ("i8", "i16"):
                continue
            fa = fa or E2.analysis(f, None)
            lo = hi = None
            for st in fa.pre.get(i.id, []):
                iv = fa.iv(i["a"], st)
                lo = iv[0] if lo is None else min(lo, iv[0])
                hi = iv[1] if hi is None else max(hi, iv[1])
            if lo is None:
                continue            # unreachable in the abstract interpretation
            ntr += 1
            bits = int(i["ty"][1:])
            if lo >= -(1 << (bits - 1)) and hi < (1 << bits):
                chk.ok("C09-TRUNC", 1, None)
            elif not _compared_with_constant(f, i):
                # a deliberate byte extraction (low / high byte of an address): the narrowed value is encoded, never range-checked
                chk.ok("C09-TRUNC", 1, None)
            else:
                chk.violation("C09-TRUNC", f.name, "trunc@%d" % i.line, i.loc(), "the value narrowed to %d bits at line %d may lie in [%s, %s]: it is wrapped modulo %d before any range check sees it, so an "
                              "out-of-range argument (e.g. a speed of 300) is accepted as a different, valid one" % (bits, i.line, lo, hi, 1 << bits))
    chk.floor("narrowing_conversions", ntr, 6)

    # ---- UNCOND
    uncond_rule(chk, P, S, "C09-UNCOND", [f_.name for f_ in P.repo_functions() if f_.relfile.startswith("src/highlevel/bidib_highlevel_setter")], 12)

    # ---- NULL names (shared with C17): a command naming nothing is refused, not dereferenced
    from .. import nullparam
    nullparam.run(chk, P, "C09-NULL", set(w.api), lambda f_: f_.relfile.startswith("src/highlevel/bidib_highlevel_setter"), 10)

    # ---- SPD: the speed magnitude handed to the encoder leaves room for the +1 offset below the direction bit
    chk.rule("C09-SPD", "every speed magnitude handed to the DCC speed encoder is within 0..mask-1 (out-of-range speeds are rejected before), so the direction bit is never disturbed")
    E = intervals.Engine(w, set())
    enc, mask = _speed_codec(P)
    nsp = 0
    for f in P.repo_functions():
        for c in f.calls(enc.name):
            nsp += 1
            fa = E.analysis(f)
            ivs = [fa.iv(c.args[0], st) for st in fa.pre.get(c.id, [])]
            if not ivs:
                chk.ok("C09-SPD", 1, {"call": c.loc(), "unreachable": True})
                continue
            lo, hi = min(i[0] for i in ivs), max(i[1] for i in ivs)
            if lo >= 0 and hi + 1 <= mask:
                chk.ok("C09-SPD", 1, {"call": c.loc(), "magnitude": [lo, hi], "mask": mask})
            else:
                chk.violation("C09-SPD", f.name, enc.name, c.loc(), "the speed magnitude can be %s..%s here; with the +1 offset it does not fit the %d-valued magnitude field and would flip the direction bit / wrap" % (lo, hi, mask + 1))
    chk.floor("speed_encoder_calls", nsp, 1)

    # ---- CAL: calibrated speed steps index the calibration list inside the length the parser guarantees
    chk.rule("C09-CAL", "the calibrated-speed subscript stays inside the calibration list, whose length the parser fixes on every non-error exit")
    N, pf = _calibration_length(P)
    ncal = 0
    for f in cmds:
        for i in f.all_insts():
            if i.op != "getelementptr" or not i["idx"]:
                continue
            b = f.resolve(rules.strip_casts(f, i["base"])) if i["base"].get("k") == "inst" else None
            if b is None or b.op != "load":
                continue
            ch = "".join(rules.field_chain(P, f, b["ptr"]))
            src = f.resolve(rules.strip_casts(f, _ptr_src(f, b["ptr"]))) if "_GArray.data" in ch else None
            if "_GArray.data" not in ch:
                continue
            holder = _ptr_src(f, b["ptr"])
            hi_ = f.resolve(holder) if holder.get("k") == "inst" else None
            arr = None
            if hi_ is not None and hi_.op == "getelementptr":
                al = f.resolve(rules.strip_casts(f, hi_["base"]))
                if al is not None and al.op == "load":
                    arr = rules.field_path_of_ptr(P, f, al["ptr"])
            if arr != "t_bidib_train.calibration":
                continue
            ncal += 1
            fa = E.analysis(f)
            ivs = []
            for st in fa.pre.get(i.id, []):
                l = fa.lf(i["idx"][0]["v"], st)
                ivs.append(fa.iv_lf(l, st) if l is not None else (-intervals.INF, intervals.INF))
            if N is None:
                chk.abstain("C09-CAL", "calibration length not derivable from the parser", i.loc())
            elif ivs and all(v[0] >= 0 and v[1] <= N - 1 for v in ivs):
                chk.ok("C09-CAL", 1, {"subscript": i.loc(), "index": [min(v[0] for v in ivs), max(v[1] for v in ivs)], "list_length": N, "length_from": pf.name})
            else:
                chk.violation("C09-CAL", f.name, "calibration", i.loc(), "the calibration subscript can be %s for a list of %d values" % (sorted(set(ivs)), N))
    chk.floor("calibration_subscripts", ncal, 2)

    # ---- GROUP + RNG in the train-function command
    chk.rule("C09-GROUP", "each branch of the function-group ladder preserves a bit range that contains every bit the branch can be handling in that group byte")
    chk.rule("C09-RNG", "the function-group byte index bit/8 stays inside the 4-byte group array (parser guarantees bit <= 31)")
    ngrp = 0
    for f in cmds:
        helper_calls = [c for c in f.calls() if c.callee in P.functions and _is_range_helper(P, P.functions[c.callee])]
        if not helper_calls:
            continue
        fa = E.analysis(f)
        for c in helper_calls:
            h = P.functions[c.callee]
            lo_incl, hi_incl = _helper_bounds(P, h)          # (param index, inclusive?) for lower and upper bound
            if lo_incl is None:
                chk.abstain("C09-GROUP", "range helper's comparisons not recognised", c.loc())
                continue
            start = rules.const_of(f, c.args[lo_incl[0]])
            end = rules.const_of(f, c.args[hi_incl[0]])
            if start is None or end is None:
                chk.abstain("C09-GROUP", "non-constant range", c.loc())
                continue
            H = (start if lo_incl[1] else start + 1, end if hi_incl[1] else end - 1)
            # byte the result goes to: &function_bits[k]
            k = None
            for a in c.args:
                g = f.resolve(rules.strip_casts(f, a)) if a.get("k") == "inst" else None
                if g is not None and g.op == "getelementptr" and not g["idx"]:
                    b = f.resolve(g["base"])
                    if b is not None and b.op == "alloca" and b["aty"].startswith("["):
                        k = g["off"]
            # range of the bit handled on this branch: interval of the ladder's subject at the call
            G = None
            for st in fa.pre.get(c.id, []):
                for fk, ub in st.facts.items():
                    pass
            G = _ladder_range(f, fa, c)
            ngrp += 1
            if k is None or G is None:
                chk.abstain("C09-GROUP", "group byte or ladder range not recognised", c.loc())
                continue
            need = (max(G[0], 8 * k), min(G[1], 8 * k + 7))
            if need[0] > need[1] or (H[0] <= need[0] and need[1] <= H[1]):
                chk.ok("C09-GROUP", 1, {"call": c.loc(), "branch_bits": list(G), "group_byte": k, "preserved": list(H)})
            else:
                chk.violation("C09-GROUP", f.name, "group%d" % k, c.loc(),
                              "on this branch the changed bit can be %d..%d (group byte %d) but only bits %d..%d of the group are preserved: the others are cleared in the command and in the tracked state" % (need[0], need[1], k, H[0], H[1]))
        # RNG: function_bits[bit / 8]
        for (gep, base) in intervals.array_accesses(P, f):
            if base[0] == "local":
                # the subscript derives from the mapping's bit field: its range comes from the field invariant bit <= 31
                ok, detail = intervals.check_gep(fa, gep, base)
                inv = _bit_invariant(P)
                idx_iv = _index_range(P, f, gep["idx"][0]["v"], inv) if inv is not None and len(gep["idx"]) == 1 else None
                if ok:
                    chk.ok("C09-RNG", 1)
                elif idx_iv is not None and gep["off"] + idx_iv[0] * gep["idx"][0]["scale"] >= 0 and gep["off"] + idx_iv[1] * gep["idx"][0]["scale"] + (gep["ressize"] or 1) <= base[2]:
                    chk.ok("C09-RNG", 1, {"subscript": gep.loc(), "index_range": list(idx_iv),
                                          "by": "field invariant t_bidib_train_peripheral_mapping.bit in [%d,%d]: every record appended to a train's peripheral list without the parser's error flag passed the range comparison" % inv})
                else:
                    chk.violation("C09-RNG", f.name, base[1], gep.loc(), "group byte index is not bounded: %s; field invariant for .bit: %s; index range: %s" % (detail, inv, idx_iv))
    if ngrp == 0:
        chk.abstain("C09-GROUP", "no function-group ladder with per-branch bit ranges found (e.g. rewritten as a table-driven loop): rule not applicable", "")


def opt_rule(chk, w, S, rid):
    """the DCC drive/accessory submit functions apply the optimistic update on exactly the paths that submit (shared by C07 and C09)"""
    P = w.P
    chk.rule(rid, "the DCC drive/accessory submit functions apply the optimistic update on exactly the paths that submit")
    updaters = {"bidib_state_cs_drive", "bidib_state_cs_accessory"}
    nopt = 0
    for f in P.repo_functions():
        ups = [c for c in f.calls() if c.callee in updaters]
        txs = [c for c in f.calls() if c.callee in S.constructors]
        if not ups or not txs or "lowlevel" not in f.relfile:
            continue
        nopt += 1
        ok = True
        for t in txs:
            # every path from the submit to return passes an update
            p = rules.exists_path(f, t, "exit", lambda x: x.op == "call" and x.callee in updaters)
            if p:
                chk.violation(rid, f.name, "submit-without-update", t.loc(), "a message is submitted and the function can return without the optimistic state update (%s)" % rules.path_text(p))
                ok = False
        for u in ups:
            if not any(f.dominates(t, u) for t in txs):
                chk.violation(rid, f.name, "update-without-submit", u.loc(), "the optimistic update can run on a path that did not submit the message (e.g. after a rejection)")
                ok = False
        if ok:
            chk.ok(rid, 1, {"function": f.name})
    chk.floor("optimistic_update_sites", nopt, 2)



def ideq_rule(chk, P, rid, floor, only=None):
    """shared with C14 (ids of the configuration are looked up with the same comparisons)"""
    chk.rule(rid, "identifiers are matched by exact string comparison: no prefix / partial / case-insensitive comparison in the library")
    n_cmp = 0
    for f in P.repo_functions():
        if only is not None and not only(f):
            continue
        for c in f.calls():
            if c.callee in ("strcmp", "g_strcmp0", "g_str_equal"):
                n_cmp += 1
            elif c.callee in PREFIX_COMPARES:
                if c.callee in ("strncmp", "memcmp") and _length_is_full(f, c):
                    n_cmp += 1          # bounded by strlen(operand) + 1: compares the terminator too, i.e. exact
                    continue
                if c.callee == "memcmp" and not any(_is_string_operand(P, f, a) for a in c.args[:2]):
                    continue            # a block compare of binary data (node addresses, unique ids), not a name match
                chk.violation(rid, f.name, c.callee, c.loc(), "%s is used to match strings: a name that merely starts with / contains a configured id would be accepted as that id" % c.callee)
    chk.ok(rid, n_cmp, {"exact_comparisons": n_cmp})
    chk.floor("string_comparisons", n_cmp, floor)


def _is_string_operand(P, f, o, depth=0):
    """the operand is text: a string literal, the buffer of a GString, a strdup/strlen-ed value, or a `char *` parameter / local (debug-info type)"""
    o = rules.strip_casts(f, o)
    if o.get("k") == "global":
        return "str" in o
    if o.get("k") == "arg":
        from ..nullparam import is_char_ptr
        return is_char_ptr(P, f, o["i"])
    if o.get("k") != "inst" or depth > 5:
        return False
    i = f.insts[o["id"]]
    if i.op == "load":
        if i["ptr"].get("k") == "inst":
            fp = rules.field_path_of_ptr(P, f, i["ptr"])
            if fp == "_GString.str":
                return True
            a = f.insts[i["ptr"]["id"]]
            if a.op == "alloca":
                t = P.di_strip(a.get("ditype", -1))
                if t and t["kind"] == "pointer":
                    b = P.di_strip(t["base"], typedefs=False)
                    if b and b.get("kind") == "base" and b.get("name") == "char":
                        return True
                o2 = rules.resolve_local(f, o)
                if o2 != o:
                    return _is_string_operand(P, f, o2, depth + 1)
            elif fp:
                # a `char *` member of a record
                sid = P.di_struct_by_name(fp.split(".")[0])
                for (n_, off_, sz_, mt_) in (P.di_members(sid) or []) if sid is not None else []:
                    if n_ == fp.split(".", 1)[1]:
                        t = P.di_strip(mt_)
                        if t and t["kind"] == "pointer":
                            b = P.di_strip(t["base"], typedefs=False)
                            return bool(b) and b.get("kind") == "base" and b.get("name") == "char"
        return False
    if i.op == "call":
        return i.callee in ("strdup", "g_strdup", "strndup")
    if i.op == "getelementptr":
        return _is_string_operand(P, f, i["base"], depth + 1)
    return False


def _length_is_full(f, c):
    """the length argument of a bounded comparison is strlen(one of its operands) + 1"""
    if len(c.args) < 3:
        return False
    n = f.resolve(rules.strip_casts(f, c.args[2])) if c.args[2].get("k") == "inst" else None
    if n is None or n.op != "add" or rules.const_of(f, n["b"]) != 1:
        return False
    sl = f.resolve(rules.strip_casts(f, n["a"])) if n["a"].get("k") == "inst" else None
    if sl is None or sl.op != "call" or sl.callee != "strlen":
        return False
    k = rules.expr_key(f, sl.args[0], copyprop=True)
    return k in (rules.expr_key(f, c.args[0], copyprop=True), rules.expr_key(f, c.args[1], copyprop=True))


def _speed_codec(P):
    """(encoder function, magnitude mask) of the DCC speed byte: the decoder masks the magnitude with a constant, the encoder ors the
    direction bit shifted by the mask's width and adds one for non-zero speeds"""
    enc = P.functions.get("bidib_lib_speed_to_dcc_format")
    dec = P.functions.get("bidib_dcc_speed_to_lib_format")
    if enc is None or dec is None:
        raise AnalysisBroken("speed conversion functions not found")
    masks = [rules.const_of(dec, i["b"]) for i in dec.all_insts() if i.op == "and" and rules.const_of(dec, i["b"]) not in (None, 1)]
    shifts = [rules.const_of(enc, i["b"]) for i in enc.all_insts() if i.op == "shl" and rules.const_of(enc, i["b"]) is not None]
    masks = [m for m in masks if m & (m + 1) == 0 and m > 1]
    # the direction bit: `dir << 7`, or a literal `dir ? 0x80 : 0` / `| 0x80`
    dirbits = [1 << sh for sh in shifts]
    for i in enc.all_insts():
        for k_ in ("a", "b"):
            cv = rules.const_of(enc, i[k_]) if k_ in i.d and isinstance(i[k_], dict) else None
            if cv is not None and cv > 1 and cv & (cv - 1) == 0 and i.op in ("or", "select", "xor", "add"):
                dirbits.append(cv)
        if i.op == "phi":
            for b_, v_ in i["incoming"]:
                cv = rules.const_of(enc, v_)
                if cv is not None and cv > 1 and cv & (cv - 1) == 0:
                    dirbits.append(cv)
        if i.op == "store":
            cv = rules.const_of(enc, i["val"])
            if cv is not None and cv > 1 and cv & (cv - 1) == 0:
                dirbits.append(cv)
    if not masks or not any(d_ == masks[0] + 1 for d_ in dirbits):
        raise AnalysisBroken("speed byte layout not recognised (mask %s, direction bit %s)" % (masks, sorted(set(dirbits))))
    return enc, masks[0]


def _compared_with_constant(f, tr):
    """the truncated value (through casts and locals it is stored to) is an operand of a comparison with a constant"""
    vals = {tr.id}
    cells = set()
    changed = True
    while changed:
        changed = False
        for i in f.all_insts():
            if i.id in vals:
                continue
            if i.op in ("zext", "sext", "trunc") and i["a"].get("k") == "inst" and i["a"]["id"] in vals:
                vals.add(i.id)
                changed = True
            elif i.op == "store" and i["val"].get("k") == "inst" and i["val"]["id"] in vals and i["ptr"].get("k") == "inst" and f.insts[i["ptr"]["id"]].op == "alloca":
                if i["ptr"]["id"] not in cells:
                    cells.add(i["ptr"]["id"])
                    changed = True
            elif i.op == "load" and i["ptr"].get("k") == "inst" and i["ptr"]["id"] in cells:
                # only locals that are assigned once (the narrowed copy), not reused scratch variables
                sts = [s_ for s_ in f.all_insts() if s_.op == "store" and s_["ptr"].get("k") == "inst" and s_["ptr"]["id"] == i["ptr"]["id"]]
                if len(sts) == 1:
                    vals.add(i.id)
                    changed = True
    for i in f.all_insts():
        if i.op == "icmp" and i["pred"] not in ("eq", "ne"):
            for a_, b_ in ((i["a"], i["b"]), (i["b"], i["a"])):
                if a_.get("k") == "inst" and a_["id"] in vals and rules.const_of(f, b_) is not None:
                    return True
    return False


def uncond_rule(chk, P, S, rid, fnames, floor):
    """shared with C16 / C20: whether a command's message is submitted does not depend on what the node has reported so far.  No transmit call site in
    the given functions is guarded by a condition over a field of a tracked-state record (t_bidib_*_state*): a 'redundant command' shortcut on cached
    feedback drops the command whenever the cache is stale (lost report, second track output, state changed behind the library's back)."""
    from .c02 import _cond_loads
    chk.rule(rid, "no message of a command is submitted or withheld depending on tracked feedback state: transmit call sites are not guarded by conditions over tracked-state records")
    n = 0
    for name in sorted(fnames):
        f = P.functions.get(name)
        if f is None or not f.blocks:
            continue
        for c in f.calls():
            if not (c.callee in P.functions and (c.callee in S.constructors or rules.call_reaches(P, c, set(S.constructors)))):
                continue
            n += 1
            dep = None
            for (gd, truth) in list(rules.conditions_at(f, c)) + rules.control_conditions(f, c):
                for l in _cond_loads(f, gd["cond"]):
                    fp = rules.field_path_of_ptr(P, f, l["ptr"]) if l["ptr"].get("k") == "inst" else None
                    if fp and "_state" in fp.split(".")[0] and not fp.endswith(".id"):
                        dep = (l, fp)
            if dep:
                chk.violation(rid, name, "%s:conditional" % c.callee, c.loc(), "%s is called only under a condition on %s (line %d): whether the command goes out depends on the cached "
                              "feedback, so it is dropped when the cache is stale or was set by another output" % (c.callee, dep[1], dep[0].line))
            else:
                chk.ok(rid, 1, None)
    chk.floor(rid.lower().replace("-", "_") + "_sites", n, floor)


def dir_rule(chk, P, rid):
    """shared with C07: the tracked direction of a train comes from the direction bit of the DCC speed byte.  The decoder maps both stop codes of
    either direction to 0, so a direction derived from the sign of the *decoded* speed is wrong whenever the train stands still."""
    chk.rule(rid, "the tracked direction flag is never computed from the decoded (signed) speed: at speed 0 the sign carries no direction, only the speed byte's direction bit does")
    dec = P.functions.get("bidib_dcc_speed_to_lib_format")
    if dec is None:
        raise AnalysisBroken("speed decoder not found")
    enc, mask = _speed_codec(P)
    n = 0
    for f in P.repo_functions():
        if not f.blocks or not f.relfile.startswith(("src/state/", "src/highlevel/", "src/lowlevel/")):
            continue
        for s in f.all_insts():
            if s.op != "store" or s["ptr"].get("k") != "inst":
                continue
            fp = rules.field_path_of_ptr(P, f, s["ptr"])
            if not fp or not fp.endswith("is_forwards") or rules.const_of(f, s["val"]) is not None:
                continue
            n += 1
            hit = _tree_find(f, s["val"], lambda i: i.op == "call" and i.callee == dec.name)
            if hit is not None:
                chk.violation(rid, f.name, fp, s.loc(), "%s is computed from the result of %s (line %d): for a stopped train the decoded speed is 0 in both directions, "
                              "so the direction of a reversed train flips to forwards when it stops" % (fp.split(".")[-1], dec.name, hit.line))
            else:
                bit = _tree_find(f, s["val"], lambda i: any(rules.const_of(f, i[k_]) in (mask + 1, mask) for k_ in ("a", "b") if k_ in i.d and isinstance(i[k_], dict))
                                 or (i.op in ("lshr", "ashr") and rules.const_of(f, i["b"]) == mask.bit_length()))
                chk.ok(rid, 1, {"store": s.loc(), "from": "direction bit 0x%02x of the speed byte" % (mask + 1) if bit is not None else "a value that does not pass through the decoder"})
    chk.floor(rid.lower().replace("-", "_") + "_stores", n, 1)


def _tree_find(f, o, pred, depth=0, seen=None):
    """an instruction of the operand's expression tree (through single-assignment locals, casts, arithmetic, phis) that satisfies pred"""
    seen = set() if seen is None else seen
    if o.get("k") != "inst" or depth > 10 or o["id"] in seen:
        return None
    seen.add(o["id"])
    o2 = rules.resolve_local(f, o)
    if o2 != o:
        return _tree_find(f, o2, pred, depth + 1, seen)
    i = f.insts[o["id"]]
    if pred(i):
        return i
    if i.op == "phi":
        for (_, v) in i["incoming"]:
            r = _tree_find(f, v, pred, depth + 1, seen)
            if r is not None:
                return r
        return None
    if i.op == "call":
        return None
    for k_ in ("a", "b", "c"):
        if k_ in i.d and isinstance(i[k_], dict):
            r = _tree_find(f, i[k_], pred, depth + 1, seen)
            if r is not None:
                return r
    return None


def _calibration_length(P):
    """(N, parser function): every non-error exit of the calibration parser has appended exactly N values to the train's calibration list"""
    for f in P.repo_functions():
        if "parser" not in f.relfile:
            continue
        apps = [c for c in f.calls() if c.callee == "g_array_append_vals" and "t_bidib_train.calibration" in "".join(rules.field_chain(P, f, _ptr_src(f, c.args[0])))]
        if not apps:
            continue
        ids = {c.id for c in apps}
        cells = pathwalk.tracked_cells(f)
        err = [cid for cid, a in cells.items() if a.get("var") == "error"]
        counts = set()

        def on_inst(inst, u, facts):
            if inst.id in ids:
                return [min(u + 1, 64)]
            return None

        def on_exit(ret, u, facts):
            rv = wk.ev(ret["val"], facts) if "val" in ret.d else None
            if rv == 0:
                counts.add(u)
            elif rv is None:
                counts.add(None)

        wk = pathwalk.Walker(f, cells=cells, max_states=300000)
        wk.walk(0, on_inst, on_exit)
        if wk.truncated or len(counts) != 1 or None in counts:
            return None, f
        return counts.pop(), f
    return None, None


def _ptr_src(f, o):
    """the pointer expression a loaded pointer value was loaded from (so that its field chain can be read)"""
    i = f.resolve(rules.strip_casts(f, o)) if o.get("k") == "inst" else None
    if i is not None and i.op == "load":
        return i["ptr"]
    return o


def _state_rooted(P, f, o, depth=0, seen=None):
    """the pointer derives from a tracked-state reference: the result of a pointer-returning function of the state units, or a mutable library global"""
    seen = seen if seen is not None else set()
    for _ in range(12):
        if not isinstance(o, dict):
            return False
        if o.get("k") == "global":
            g = P.globals.get(o["name"])
            return bool(g) and not g.get("const")
        if o.get("k") != "inst":
            return False
        o = rules.strip_casts(f, o)
        i = f.resolve(o)
        if i is None:
            return False
        if i.op == "getelementptr":
            o = i["base"]
        elif i.op == "load":
            a = f.resolve(i["ptr"]) if i["ptr"].get("k") == "inst" else None
            if a is not None and a.op == "alloca":
                if a.id in seen or depth > 4:
                    return False
                seen.add(a.id)
                return any(_state_rooted(P, f, s["val"], depth + 1, seen) for s in f.all_insts()
                           if s.op == "store" and s["ptr"].get("k") == "inst" and s["ptr"]["id"] == a.id)
            o = i["ptr"]
        elif i.op == "call":
            g = P.functions.get(i.callee or "")
            return g is not None and g.blocks and (os.sep + "state" + os.sep) in (os.sep + g.relfile) and g.ret.endswith("*")
        elif i.op == "phi":
            return any(_state_rooted(P, f, x[1], depth + 1, seen) for x in i["incoming"])
        else:
            return False
    return False


def _state_writes(P, f):
    """instruction ids of direct writes to tracked state in f: stores through a state-rooted pointer and frees of state-rooted fields"""
    out = set()
    for i in f.all_insts():
        if i.op == "store" and i["ptr"].get("k") == "inst" and _state_rooted(P, f, i["ptr"]):
            out.add(i.id)
        elif i.op == "call" and i.callee in ("free", "g_string_free", "g_array_free") and i.args and _state_rooted(P, f, i.args[0]):
            out.add(i.id)
    return out


def _is_range_helper(P, h):
    """takes two integer bounds and an out pointer, compares a loaded 'bit' field with both bounds"""
    ints = [k for k, p in enumerate(h.params) if p["type"] in ("i64", "i32", "i8")]
    if len(ints) < 2 or not h.internal:
        return False
    lo, hi = _helper_bounds(P, h)
    return lo is not None


def _helper_bounds(P, h):
    """((param index, inclusive), (param index, inclusive)) of the lower / upper bound comparisons against a '.bit' field"""
    lo = hi = None
    for i in h.all_insts():
        if i.op != "icmp":
            continue
        a = h.resolve(rules.strip_casts(h, i["a"]))
        b = h.resolve(rules.strip_casts(h, i["b"]))
        def is_bit(x):
            return x is not None and x.op == "load" and (rules.field_path_of_ptr(P, h, x["ptr"]) or "").endswith(".bit")
        def param_of(x):
            if x is not None and x.op == "load":
                al = h.resolve(x["ptr"])
                if al is not None and al.op == "alloca":
                    return h.param_index_of_alloca(al)
            return None
        if is_bit(a) and param_of(b) is not None:
            p, pred = param_of(b), i["pred"]
        elif is_bit(b) and param_of(a) is not None:
            p, pred = param_of(a), {"uge": "ule", "ugt": "ult", "ule": "uge", "ult": "ugt", "sge": "sle", "sgt": "slt", "sle": "sge", "slt": "sgt"}.get(i["pred"], i["pred"])
        else:
            continue
        if pred in ("uge", "sge"):
            lo = (p, True)
        elif pred in ("ugt", "sgt"):
            lo = (p, False)
        elif pred in ("ule", "sle"):
            hi = (p, True)
        elif pred in ("ult", "slt"):
            hi = (p, False)
    if lo is None or hi is None:
        return None, None
    return lo, hi


def _ladder_range(f, fa, call):
    """range of the '.bit' value on the branch that contains call, from the dominating ladder comparisons bit < c"""
    lo, hi = 0, 31
    for (gd, truth) in rules.branch_conditions(f, call):
        cnd = f.resolve(gd["cond"])
        if cnd is None or cnd.op != "icmp":
            continue
        a = f.resolve(rules.strip_casts(f, cnd["a"]))
        cv = rules.const_of(f, cnd["b"])
        if a is None or a.op != "load" or cv is None or not (rules.field_path_of_ptr(fa.P, f, a["ptr"]) or "").endswith(".bit"):
            continue
        pred = cnd["pred"]
        if pred in ("slt", "ult"):
            if truth:
                hi = min(hi, cv - 1)
            else:
                lo = max(lo, cv)
        elif pred in ("sle", "ule"):
            if truth:
                hi = min(hi, cv)
            else:
                lo = max(lo, cv + 1)
    return (lo, hi)


def _bit_invariant(P):
    """field invariant of t_bidib_train_peripheral_mapping.bit over the records that reach a train's peripheral list in a started library:
    every append of such a record happens with the parser's error flag set (start then fails) or after the record's bit passed a
    comparison against a constant bound on that path (flags and the parser's enum state are constant-propagated).  -> (0, bound) or None"""
    REC = "t_bidib_train_peripheral_mapping"
    bound = None
    nsites = 0
    for f in P.repo_functions():
        recs = {a.id for a in f.allocas().values() if P.di_name(a.get("ditype", -1)) == REC}
        if not recs:
            continue
        appends = [c for c in f.calls() if c.callee in ("g_array_append_vals", "g_array_insert_vals", "g_array_prepend_vals")
                   and any(_base_alloca(f, a) in recs for a in c.args[1:])]
        if not appends:
            continue
        nsites += len(appends)
        cells = {}
        for cid, a in pathwalk.tracked_cells(f).items():
            t = P.di_strip(a.get("ditype", -1))
            if t and ((t.get("kind") == "base" and t.get("name") == "_Bool") or t.get("kind") == "enum"):
                cells[cid] = a
        err = [cid for cid, a in cells.items() if a.get("var") == "error"]
        bad = []
        bounds = set()

        def is_bit_ptr(o):
            return _base_alloca(f, o) in recs and (rules.field_path_of_ptr(P, f, o) or "").endswith(".bit")

        def on_inst(inst, u, facts):
            if inst.op == "call" and any(a.get("k") == "inst" and is_bit_ptr(a) for a in inst.args):
                return ["unchecked"]
            if inst.op == "store" and is_bit_ptr(inst["ptr"]):
                c = rules.const_of(f, inst["val"])
                return [("checked", c)] if c is not None else ["unchecked"]
            if inst.op == "call" and inst in appends:
                e = facts.get(err[0]) if err else None
                if not (e is not None and e != 0):
                    if isinstance(u, tuple):
                        bounds.add(u[1])
                    else:
                        bad.append((inst, u))
            return None

        def on_edge(br, succ, u, facts):
            if br.op != "br" or "cond" not in br.d:
                return u
            c = f.resolve(br["cond"])
            if c is None or c.op != "icmp":
                return u
            a = f.resolve(rules.strip_casts(f, c["a"]))
            cv = rules.const_of(f, c["b"])
            if a is None or a.op != "load" or cv is None or not is_bit_ptr(a["ptr"]):
                return u
            taken = succ == br["t"]
            hi = None
            if c["pred"] in ("ugt", "sgt") and not taken:
                hi = cv
            elif c["pred"] in ("uge", "sge") and not taken:
                hi = cv - 1
            elif c["pred"] in ("ule", "sle") and taken:
                hi = cv
            elif c["pred"] in ("ult", "slt") and taken:
                hi = cv - 1
            if hi is not None and u == "unchecked":
                return ("checked", hi)
            return u

        wk = pathwalk.Walker(f, cells=cells, max_states=300000)
        wk.walk("unset", on_inst, None, on_edge=on_edge)
        if wk.truncated or bad or not bounds:
            return None
        b = max(bounds)
        bound = b if bound is None else max(bound, b)
    if not nsites or bound is None:
        return None
    return (0, bound)


def _index_range(P, f, o, inv, depth=0):
    """interval of an index expression built from a load of the .bit field by casts, division, shift, remainder and masks"""
    if depth > 8:
        return None
    c = rules.const_of(f, o)
    if c is not None:
        return (c, c)
    i = f.resolve(o) if o.get("k") == "inst" else None
    if i is None:
        return None
    if i.op in ("zext", "sext", "trunc"):
        return _index_range(P, f, i["a"] if "a" in i.d else i["val"], inv, depth + 1)
    if i.op == "load":
        return inv if (rules.field_path_of_ptr(P, f, i["ptr"]) or "").endswith("t_bidib_train_peripheral_mapping.bit") else None
    if i.op in ("sdiv", "udiv", "lshr", "ashr", "urem", "srem", "and"):
        a = _index_range(P, f, i["a"], inv, depth + 1)
        b = rules.const_of(f, i["b"])
        if a is None or b is None or a[0] < 0 or b <= 0:
            return None
        if i.op in ("sdiv", "udiv"):
            return (a[0] // b, a[1] // b)
        if i.op in ("lshr", "ashr"):
            return (a[0] >> b, a[1] >> b)
        if i.op in ("urem", "srem"):
            return (0, min(a[1], b - 1))
        return (0, min(a[1], b))
    return None


def _base_alloca(f, o):
    for _ in range(8):
        if not isinstance(o, dict) or o.get("k") != "inst":
            return None
        o = rules.strip_casts(f, o)
        i = f.resolve(o)
        if i is None:
            return None
        if i.op == "alloca":
            return i.id
        if i.op == "getelementptr":
            o = i["base"]
        else:
            return None
    return None
