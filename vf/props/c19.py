"""C19: secure-ACK mirroring (GUARD, WMC, ARGS, FLUSH, WMW)."""
from .. import dispatch, flow, rules, sendapi
from ..build import AnalysisBroken

LEVEL = "other"
FIELD = "t_bidib_board.secack_on"
PAIRS = [("MSG_BM_OCC", "MSG_BM_MIRROR_OCC"), ("MSG_BM_FREE", "MSG_BM_MIRROR_FREE"), ("MSG_BM_MULTIPLE", "MSG_BM_MIRROR_MULTIPLE"),
         ("MSG_BM_POSITION", "MSG_BM_MIRROR_POSITION")]


def leaf_values(f, o, depth=0, seen=None):
    """non-phi leaves of a value through phi / casts / single-store locals"""
    seen = seen if seen is not None else set()
    o = rules.strip_casts(f, o)
    i = f.resolve(o)
    if i is None or depth > 8 or i.id in seen:
        return [o]
    seen.add(i.id)
    if i.op == "phi":
        out = []
        for b, v in i["incoming"]:
            out += leaf_values(f, v, depth + 1, seen)
        return out
    if i.op == "icmp" and rules.const_of(f, i["b"]) == 0 and i["pred"] == "ne":
        return leaf_values(f, i["a"], depth + 1, seen)
    if i.op == "select" and rules.const_of(f, i["a"]) not in (None, 0) and rules.const_of(f, i["b"]) == 0:
        # `cond ? 1 : 0`: true exactly when cond is
        return leaf_values(f, i["cond"], depth + 1, seen)
    return [o]


def deep_leaves(P, f, o, depth=0):
    """leaf values of a flag, following helper functions: a call to a repo function is replaced by the leaves of what it returns"""
    out = []
    for leaf in leaf_values(f, o):
        li = f.resolve(leaf)
        if li is not None and li.op == "call" and li.callee in P.functions and P.functions[li.callee].blocks and depth < 3:
            g = P.functions[li.callee]
            for r in g.all_insts():
                if r.op == "ret" and "val" in r.d:
                    out += deep_leaves(P, g, r["val"], depth + 1)
        elif li is not None and li.op == "load" and li["ptr"].get("k") == "inst" and f.insts[li["ptr"]["id"]].op == "alloca" and depth < 6:
            sts = [s for s in f.all_insts() if s.op == "store" and s["ptr"].get("k") == "inst" and s["ptr"]["id"] == li["ptr"]["id"]]
            if sts and not any(s["val"].get("k") == "arg" for s in sts):
                for s in sts:
                    out += deep_leaves(P, f, s["val"], depth + 1)
            else:
                out.append((f, leaf))
        else:
            out.append((f, leaf))
    return out


def _flag_loads(P, f, o, depth=0):
    """loads of the secack_on member (of a board obtained from a lookup call) that feed a condition"""
    out = []
    if o.get("k") != "inst" or depth > 8:
        return out
    i = f.insts[o["id"]]
    if i.op == "load":
        if i["ptr"].get("k") == "inst" and rules.field_path_of_ptr(P, f, i["ptr"]) == FIELD:
            bp = f.resolve(i["ptr"])
            tags = flow.origins(f, bp["base"]) if bp is not None and bp.op == "getelementptr" else set()
            if any(t[0] == "call" for t in tags):
                return [i]
        return out
    for k in ("a", "b"):
        if k in i.d and isinstance(i[k], dict):
            out += _flag_loads(P, f, i[k], depth + 1)
    return out


def _describe(f, leaf):
    li = f.resolve(leaf)
    if li is not None and li.op == "load" and li["ptr"].get("k") == "global":
        return "the global %s" % li["ptr"]["name"]
    if li is not None:
        return "a %s at line %d" % (li.op, li.line)
    return str(leaf.get("k"))


def run(chk, w):
    P = w.P
    D = dispatch.Dispatch(w)
    S = sendapi.SendAPI(w)
    disp = D.fn
    chk.explanation = ("For the four occupancy report types the dispatcher's paths are enumerated: a mirror message of the matching type is sent on exactly the paths "
                       "where the local flag copied from the sender board's secack_on (looked up by the sender's address) is true, at most once per path, with "
                       "the report's own leading data bytes and the sender's address as arguments, and followed by a flush before the case ends; mirror encoders "
                       "have no other internal caller; secack_on is written only by the board parser (false at creation, true under feature 0x03 with value > 0). "
                       "Delivery while the node is stalled/over budget is a history property and not decided.")
    mirror_types = {w.macro(m): m for _r, m in PAIRS}
    senders = S.senders_of(set(mirror_types))
    chk.floor("mirror_encoders", len(senders), 4)
    enc_of = {}
    for fname, lst in senders.items():
        for (c, t) in lst:
            enc_of[t] = fname
    chk.extra["mirror_encoders"] = {mirror_types[t]: n for t, n in enc_of.items()}

    chk.rule("C19-WMC", "mirror encoders are called from the dispatcher only (no other internal caller)")
    for t, fname in sorted(enc_of.items()):
        callers = {cf.name for cf, ci in P.callers().get(fname, [])}
        if callers <= {disp.name}:
            chk.ok("C19-WMC", 1, {"encoder": fname, "callers": sorted(callers)})
        else:
            chk.violation("C19-WMC", fname, "callers", "%s:%d" % (P.functions[fname].relfile, P.functions[fname].line),
                          "%s is also called from %s: boards without the feature could be sent mirror messages" % (fname, sorted(callers - {disp.name})))

    chk.rule("C19-GUARD", "the mirror call is control dependent on the sender board's secack_on flag (board found by the sender's address)")
    chk.rule("C19-ONCE", "per report: no mirror when the flag is false, exactly one mirror of the matching type when true, followed by a flush")
    chk.rule("C19-ARGS", "the mirror carries the sender's address and the report's leading data bytes in order")
    for rep, mir in PAIRS:
        tv = w.macro(rep)
        enc = enc_of.get(w.macro(mir))
        if enc is None:
            raise AnalysisBroken("no encoder for %s" % mir)
        paths = [p for p in D.summaries(tv) if not (len(p) == 1 and p[0][0] == "queue")]
        all_enc = set(enc_of.values())
        with_m = without_m = 0
        for p in paths:
            calls = [e for e in p if e[0] == "call"]
            mcalls = [e for e in calls if e[1] in all_enc]
            if not mcalls:
                without_m += 1
                continue
            with_m += 1
            if len(mcalls) > 1 or mcalls[0][1] != enc:
                chk.violation("C19-ONCE", disp.name, rep, "%s:%d" % (disp.relfile, mcalls[0][2]), "%s: %d mirror calls on one path / wrong mirror type (%s)" % (rep, len(mcalls), [m[1] for m in mcalls]))
                continue
            idx = p.index(mcalls[0])
            flushed = any(e[0] == "call" and e[1] == "bidib_flush" for e in p[idx + 1:])
            if flushed:
                chk.ok("C19-ONCE", 1, {"report": rep, "mirror": enc, "flush_after": True})
            elif _flushed_by_caller(P, disp, all_enc):
                chk.ok("C19-ONCE", 1, {"report": rep, "mirror": enc, "flush_after": "in the dispatcher's caller, on every path with a buffered mirror (path-sensitive walk)"})
            else:
                chk.violation("C19-ONCE", disp.name, rep + ":flush", "%s:%d" % (disp.relfile, mcalls[0][2]), "%s: the mirror message is not flushed before the case ends (it would wait for a manual or timed flush)" % rep)
        if with_m == 0:
            chk.violation("C19-ONCE", disp.name, rep + ":missing", "%s:%d" % (disp.relfile, disp.line), "%s: no path sends the mirror message" % rep)
        if without_m == 0:
            chk.violation("C19-ONCE", disp.name, rep + ":unconditional", "%s:%d" % (disp.relfile, disp.line), "%s: every path sends a mirror message, boards without secure-ACK included" % rep)
        # guard + args on the call instruction(s)
        for c in disp.calls(enc):
            # only calls in this report's case: reached by a path of this type
            if not any(e[0] == "call" and e[3] == c.id for p in paths for e in p if e[0] == "call"):
                continue
            guard_ok = False
            why = None
            for (gd, truth) in rules.branch_conditions(disp, c):
                # `mode == REQUIRED` with an enum / int flag: every store of that constant is made under the board's secack_on being true
                cnd_ = disp.resolve(gd["cond"])
                if cnd_ is not None and cnd_.op == "icmp" and cnd_["pred"] in ("eq", "ne") and rules.const_of(disp, cnd_["b"]) is not None:
                    src_ = rules.load_source(disp, cnd_["a"])
                    if src_ and src_[0] == "alloca" and (cnd_["pred"] == "eq") == truth:
                        kval = rules.const_of(disp, cnd_["b"])
                        sts_ = [s_ for s_ in disp.all_insts() if s_.op == "store" and s_["ptr"].get("k") == "inst" and s_["ptr"]["id"] == src_[1]]
                        if sts_ and all(rules.const_of(disp, s_["val"]) is not None for s_ in sts_):
                            ks_ = [s_ for s_ in sts_ if rules.const_of(disp, s_["val"]) == kval]
                            def _under_flag(s_):
                                for (g2, t2) in rules.conditions_at(disp, s_):
                                    if not t2:
                                        continue
                                    for l_ in _flag_loads(P, disp, g2["cond"]):
                                        return True
                                return False
                            if ks_ and all(_under_flag(s_) for s_ in ks_):
                                guard_ok = True
                                continue
                # `if (flag)`, `if (flag != 0)`, `if (!(flag == 0))`: the flag being non-zero
                gcond, gtruth = gd["cond"], truth
                if cnd_ is not None and cnd_.op == "icmp" and cnd_["pred"] in ("eq", "ne") and rules.const_of(disp, cnd_["b"]) == 0:
                    gcond, gtruth = cnd_["a"], (truth == (cnd_["pred"] == "ne"))
                if not gtruth:
                    continue
                src = rules.load_source(disp, gcond)
                if src is None or src[0] != "alloca":
                    continue
                cell = src[1]
                stores = [s for s in disp.all_insts() if s.op == "store" and s["ptr"].get("k") == "inst" and s["ptr"]["id"] == cell]
                # reaching definition: the stores that dominate the guard's own load (each case assigns the flag itself)
                gl = disp.resolve(rules.strip_casts(disp, gcond))
                while gl is not None and gl.op != "load":
                    gl = disp.resolve(rules.strip_casts(disp, gl["a"])) if "a" in gl.d else None
                if gl is not None:
                    dom = [s for s in stores if disp.dominates(s, gl)]
                    if dom:
                        last = [s for s in dom if not any(disp.dominates(s, s2) and s2 is not s for s2 in dom)]
                        stores = last or dom
                good = bool(stores)
                why = None
                for s in stores:
                    for (lf_fn, leaf) in deep_leaves(P, disp, s["val"]):
                        li = lf_fn.resolve(leaf)
                        if leaf.get("k") == "const" and (leaf["v"] & 1) == 0:
                            continue
                        if li is not None and li.op == "load" and rules.field_path_of_ptr(P, lf_fn, li["ptr"]) == FIELD:
                            # the board pointer comes from a lookup (a call result)
                            bp = lf_fn.resolve(li["ptr"])
                            tags = flow.origins(lf_fn, bp["base"]) if bp is not None and bp.op == "getelementptr" else set()
                            if any(t[0] == "call" for t in tags):
                                continue
                        good = False
                        why = "depends on %s in %s" % (_describe(lf_fn, leaf), lf_fn.name)
                # a flag computed by a helper: every path through the helper consults the board (no return that decides 'no mirror' before the lookup)
                if good:
                    for s in stores:
                        for (lf_fn, leaf) in deep_leaves(P, disp, s["val"]):
                            if lf_fn is disp:
                                continue
                            li = lf_fn.resolve(leaf)
                            if li is None or li.op != "load" or rules.field_path_of_ptr(P, lf_fn, li["ptr"]) != FIELD:
                                continue
                            bp = lf_fn.resolve(li["ptr"])
                            lk = [t for t in (flow.origins(lf_fn, bp["base"]) if bp is not None and bp.op == "getelementptr" else set()) if t[0] == "call"]
                            lk_ids = {t[2] for t in lk if len(t) > 2}
                            if not lk_ids:
                                continue
                            pth = rules.exists_path(lf_fn, lf_fn.blocks[0].insts[0], "exit", lambda x, ids=lk_ids: x.id in ids, include_start=True)
                            if pth:
                                good = False
                                why = "%s can return without looking the sender board up (%s)" % (lf_fn.name, rules.path_text(pth))
                if good:
                    guard_ok = True
            if guard_ok:
                chk.ok("C19-GUARD", 1, {"report": rep, "mirror_call": c.loc()})
            else:
                chk.violation("C19-GUARD", disp.name, rep, c.loc(), "%s: the mirror call is not guarded by (only) the sender board's current secack_on flag%s" % (rep, (": " + why) if why else ""))
            # ARGS
            offs = []
            addr_ok = False
            bad = None
            for j, a in enumerate(c.args):
                if a.get("k") == "const":
                    continue
                key = rules.expr_key(disp, a, copyprop=False)
                tags = dispatch._deep_param(disp, a)
                ftags = flow.origins(disp, a)
                if j == 0:
                    # by-value address struct: a local filled from the address-stack parameter
                    addr_ok = _from_addr_param(disp, a, D)
                    continue
                k = _msg_offset(disp, a, D)
                if k is None:
                    bad = j
                else:
                    offs.append(k)
            if not addr_ok:
                chk.violation("C19-ARGS", disp.name, rep + ":address", c.loc(), "%s: the mirror is not addressed to the sender of the report" % rep)
            elif bad is not None:
                chk.violation("C19-ARGS", disp.name, rep + ":arg%d" % bad, c.loc(), "%s: mirror argument %d is not a byte of the received report" % (rep, bad))
            elif offs != list(range(len(offs))):
                chk.violation("C19-ARGS", disp.name, rep + ":order", c.loc(), "%s: mirror arguments are report bytes at data offsets %s, expected %s" % (rep, offs, list(range(len(offs)))))
            else:
                chk.ok("C19-ARGS", 1, {"report": rep, "data_offsets": offs})

    # ---- WMW
    chk.rule("C19-WMW", "secack_on is written only by the board parser: false at record creation, true under feature number 0x03 with a value > 0")
    sts = rules.stores_to_field(P, FIELD)
    chk.floor("secack_stores", len(sts), 2)
    for (f, s) in sts:
        v = rules.const_of(f, s["val"])
        if "parser" not in f.relfile:
            chk.violation("C19-WMW", f.name, FIELD, s.loc(), "secack_on written outside the configuration parser")
            continue
        if v is None:
            chk.violation("C19-WMW", f.name, FIELD, s.loc(), "secack_on assigned a non-constant value")
        elif v & 1:
            g3 = gpos = False
            for (gd, truth) in rules.branch_conditions(f, s):
                cnd = f.resolve(gd["cond"])
                if cnd is not None and cnd.op == "icmp":
                    cv = rules.const_of(f, cnd["b"])
                    if cnd["pred"] == "eq" and truth and cv == 3:
                        g3 = True
                    if (cnd["pred"] in ("sgt", "ugt") and truth and cv == 0) or (cnd["pred"] == "ne" and truth and cv == 0):
                        gpos = True
            if g3 and gpos:
                chk.ok("C19-WMW", 1, {"store": s.loc(), "value": True, "guard": "number == 0x03 && value > 0"})
            else:
                chk.violation("C19-WMW", f.name, FIELD + ":true", s.loc(), "secack_on set without the guard 'feature number == 0x03 and value > 0'")
        else:
            chk.ok("C19-WMW", 1, {"store": s.loc(), "value": False})


def _msg_offset(disp, a, D):
    """argument is message[data_index + k] (value) or &message[data_index + k] (pointer): return k, else None"""
    o = rules.resolve_local(disp, rules.strip_casts(disp, a))      # `const uint8_t version = message[data_index];` then `version`
    i = disp.resolve(o)
    if i is None:
        return None
    if i.op == "load":
        i = disp.resolve(i["ptr"])
        if i is None:
            return None
    if i.op != "getelementptr":
        return None
    return _ptr_offset(disp, {"k": "inst", "id": i.id}, D)


def _ptr_offset(disp, o, D, depth=0):
    """pointer operand is &message[data_index + k], possibly through a payload pointer kept in a local (`notice = &message[data_index]; notice[k]`): k"""
    o = rules.resolve_local(disp, rules.strip_casts(disp, o))
    i = disp.resolve(o)
    if i is None or i.op != "getelementptr" or depth > 3:
        return None
    if not i["idx"]:
        # constant subscript of a pointer that is itself inside the message
        k0 = _ptr_offset(disp, i["base"], D, depth + 1)
        return None if k0 is None else k0 + i["off"]
    if ("param", D.mparam) not in dispatch._deep_param(disp, {"k": "inst", "id": i.id}):
        return None
    if len(i["idx"]) != 1 or i["idx"][0]["scale"] != 1:
        return None
    bi = disp.resolve(rules.resolve_local(disp, rules.strip_casts(disp, i["base"])))
    k0 = 0
    if bi is not None and bi.op == "getelementptr":
        k0 = _ptr_offset(disp, {"k": "inst", "id": bi.id}, D, depth + 1)
        if k0 is None:
            return None
        # payload pointer + variable subscript: only a constant subscript is a fixed byte of the report
        return None
    iv = disp.resolve(rules.strip_casts(disp, i["idx"][0]["v"]))
    if iv is None:
        return None
    if iv.op == "load":
        return i["off"]
    if iv.op == "add":
        c = rules.const_of(disp, iv["b"])
        a0 = disp.resolve(rules.strip_casts(disp, iv["a"]))
        if c is not None and a0 is not None and a0.op == "load":
            return c + i["off"]
    return None


def _from_addr_param(disp, a, D):
    """by-value node address argument: a local whose bytes are loaded from a pointer parameter other than the message (the address stack)"""
    ai = disp.resolve(rules.strip_casts(disp, a))
    src = None
    # the temp is memcpy'd from the node_address local
    for _ in range(3):
        if ai is None:
            return False
        if ai.op == "alloca":
            break
        if ai.op in ("bitcast", "getelementptr"):
            ai = disp.resolve(ai["a"] if ai.op == "bitcast" else ai["base"])
        elif ai.op == "load":
            ai = disp.resolve(ai["ptr"])
        else:
            return False
    if ai is None or ai.op != "alloca":
        return False
    cells = {ai.id}
    # follow copies backwards to a fixpoint: memcpy temp <- local, and whole-struct loads stored into a copy (small structs travel as one integer)
    def _base(o):
        x = disp.resolve(rules.strip_casts(disp, o))
        while x is not None and x.op in ("bitcast", "getelementptr"):
            x = disp.resolve(x["a"] if x.op == "bitcast" else x["base"])
        return x
    grew = True
    while grew:
        grew = False
        for c in disp.all_insts():
            if c.op == "call" and c.callee and c.callee.startswith("llvm.memcpy"):
                d = _base(c.args[0])
                if d is not None and d.id in cells:
                    s = _base(c.args[1])
                    if s is not None and s.op == "alloca" and s.id not in cells:
                        cells.add(s.id)
                        grew = True
            elif c.op == "store" and c["ptr"].get("k") == "inst":
                d = _base(c["ptr"])
                if d is not None and d.id in cells:
                    v = disp.resolve(rules.strip_casts(disp, c["val"]))
                    if v is not None and v.op == "load":
                        s = _base(v["ptr"])
                        if s is not None and s.op == "alloca" and s.id not in cells:
                            cells.add(s.id)
                            grew = True
    ok = False
    for s in disp.all_insts():
        if s.op == "store" and s["ptr"].get("k") == "inst":
            base = disp.resolve(s["ptr"])
            while base is not None and base.op in ("bitcast", "getelementptr"):
                base = disp.resolve(base["a"] if base.op == "bitcast" else base["base"])
            if base is not None and base.id in cells:
                tags = set()
                for t in flow.origins(disp, s["val"]):
                    x = t
                    while x[0] in ("field", "elem") and isinstance(x[1], tuple):
                        x = x[1]
                    tags.add(x)
                if any(t[0] == "param" and t[1] not in (D.mparam, D.tparam) for t in tags):
                    ok = True
                elif tags and not all(t[0] in ("param",) for t in tags):
                    pass
    return ok


_FBC = {}


def _flushed_by_caller(P, disp, encoders):
    """the flush may have been moved out of the case: every caller of the dispatcher flushes before it returns whenever a mirror was buffered
    (boolean result / flag correlation followed exactly)"""
    if "r" in _FBC:
        return _FBC["r"]
    from .. import pending
    flushers = {"bidib_flush"}
    for f in P.repo_functions():
        if f.name != "bidib_flush" and any(c.callee == "bidib_flush" for c in f.calls()) and len(list(f.calls())) <= 4:
            pass
    pd = pending.Pending(P, lambda f, i: i.op == "call" and i.callee in encoders, lambda f, i: i.op == "call" and i.callee in flushers)
    callers = {cf.name: cf for cf, ci in P.callers().get(disp.name, [])}
    ok = bool(callers)
    for cf in callers.values():
        bad = pd.leaks_at(cf)
        if bad is None or bad:
            ok = False
    _FBC["r"] = ok
    return ok
