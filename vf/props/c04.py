"""C04: stall (PRE: stall check gates every transmit; WALK: ancestor walk + waiter registration; WAKE: unstall drains every waiter; DBG)."""
from .. import flow, locks, nodestate as ns, pathwalk, rules
from ..build import AnalysisBroken

LEVEL = "other"


def cond_call(f, br, taken):
    """guard/branch -> (call inst, polarity) when the condition is a call result (possibly negated or compared with 0)"""
    return rules.cond_call(f, br["cond"], taken)


def run(chk, w):
    P = w.P
    R = ns.Roles(w)
    chk.explanation = ("Structural necessary conditions of stall handling: every append to the wire buffer is gated by a successful stall check of the "
                       "addressed node and its ancestors (PRE); the check walks the ancestors and registers the waiting node with the stalled one (WALK); "
                       "clearing a stall drains the whole waiter list and retries each waiter (WAKE); the stall flag has two writers only (WMW); "
                       "the debug-mode shortcut does not swallow stall notices (DBG). Behaviour over concrete nested stall histories is not decided.")
    chk.extra["roles"] = {"stall_check": sorted(R.stall_check), "retry": sorted(R.retry), "wire_append": sorted(R.wire)}

    # ---- stall-gated boolean functions (fixpoint): the stall check itself, and bool functions whose 'true' results lie behind a gated test
    from .c03 import true_result_points
    gated = set(R.stall_check)
    changed = True
    while changed:
        changed = False
        for f in P.repo_functions():
            if f.name in gated or f.ret != "i1":
                continue
            pts = true_result_points(f)
            if not pts:
                continue
            if all(_gated_here(f, s, gated) for (s, why) in pts):
                gated.add(f.name)
                changed = True
    chk.extra["stall_gated_functions"] = sorted(gated)

    # ---- PRE
    chk.rule("C04-PRE", "every append to the wire buffer is dominated by a successful stall check (in the function or at all its call sites)")
    napp = 0
    flushers = set()

    def site_gated(f, inst, depth=0):
        if _gated_here(f, inst, gated):
            return True, None
        if depth > 3:
            return False, (f, inst)
        cs = P.callers().get(f.name, [])
        if not cs:
            return False, (f, inst)
        for cf, ci in cs:
            ok, where = site_gated(cf, ci, depth + 1)
            if not ok:
                return False, where
        return True, None

    for f in P.repo_functions():
        for c in f.calls():
            if c.callee in R.wire:
                napp += 1
                ok, where = site_gated(f, c)
                if ok:
                    chk.ok("C04-PRE", 1, {"append": c.loc(), "function": f.name})
                else:
                    wf, wi = where
                    chk.violation("C04-PRE", wf.name, "ungated-transmit", wi.loc(),
                                  "a message can reach the wire buffer (via %s at %s) without a successful stall check of the addressed node on this path" % (f.name, c.loc()))
    chk.floor("wire_append_sites", napp, 2)

    # ---- ORDER: held traffic resumes in per-node submission order
    from . import c03
    c03.fifo_rules(chk, w, R, "C04-ORDER", fields=(ns.MSGQ,))

    # ---- WALK
    chk.rule("C04-WALK", "the stall check walks the ancestors (lookup key rewritten inside the loop) and registers the waiter before reporting 'stalled'")
    for name in sorted(R.stall_check):
        f = P.functions[name]
        loops = f.loops()
        for ld in R.stall_loads[name]:
            body = None
            for h, b in loops.items():
                if ld.bb.id in b:
                    body = b
            if body is None:
                continue
            # the key passed to the table lookup is rewritten inside the loop
            lookups = [c for c in f.calls("g_hash_table_lookup") if c.bb.id in body]
            rewritten = False
            for lk in lookups:
                kb = _alloca_of(f, lk.args[1])
                if kb is None:
                    continue
                for i in f.all_insts():
                    if i.op == "store" and i.bb.id in body and (_alloca_of(f, i["ptr"]) == kb or _points_into(f, i["ptr"], kb)):
                        rewritten = True
            if rewritten and lookups:
                chk.ok("C04-WALK", 1, {"function": name, "stall_test": ld.loc()})
            else:
                chk.violation("C04-WALK", name, "ancestor-walk", ld.loc(), "the stall test is not part of a loop that rewrites the lookup key: ancestors are not consulted")
            # branch on .stall: on the stalled side every path to return passes find-or-register
            br = _branch_on(f, ld)
            if br is None:
                chk.abstain("C04-WALK", "stall test branch not recognised", ld.loc())
                continue
            stalled_succ = br[0]["t"] if br[1] else br[0]["f"]
            start = f.bmap[stalled_succ].insts[0]
            def is_find(x):
                if x.op == "call" and x.callee in ("g_queue_find_custom", "g_queue_find", "g_queue_index", "g_queue_peek_nth", "g_queue_peek_head", "g_queue_peek_head_link") \
                        and ns.queue_field_of_call(P, f, x) == ns.STALLQ:
                    return True
                # a hand-written walk over the waiter list starts by reading the queue's head link
                if x.op == "load" and x["ptr"].get("k") == "inst" and rules.field_path_of_ptr(P, f, x["ptr"]) in ("_GQueue.head", "_GQueue.tail"):
                    g_ = f.resolve(x["ptr"])
                    while g_ is not None and g_.op in ("getelementptr", "bitcast"):
                        b_ = g_["base"] if g_.op == "getelementptr" else g_["a"]
                        g_ = f.resolve(b_) if b_.get("k") == "inst" else None
                    if g_ is not None and g_.op == "load":
                        src_ = rules.resolve_local(f, {"k": "inst", "id": g_.id})
                        gi_ = f.resolve(src_) if src_.get("k") == "inst" else g_
                        if gi_ is not None and gi_.op == "load" and gi_["ptr"].get("k") == "inst" and rules.field_path_of_ptr(P, f, gi_["ptr"]) == ns.STALLQ:
                            return True
                return False
            p = rules.exists_path(f, start, "exit", is_find, include_start=True)
            if p:
                chk.violation("C04-WALK", name, "waiter-lookup", ld.loc(), "a stalled ancestor is reported without looking the waiter up in its waiter list (%s)" % rules.path_text(p))
                continue
            ok_reg = True
            for fc in [c for c in f.calls() if is_find(c)]:
                # not-found edge -> must push before returning
                for b in f.blocks:
                    t = b.term
                    if t.op == "br" and "cond" in t.d:
                        call, pol = cond_call(f, t, True)
                        if call is not None and call.id == fc.id:
                            notfound = t["f"] if pol else t["t"]
                            def is_push(x):
                                return x.op == "call" and x.callee == "g_queue_push_tail" and ns.queue_field_of_call(P, f, x) == ns.STALLQ
                            p2 = rules.exists_path(f, f.bmap[notfound].insts[0], "exit", is_push, include_start=True)
                            if p2:
                                ok_reg = False
                                chk.violation("C04-WALK", name, "waiter-registration", fc.loc(), "waiter not found in the list but a path returns without registering it (%s)" % rules.path_text(p2))
            if ok_reg:
                chk.ok("C04-WALK", 1, {"function": name, "registration": "find-or-push before every stalled return"})

    # ---- CACHE: a 'ready' result that does not come out of the ancestor walk
    chk.rule("C04-CACHE", "the stall check reports 'ready' only out of the ancestor walk; a shortcut on a global counter is sound only if that counter mirrors the stall flags "
                          "(incremented only when a clear flag is set, decremented only when a set flag is cleared, zeroed where nodes are discarded)")
    for name in sorted(R.stall_check):
        f = P.functions[name]
        loops = f.loops()
        heads = [h for h, b in loops.items() if any(ld.bb.id in b for ld in R.stall_loads[name])]
        if not heads:
            continue
        hb = f.bmap[heads[0]].insts[0]
        for (pt, why) in true_result_points(f):
            if f.dominates(hb, pt):
                chk.ok("C04-CACHE", 1, {"function": name, "ready_result": pt.loc(), "after": "ancestor walk"})
                continue
            # a shortcut: which mutable globals does it depend on?
            caches = set()
            for (gd, truth) in rules.conditions_at(f, pt):
                for l in _defining_global_loads(f, gd["cond"]):
                    gname = l["ptr"]["name"]
                    if any(x.op == "store" and x["ptr"].get("k") == "global" and x["ptr"]["name"] == gname for g_ in P.repo_functions() for x in g_.all_insts()):
                        caches.add(gname)
            if not caches:
                chk.ok("C04-CACHE", 1, {"function": name, "ready_result": pt.loc(), "after": "a test of the arguments only"})
                continue
            for gname in sorted(caches):
                bad = _counter_discipline(P, R, gname)
                if bad is None:
                    chk.ok("C04-CACHE", 1, {"function": name, "shortcut_on": gname, "mirrors": "stall flags (guarded +1 / -1, zeroed on discard)"})
                else:
                    chk.violation("C04-CACHE", name, "shortcut:%s" % gname, pt.loc(), "the stall check reports 'ready' at line %d from the global '%s' without walking the ancestors, and %s: "
                                  "the shortcut can claim that no node is stalled while an ancestor is, so traffic is sent into a stalled subtree" % (pt.line, gname, bad))

    # ---- WMW on .stall
    chk.rule("C04-WMW", "the stall flag is written only at node creation (false) and by the stall-notice handler")
    handlers = set()
    for name, stores in sorted(R.stall_stores.items()):
        f = P.functions[name]
        vals = set()
        for s in stores:
            cv = rules.const_of(f, s["val"])
            if cv is None and _bool_value(f, s["val"]) is not None:
                vals |= {0, 1}          # `stall = (status != 0)`: both values, chosen by the notice
            else:
                vals.add(cv)
        if name in R.creators and vals == {0}:
            chk.ok("C04-WMW", 1, {"writer": name, "values": [0]})
        elif vals <= {0, 1, -1} and (0 in vals) and (vals & {1, -1}):
            handlers.add(name)
            chk.ok("C04-WMW", 1, {"writer": name, "values": sorted(v for v in vals if v is not None)})
        else:
            chk.violation("C04-WMW", name, ns.STALL, stores[0].loc(), "unexpected writer of the stall flag (values %s)" % sorted(str(v) for v in vals))
    chk.floor("stall_handlers", len(handlers), 1)

    # ---- REC: the handler records every notice (no exit that neither writes the flag nor has compared it with the notice)
    chk.rule("C04-REC", "every path through the stall-notice handler writes the stall flag (or leaves after comparing the flag: nothing to change)")
    for name in sorted(handlers):
        f = P.functions[name]
        st_ids = {s.id for s in R.stall_stores[name]}
        ld_ids = {l.id for l in R.stall_loads.get(name, [])}
        def records(x):
            if x.id in st_ids:
                return True
            if x.op == "br" and "cond" in x.d:
                # a branch on the current value of the flag ('already in that state')
                seen = set()
                def mentions(o, d=0):
                    i = f.resolve(rules.strip_casts(f, o))
                    if i is None or d > 4 or i.id in seen:
                        return False
                    seen.add(i.id)
                    if i.id in ld_ids:
                        return True
                    return any(mentions(i[k], d + 1) for k in ("a", "b") if k in i.d and isinstance(i[k], dict))
                return mentions(x["cond"])
            return False
        p = rules.exists_path(f, f.blocks[0].insts[0], "exit", records, include_start=True)
        if p:
            chk.violation("C04-REC", name, "unrecorded-notice", p[-1].loc() if hasattr(p[-1], "loc") else "%s:%d" % (f.relfile, f.line),
                          "a stall notice can be dropped: a path through the handler returns without writing the stall flag (%s), so traffic into the stalled subtree continues" % rules.path_text(p))
        else:
            chk.ok("C04-REC", 1, {"handler": name, "stores": len(st_ids)})

    # ---- WAKE
    chk.rule("C04-WAKE", "clearing a stall drains the waiter list completely and retries every waiter whose node exists, before the mutex is released")
    for name in sorted(handlers):
        f = P.functions[name]
        for s0 in R.stall_stores[name]:
            cv0 = rules.const_of(f, s0["val"])
            if cv0 is not None and cv0 != 0:
                continue
            s = s0
            if cv0 is None:
                # a computed flag: the clearing case begins on the edge where that same value is found false (else at the store)
                bv = _bool_value(f, s0["val"])
                starts = []
                if bv is not None:
                    for b in f.blocks:
                        t = b.term
                        if t.op == "br" and "cond" in t.d and t["t"] != t.get("f"):
                            tv = _bool_value(f, t["cond"])
                            if tv is not None and tv[0] == bv[0]:
                                starts.append(f.bmap[t["f"] if tv[1] == bv[1] else t["t"]].insts[0])
                        elif t.op == "switch":
                            # `switch (reported) { case INACTIVE: ...`: the clearing case is where the same value is 0
                            tv = _bool_value(f, t["cond"])
                            if tv is not None and tv == bv:
                                zero = [l for v_, l in t["cases"] if v_ == 0]
                                starts.append(f.bmap[zero[0] if zero else t["default"]].insts[0])
                if len(starts) == 1:
                    s = starts[0]
            # every path from the clearing store to return/unlock passes the 'waiter list is empty' edge
            empties = []
            for b in f.blocks:
                t = b.term
                if t.op == "br" and "cond" in t.d:
                    for pol in (True, False):
                        if ns.empty_queue_guard(P, f, t, pol) == ns.STALLQ:
                            empties.append(t["t"] if pol else t["f"])
            if not empties:
                chk.violation("C04-WAKE", name, "drain", s.loc(), "the stall is cleared but the waiter list is never tested for emptiness (no drain loop)")
                continue
            firsts = {f.bmap[e].insts[0].id for e in empties}
            def leaves(x):
                return x.op == "ret" or (x.op == "call" and x.callee in locks.REL)
            p = rules.exists_path(f, s, leaves, lambda x: x.id in firsts)
            if p:
                chk.violation("C04-WAKE", name, "drain", s.loc(), "after clearing the stall a path leaves without draining the waiter list (%s)" % rules.path_text(p))
            else:
                chk.ok("C04-WAKE", 1, {"clear": s.loc(), "drained_until_empty": True})
            # each popped waiter is retried (unless its node does not exist)
            for (qf, pc) in R.qcalls.get(ns.STALLQ, []):
                if qf is not f or pc.callee != "g_queue_pop_head":
                    continue
                heads = [h for h, body in f.loops().items() if pc.bb.id in body]
                if not heads:
                    chk.violation("C04-WAKE", name, "retry", pc.loc(), "waiter popped outside a loop")
                    continue
                head_first = {f.bmap[h].insts[0].id for h in heads}
                null_edges = set()
                for b in f.blocks:
                    t = b.term
                    if t.op == "br" and "cond" in t.d:
                        c = f.resolve(t["cond"])
                        if c is not None and c.op == "icmp" and c["b"].get("k") == "null":
                            src = f.resolve(rules.strip_casts(f, c["a"]))
                            tags = flow.origins(f, c["a"])
                            if any(tg[0] == "call" and tg[1] == "g_hash_table_lookup" for tg in tags):
                                null_edges.add(f.bmap[t["f"] if c["pred"] == "ne" else t["t"]].insts[0].id)
                def is_retry(x):
                    return (x.op == "call" and x.callee in R.retry) or x.id in null_edges
                p = rules.exists_path(f, pc, lambda x: x.id in head_first or leaves(x), is_retry)
                if p:
                    chk.violation("C04-WAKE", name, "retry", pc.loc(), "a popped waiter is dropped without retrying its deferred messages (%s)" % rules.path_text(p))
                else:
                    chk.ok("C04-WAKE", 1, {"pop": pc.loc(), "retried": True})

    # ---- DBG: with type == MSG_STALL every path through the dispatcher reaches the stall handler
    chk.rule("C04-DBG", "the dispatcher hands every MSG_STALL to the stall handler, in debug mode too")
    msg_stall = w.macro("MSG_STALL")
    disp = dispatcher(P)
    tparam = type_param(disp)
    state = {"bad": None, "n": 0}

    def on_inst(inst, u, facts):
        if inst.op == "call" and inst.callee and rules.call_reaches(P, inst, handlers):
            return [True]
        return None

    def on_exit(ret, u, facts):
        state["n"] += 1
        if not u:
            state["bad"] = ret

    wk = pathwalk.Walker(disp, argvals={tparam: msg_stall})
    wk.walk(False, on_inst, on_exit)
    if wk.truncated:
        raise AnalysisBroken("dispatcher walk truncated")
    if state["n"] == 0:
        raise AnalysisBroken("no path through the dispatcher for MSG_STALL")
    if state["bad"] is not None:
        chk.violation("C04-DBG", disp.name, "MSG_STALL", state["bad"].loc(), "a path through the dispatcher with type MSG_STALL returns without calling the stall handler")
    else:
        chk.ok("C04-DBG", state["n"], {"paths_with_type_MSG_STALL": state["n"]})


def dispatcher(P):
    from .. import dispatch
    return dispatch.find_dispatcher(P)[0]


def type_param(disp):
    """index of the parameter the dispatcher's switch(es) are on"""
    from .. import dispatch
    return dispatch.find_dispatcher(disp.prog)[3 - 1]


def _bool_value(f, o, depth=0):
    """(id of the comparison / i1 instruction an operand is the value of, polarity) through casts, `!= 0`, negation and single-assignment locals"""
    pol = True
    for _ in range(10):
        if o.get("k") != "inst":
            return None
        o2 = rules.resolve_local(f, o)
        if o2 != o:
            o = o2
            continue
        i = f.insts[o["id"]]
        if i.op in ("zext", "sext", "trunc"):
            o = i["a"]
        elif i.op == "xor" and rules.const_of(f, i["b"]) in (1, -1):
            pol = not pol
            o = i["a"]
        elif i.op == "icmp" and i["pred"] in ("eq", "ne") and rules.const_of(f, i["b"]) == 0 and i["a"].get("k") == "inst" and \
                f.insts[rules.strip_casts(f, rules.resolve_local(f, i["a"])).get("id", i.id)].op in ("icmp", "zext", "xor", "trunc", "load") and \
                _bool_value(f, i["a"], depth + 1) is not None and depth < 4:
            inner = _bool_value(f, i["a"], depth + 1)
            return inner[0], (inner[1] == pol) == (i["pred"] == "ne")
        elif i.op in ("icmp", "fcmp"):
            return i.id, pol
        elif i.op == "select" and rules.const_of(f, i["a"]) is not None and rules.const_of(f, i["b"]) is not None and \
                (rules.const_of(f, i["a"]) == 0) != (rules.const_of(f, i["b"]) == 0):
            # `cond ? ACTIVE : INACTIVE` over a two-valued enum: non-zero exactly when cond picks the non-zero arm
            if rules.const_of(f, i["a"]) == 0:
                pol = not pol
            o = i["cond"]
        else:
            return None
    return None


def _defining_global_loads(f, o, depth=0):
    out = []
    if o.get("k") != "inst" or depth > 8:
        return out
    i = f.insts[o["id"]]
    if i.op == "load":
        if i["ptr"].get("k") == "global":
            return [i]
        o2 = rules.resolve_local(f, o)
        if o2 != o:
            return _defining_global_loads(f, o2, depth + 1)
        return out
    if i.op == "phi":
        for (_, v) in i["incoming"]:
            out += _defining_global_loads(f, v, depth + 1)
        return out
    for k in ("a", "b"):
        if k in i.d and isinstance(i[k], dict):
            out += _defining_global_loads(f, i[k], depth + 1)
    return out


def _counter_discipline(P, R, gname):
    """None when the global is a counter of set stall flags; otherwise a sentence saying what breaks the correspondence"""
    updates = []        # (fn, store, delta or 'zero' or None)
    for g in P.repo_functions():
        for x in g.all_insts():
            if x.op == "store" and x["ptr"].get("k") == "global" and x["ptr"]["name"] == gname:
                c = rules.const_of(g, x["val"])
                v = g.resolve(rules.strip_casts(g, x["val"]))
                if c is not None:
                    updates.append((g, x, "zero" if c == 0 else None))
                elif v is not None and v.op in ("add", "sub") and rules.const_of(g, v["b"]) in (1, -1):
                    src = rules.load_source(g, v["a"])
                    d = rules.const_of(g, v["b"]) * (1 if v.op == "add" else -1)
                    updates.append((g, x, d if src and src[0] == "global" and src[1] == gname else None))
                else:
                    updates.append((g, x, None))
    for (g, x, d) in updates:
        if d is None:
            return "it is written at %s with a value that is neither 0 nor itself +/- 1" % x.loc()
    # every flag store outside node creation has the matching guarded update in its function
    for name, stores in sorted(R.stall_stores.items()):
        if name in R.creators:
            continue
        g = P.functions[name]
        for s in stores:
            v = rules.const_of(g, s["val"])
            if v is None:
                return "the stall flag is stored with a non-constant value at %s" % s.loc()
            want = 1 if v & 1 else -1
            mine = [(x, d) for (g2, x, d) in updates if g2 is g and d == want]
            if not mine:
                return "the stall flag is %s at %s without the counter being %s" % ("set" if want == 1 else "cleared", s.loc(), "incremented" if want == 1 else "decremented")
            for (x, d) in mine:
                ok = False
                for (gd, truth) in rules.conditions_at(g, x):
                    for l in _flag_loads(P, g, gd["cond"]):
                        pol = _cond_polarity_of(g, gd["cond"], l, truth)
                        # +1 needs 'flag currently clear', -1 needs 'flag currently set'
                        if pol is not None and pol == (want == -1):
                            ok = True
                if not ok:
                    return "it is %s at %s whether or not the node's stall flag actually changes (a repeated notice moves the counter away from the number of stalled nodes)" % (
                        "incremented" if want == 1 else "decremented", x.loc())
    # discarding nodes: the counter is zeroed
    for g in P.repo_functions():
        if any(c.callee in ("g_hash_table_iter_remove", "g_hash_table_remove_all", "g_hash_table_destroy") for c in g.calls()) and any(
                rules.field_path_of_ptr(P, g, i["ptr"]) == ns.STALLQ for i in g.all_insts() if i.op == "load" and i["ptr"].get("k") == "inst"):
            if not any(g2 is g and d == "zero" for (g2, x, d) in updates):
                return "%s discards the nodes without zeroing it" % g.name
    return None


def _flag_loads(P, f, o, depth=0):
    out = []
    if o.get("k") != "inst" or depth > 8:
        return out
    i = f.insts[o["id"]]
    if i.op == "load":
        if i["ptr"].get("k") == "inst" and rules.field_path_of_ptr(P, f, i["ptr"]) == ns.STALL:
            return [i]
        o2 = rules.resolve_local(f, o)
        return _flag_loads(P, f, o2, depth + 1) if o2 != o else out
    for k in ("a", "b"):
        if k in i.d and isinstance(i[k], dict):
            out += _flag_loads(P, f, i[k], depth + 1)
    return out


def _cond_polarity_of(f, cond, load, truth):
    """the condition holding with `truth` means the loaded flag is set (True) / clear (False); None if not a plain truth test"""
    pol = truth
    o = cond
    for _ in range(8):
        if o.get("k") != "inst":
            return None
        i = f.insts[o["id"]]
        if i.id == load.id:
            return pol
        if i.op in ("zext", "sext", "trunc"):
            o = i["a"]
        elif i.op == "xor" and rules.const_of(f, i["b"]) in (1, -1):
            pol = not pol
            o = i["a"]
        elif i.op == "icmp" and i["pred"] in ("eq", "ne") and rules.const_of(f, i["b"]) in (0, 1):
            if (i["pred"] == "eq") == (rules.const_of(f, i["b"]) == 0):
                pol = not pol
            o = i["a"]
        elif i.op == "load":
            o2 = rules.resolve_local(f, o)
            if o2 == o:
                return None
            o = o2
        else:
            return None
    return None


def _alloca_of(f, o):
    for _ in range(6):
        i = f.resolve(o)
        if i is None:
            return None
        if i.op == "alloca":
            return i.id
        if i.op == "bitcast":
            o = i["a"]
        elif i.op == "getelementptr":
            o = i["base"]
        else:
            return None
    return None


def _points_into(f, o, kb, seen=None):
    """the pointer is (an offset from) the local buffer kb, possibly kept in a running pointer local (`level = &key[2]; ... level--; *level = 0`)"""
    seen = seen if seen is not None else set()
    for _ in range(8):
        i = f.resolve(o)
        if i is None:
            return False
        if i.op == "alloca":
            return i.id == kb
        if i.op == "bitcast":
            o = i["a"]
        elif i.op == "getelementptr":
            o = i["base"]
        elif i.op == "load":
            a = f.resolve(i["ptr"])
            if a is None or a.op != "alloca" or f.param_index_of_alloca(a) is not None:
                return False
            if a.id in seen:
                return True
            seen.add(a.id)
            sts = [x for x in f.all_insts() if x.op == "store" and x["ptr"].get("k") == "inst" and x["ptr"]["id"] == a.id]
            return bool(sts) and all(_points_into(f, x["val"], kb, seen) for x in sts)
        else:
            return False
    return False


def _branch_on(f, ld):
    """the conditional branch whose condition derives from load ld -> (branch, polarity: True if taken edge means value != 0)"""
    for b in f.blocks:
        t = b.term
        if t.op == "br" and "cond" in t.d:
            o = t["cond"]
            pol = True
            for _ in range(6):
                i = f.resolve(o)
                if i is None:
                    break
                if i.id == ld.id:
                    return (t, pol)
                if i.op in ("trunc", "zext"):
                    o = i["a"]
                elif i.op == "icmp" and rules.const_of(f, i["b"]) == 0:
                    if i["pred"] == "eq":
                        pol = not pol
                    o = i["a"]
                elif i.op == "xor":
                    pol = not pol
                    o = i["a"]
                else:
                    break
    return None


def _gated_here(f, inst, gated):
    for (br, taken) in rules.conditions_at(f, inst):
        call, pol = cond_call(f, br, taken)
        if call is not None and call.callee in gated and pol:
            return True
    return False
