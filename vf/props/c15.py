"""C15: node table (ACK dispatch, WMW writer roles + write lock, ADDR assigned only when connecting, CONN commands only to connected boards, RESTART)."""
from .. import access, dispatch, flow, locks, rules, sendapi
from ..build import AnalysisBroken
from . import c19

LEVEL = "other"
CONNECTED = "t_bidib_board.connected"
NODE_ADDR = "t_bidib_board.node_addr"


def field_writes(P, field):
    """(fn, inst, kind) for stores / memcpy / memset destinations that select Struct.field or a member inside it"""
    out = []
    for f in P.repo_functions():
        for i in f.all_insts():
            if i.op == "store" and field in rules.field_chain(P, f, i["ptr"]):
                out.append((f, i, "store" if rules.field_path_of_ptr(P, f, i["ptr"]) == field else "substore"))
            elif i.op == "call" and i.callee and (i.callee.startswith("llvm.memcpy") or i.callee.startswith("llvm.memset") or i.callee.startswith("llvm.memmove")) \
                    and field in rules.field_chain(P, f, rules.strip_casts(f, i.args[0])):
                out.append((f, i, "memcpy"))
    return out


def node_roles(P):
    cw = field_writes(P, CONNECTED)
    aw = field_writes(P, NODE_ADDR)
    sets_true = {f.name for (f, i, k) in cw if k == "store" and (rules.const_of(f, i["val"]) or 0) & 1}
    sets_false = {f.name for (f, i, k) in cw if k == "store" and rules.const_of(f, i["val"]) == 0}
    addr_writers = {f.name for (f, i, k) in aw}
    parser = {n for n in (sets_true | sets_false | addr_writers) if "parser" in P.functions[n].relfile}
    return dict(cw=cw, aw=aw, parser=parser, lost_role=(sets_false - sets_true) - parser, new_roles=(sets_true & addr_writers) - parser)


def wmw_rule(chk, w, roles, rid):
    """shared with C20: the flag and address that gate and direct all start-up commands have fixed writers"""
    P = w.P
    cw, aw, new_roles, lost_role, parser = roles["cw"], roles["aw"], roles["new_roles"], roles["lost_role"], roles["parser"]
    # ---- WMW
    chk.rule(rid, "connected / node_addr have fixed writer roles (connect: both; lost: connected=false only; parser) and are written under the boards write lock")
    for (f, i, k) in cw + aw:
        fld = CONNECTED if (f, i, k) in cw else NODE_ADDR
        if f.name in parser or f.name in new_roles:
            chk.ok(rid, 1, {"writer": f.name, "field": fld})
        elif f.name in lost_role and fld == CONNECTED:
            chk.ok(rid, 1, {"writer": f.name, "field": fld})
        else:
            chk.violation(rid, f.name, fld, i.loc(), "%s is written by %s, which is neither a connect routine, the lost-node routine (connected only) nor the parser" % (fld, f.name))
    db = access.AccessDB(w)
    nw = 0
    for a in db.by_region.get(("bidib_boards", None), []):
        if a.mode == "w" and a.field in (CONNECTED, NODE_ADDR):
            nw += 1
            if locks.ls_get(a.ls, "bidib_boards_rwlock") != "W":
                chk.violation(rid, a.fn.name, a.field + ":lock", a.loc(), "%s written with lockset %s (needs bidib_boards_rwlock in write mode)" % (a.field, locks.ls_str(a.ls)))
            else:
                chk.ok(rid, 1)
    chk.floor("locked_board_writes", nw, 4)



def upd_rule(chk, P, roles, rid):
    """shared with C09: commands go to the board's *current* address only if every node-new notice for a configured board rewrites it"""
    cw, aw, new_roles, lost_role, parser = roles["cw"], roles["aw"], roles["new_roles"], roles["lost_role"], roles["parser"]
    # ---- UPD: a notice for a configured board always updates it
    chk.rule(rid, "in the connect / lost routines every path on which the board lookup succeeded writes the connected flag (connect: and the node address)")
    nupd = 0
    for name in sorted((new_roles | lost_role) - parser):
        f = P.functions[name]
        need = [CONNECTED] + ([NODE_ADDR] if name in new_roles else [])
        wr = {fld: {i.id for (g, i, k) in (cw if fld == CONNECTED else aw) if g is f} for fld in need}
        loops = f.loops()
        # lookups: calls whose pointer result is stored to a local that is compared with null and through which the flag is written
        for c in f.calls():
            if not c.callee or c.callee not in P.functions or not c.get("ty", "").endswith("*"):
                continue
            cell = None
            for st in f.all_insts():
                if st.op == "store" and st["val"].get("k") == "inst" and st["val"]["id"] == c.id:
                    a = f.resolve(st["ptr"])
                    if a is not None and a.op == "alloca":
                        cell = a
            if cell is None:
                continue
            through = any(_board_key(f, f.insts[i]["ptr"]) in (("call", c.id), ("load", ("alloca", cell.id))) for i in wr[CONNECTED] if f.insts[i].op == "store")
            if not through:
                continue
            for b in f.blocks:
                t = b.term
                if t.op != "br" or "cond" not in t.d:
                    continue
                cnd = f.resolve(t["cond"])
                if cnd is None or cnd.op != "icmp" or cnd["pred"] not in ("eq", "ne") or cnd["b"].get("k") != "null":
                    continue
                src = rules.load_source(f, cnd["a"])
                if not src or src != ("alloca", cell.id):
                    continue
                if not rules.exists_path(f, c, lambda x, t=t: x.id == t.id, None):
                    continue
                found = t["t"] if cnd["pred"] == "ne" else t["f"]
                start = f.bmap[found].insts[0]
                heads = {h for h, body in loops.items() if b.id in body}
                def leaves(x, heads=heads):
                    return x.op == "ret" or (x.bb.id in heads and x.idx == 0)
                for fld in need:
                    nupd += 1
                    def done(x, ids=wr[fld], fld=fld):
                        if x.id in ids:
                            return True
                        if x.op == "br" and "cond" in x.d:
                            # the current value of the field was compared: a path that then skips the write changes nothing
                            from .c02 import _cond_loads
                            return any(fld in rules.field_chain(P, f, l["ptr"]) for l in _cond_loads(f, x["cond"]))
                        return False
                    p_ = rules.exists_path(f, start, leaves, done, include_start=True)
                    if p_:
                        chk.violation(rid, name, fld, t.loc(), "the board was found (line %d) but a path leaves without writing %s (%s): the notice is ignored and the board keeps its old %s" % (
                            t.line, fld, rules.path_text(p_), "address" if fld == NODE_ADDR else "connection state"))
                    else:
                        chk.ok(rid, 1, {"routine": name, "field": fld, "found_edge": t.loc()})
    chk.floor("found_board_updates", nupd, 4)



def run(chk, w):
    P = w.P
    D = dispatch.Dispatch(w)
    S = sendapi.SendAPI(w)
    disp = D.fn
    chk.explanation = ("Structural necessary conditions of node-table maintenance: (ACK) for node-new/lost notices every dispatcher path updates the table once and "
                       "sends exactly one acknowledgement to the sender with the announced version, then flushes; (WMW) the connected flag and the node address "
                       "have fixed writer roles and are written under the boards write lock; (ADDR) an address is only assigned where the board is marked "
                       "connected; (CONN) a command whose destination is a board's stored address is only sent behind a test of that board's connected flag; "
                       "(RESTART) when the table changes during enumeration the pending sub-interface list is emptied before the enumeration starts over. "
                       "Correctness for all trees and event orders is not decided.")
    # ---- roles
    cw = field_writes(P, CONNECTED)
    aw = field_writes(P, NODE_ADDR)
    chk.floor("connected_writes", len(cw), 4)
    chk.floor("node_addr_writes", len(aw), 2)
    sets_true = {f.name for (f, i, k) in cw if k == "store" and (rules.const_of(f, i["val"]) or 0) & 1}
    sets_false = {f.name for (f, i, k) in cw if k == "store" and rules.const_of(f, i["val"]) == 0}
    addr_writers = {f.name for (f, i, k) in aw}
    parser = {n for n in (sets_true | sets_false | addr_writers) if "parser" in P.functions[n].relfile}
    lost_role = (sets_false - sets_true) - parser
    new_roles = (sets_true & addr_writers) - parser
    chk.extra["roles"] = {"connect": sorted(new_roles), "lost": sorted(lost_role), "parser": sorted(parser)}
    chk.floor("connect_roles", len(new_roles), 2)
    chk.floor("lost_roles", len(lost_role), 1)

    # ---- ACK
    chk.rule("C15-ACK", "node-new/lost: every path updates the table once, acknowledges once to the sender with the announced version, then flushes")
    ack_fns = set(S.senders_of({w.macro("MSG_NODE_CHANGED_ACK")}))
    chk.floor("ack_encoders", len(ack_fns), 1)
    for tname, updaters in (("MSG_NODE_NEW", new_roles), ("MSG_NODE_LOST", lost_role)):
        tv = w.macro(tname)
        paths = [p for p in D.summaries(tv) if not (len(p) == 1 and p[0][0] == "queue")]
        for p in paths:
            calls = [e for e in p if e[0] == "call"]
            upd = [e for e in calls if e[1] in updaters or rules.reach_fns(P, e[1]) & updaters]
            acks = [e for e in calls if e[1] in ack_fns]
            if len(upd) != 1:
                chk.violation("C15-ACK", disp.name, tname + ":update", "%s:%d" % (disp.relfile, disp.line), "%s: %d table updates on a path (expected exactly one)" % (tname, len(upd)))
                continue
            if len(acks) != 1:
                chk.violation("C15-ACK", disp.name, tname + ":ack", "%s:%d" % (disp.relfile, disp.line), "%s: %d acknowledgements on a path (expected exactly one)" % (tname, len(acks)))
                continue
            idx = p.index(acks[0])
            if not any(e[0] == "call" and e[1] == "bidib_flush" for e in p[idx + 1:]):
                chk.violation("C15-ACK", disp.name, tname + ":flush", "%s:%d" % (disp.relfile, acks[0][2]), "%s: the acknowledgement is not flushed" % tname)
                continue
            ac = disp.insts[acks[0][3]]
            addr_ok = c19._from_addr_param(disp, ac.args[0], D)
            off = c19._msg_offset(disp, ac.args[1], D)
            if not addr_ok:
                chk.violation("C15-ACK", disp.name, tname + ":ack-address", ac.loc(), "%s: the acknowledgement is not addressed to the sender of the notice" % tname)
            elif off != 0:
                chk.violation("C15-ACK", disp.name, tname + ":ack-version", ac.loc(), "%s: the acknowledged version is not the first data byte of the notice (offset %s)" % (tname, off))
            else:
                chk.ok("C15-ACK", 1, {"type": tname, "update": upd[0][1], "ack": acks[0][1]})
        # the update call takes the unique id (and for NEW the local address) from the message
        for c in disp.calls():
            if c.callee in updaters and any(e[0] == "call" and e[3] == c.id for p in paths for e in p if e[0] == "call"):
                if tname == "MSG_NODE_NEW":
                    off = c19._msg_offset(disp, c.args[1], D) if len(c.args) > 1 else None
                    if off != 1:
                        chk.violation("C15-ACK", disp.name, tname + ":local-address", c.loc(), "%s: the local address passed to the table update is not data byte 1 (got %s)" % (tname, off))
                    else:
                        chk.ok("C15-ACK", 1, {"type": tname, "local_address_offset": 1})

    wmw_rule(chk, w, dict(cw=cw, aw=aw, new_roles=new_roles, lost_role=lost_role, parser=parser), "C15-WMW")

    # ---- ADDR
    chk.rule("C15-ADDR", "a node address is assigned only where the same board is marked connected")
    for (f, i, k) in aw:
        if f.name in parser:
            continue
        bkey = _board_key_of_field(P, f, i["ptr"] if k in ("store", "substore") else i.args[0], NODE_ADDR)
        ok = False
        for (f2, s, k2) in cw:
            if f2 is f and k2 == "store" and (rules.const_of(f, s["val"]) or 0) & 1 and _board_key(f, s["ptr"]) == bkey and (f.dominates(s, i) or f.dominates(i, s)):
                ok = True
        if ok:
            chk.ok("C15-ADDR", 1, {"store": i.loc()})
        else:
            chk.violation("C15-ADDR", f.name, NODE_ADDR, i.loc(), "a board's node address is (re)written without marking that board connected on the same path")

    upd_rule(chk, P, dict(cw=cw, aw=aw, new_roles=new_roles, lost_role=lost_role, parser=parser), "C15-UPD")

    # ---- CONN
    chk.rule("C15-CONN", "a message whose destination is a board's stored node address is sent only behind a test of that board's connected flag")
    nconn = 0
    for (f, c, guarded) in board_addressed_sends(P, S):
        nconn += 1
        if guarded:
            chk.ok("C15-CONN", 1, {"call": c.callee, "at": c.loc()})
        else:
            chk.violation("C15-CONN", f.name, c.callee, c.loc(), "%s is sent to a board's stored address without a dominating test of that board's connected flag" % c.callee)
    chk.floor("board_addressed_sends", nconn, 15)

    # ---- DESCEND
    descend_rule(chk, P, "C15-DESCEND")

    # ---- RESTART
    chk.rule("C15-RESTART", "when enumeration must restart, the pending sub-interface list is emptied before the root is queried again")
    pollers = {n for n in new_roles if any(c.callee and rules.call_reaches(P, c, {"g_queue_pop_head"}) for c in P.functions[n].calls())}
    drivers = [f for f in P.repo_functions() if sum(1 for c in f.calls() if c.callee in pollers) >= 2]
    if not drivers:
        chk.abstain("C15-RESTART", "enumeration driver (function calling the node-table query at least twice) not recognised")
    for f in drivers:
        qcalls = [c for c in f.calls() if c.callee in pollers]
        root = [c for c in qcalls if all(f.dominates(c, o) for o in qcalls)]
        if not root:
            chk.abstain("C15-RESTART", "root query not identified", f.name)
            continue
        c0 = root[0]
        empties = set()
        for b in f.blocks:
            t = b.term
            if t.op == "br" and "cond" in t.d:
                call, pol = rules.cond_call(f, t["cond"], True)
                if call is not None and call.callee == "g_queue_is_empty":
                    empties.add(f.bmap[t["t"] if pol else t["f"]].insts[0].id)
        bad = None
        for c in qcalls:
            p = rules.exists_path(f, c, lambda x: x.id == c0.id, lambda x: x.id in empties)
            if p and not rules._exists_path_sensitive(f, c, lambda x: x.id == c0.id, lambda x: x.id in empties, False):
                p = None        # only through contradictory values of a restart flag (`if (restart) drain; ... while (restart)`)
            if p:
                bad = (c, p)
        if bad:
            chk.violation("C15-RESTART", f.name, "pending-interfaces", bad[0].loc(), "the enumeration can start over at the root while interface addresses of the old tree are still queued (%s)" % rules.path_text(bad[1]))
        else:
            chk.ok("C15-RESTART", 1, {"driver": f.name, "queries": len(qcalls)})
    # the query routine reports 'restart' when the table count message arrives in the row loop
    for n in sorted(pollers):
        f = P.functions[n]
        if f.ret == "i1" and any((rules.const_of(f, r["val"]) or 0) & 1 for r in f.all_insts() if r.op == "ret" and "val" in r.d) or \
           any(s.op == "store" and (rules.const_of(f, s["val"]) or 0) & 1 for s in f.all_insts() if s.op == "store"):
            chk.ok("C15-RESTART", 1, {"query": n, "can_request_restart": True})
        else:
            chk.violation("C15-RESTART", n, "restart-signal", "%s:%d" % (f.relfile, f.line), "the node-table query never reports that the table changed")


def descend_rule(chk, P, rid):
    """DESCEND: in the node-table query, an interface row is queued for enumeration whether or not a board is configured for it: the enqueue is not
    control dependent on the result of the configured-board lookup (configured boards behind an unconfigured interface are still found)."""
    chk.rule(rid, "the node-table query queues every interface row for enumeration, also when no board is configured for that row (the enqueue does not depend on the board lookup)")
    n = 0
    for f in P.repo_functions():
        if not f.blocks or not f.relfile.startswith("src/state/"):
            continue
        pushes = [c for c in f.calls() if c.callee in ("g_queue_push_tail", "g_queue_push_head")]
        lookups = [c for c in f.calls() if c.callee in P.functions and P.functions[c.callee].ret.endswith("*") and "board" in (P.functions[c.callee].ret or "")]
        reads = [c for c in f.calls() if c.callee == "bidib_read_intern_message" or (c.callee in P.functions and rules.call_reaches(P, c, {"bidib_read_intern_message"}))]
        if not pushes or not lookups or not reads:
            continue
        for pc in pushes:
            n += 1
            dep = None
            for (gd, truth) in list(rules.conditions_at(f, pc)) + rules.control_conditions(f, pc):
                cnd = f.resolve(gd["cond"])
                stack = [cnd]
                seen = set()
                while stack:
                    x = stack.pop()
                    if x is None or x.id in seen:
                        continue
                    seen.add(x.id)
                    if x.op == "icmp" and x["b"].get("k") == "null":
                        v = f.resolve(rules.resolve_local(f, rules.strip_casts(f, x["a"])))
                        if v is not None and any(v.id == lk.id for lk in lookups):
                            dep = (x, v)
                    if x.op == "phi":
                        for (_, vv) in x["incoming"]:
                            if vv.get("k") == "inst":
                                stack.append(f.insts[vv["id"]])
                    for k_ in ("a", "b"):
                        if k_ in x.d and isinstance(x[k_], dict) and x[k_].get("k") == "inst":
                            stack.append(f.insts[x[k_]["id"]])
            if dep:
                chk.violation(rid, f.name, "enqueue-behind-lookup", pc.loc(), "the interface row is queued for enumeration only when %s (line %d) found a configured board: the nodes behind an "
                              "unconfigured interface are never enumerated and stay disconnected" % (dep[1].callee, dep[1].line))
            else:
                chk.ok(rid, 1, {"function": f.name, "enqueue": pc.loc()})
    chk.floor(rid.lower().replace("-", "_") + "_enqueues", n, 1)


def board_addressed_sends(P, S, fns=None):
    """(function, call, guarded) for every call that reaches a transmit and passes a board's stored node address; guarded = a test of that
    board's connected flag holds on every path to the call"""
    out = []
    for f in (fns if fns is not None else P.repo_functions()):
        if f.name in S.constructors:
            continue
        for c in f.calls():
            if not c.callee or c.callee not in P.functions or not P.functions[c.callee].blocks:
                continue
            if not (c.callee in S.constructors or rules.call_reaches(P, c, set(S.constructors))):
                continue
            for j in range(len(c.args)):
                if c.args[j].get("k") != "inst":
                    continue
                src = _byval_source_field(P, f, c.args[j])
                if src is None or src[0] != NODE_ADDR:
                    continue
                bkey = src[1]
                guarded = False
                for (gd, truth) in rules.branch_conditions(f, c):
                    if not truth:
                        continue
                    for leaf in c19.leaf_values(f, gd["cond"]):
                        li = f.resolve(leaf)
                        if li is not None and li.op == "load" and rules.field_path_of_ptr(P, f, li["ptr"]) == CONNECTED and _board_key(f, li["ptr"]) == bkey:
                            guarded = True
                if not guarded:
                    # the test may be recorded in a status variable first (`check = BOARD_NOT_CONNECTED; ... if (check != OK) return`):
                    # decide on the paths, propagating constants through such locals
                    from .. import pathwalk
                    def est(br, succ, facts, f=f, bkey=bkey):
                        if br.op != "br" or "cond" not in br.d or br["t"] == br.get("f"):
                            return False
                        truth = succ == br["t"]
                        for leaf in c19.leaf_values(f, br["cond"]):
                            li = f.resolve(leaf)
                            if li is not None and li.op == "load" and rules.field_path_of_ptr(P, f, li["ptr"]) == CONNECTED and _board_key(f, li["ptr"]) == bkey:
                                pol = _cond_polarity(f, br["cond"], li)
                                if pol is not None and pol == truth:
                                    return True
                        return False
                    guarded = pathwalk.guard_on_all_paths(f, c, est) is True
                out.append((f, c, guarded))
    return out


def _cond_polarity(f, cond, leaf_load):
    """True if `cond` is true exactly when the loaded flag is non-zero, False if negated, None if the condition is not just that flag"""
    pol = True
    o = cond
    for _ in range(8):
        i = f.resolve(rules.strip_casts(f, o))
        if i is None:
            return None
        if i.id == leaf_load.id:
            return pol
        if i.op == "icmp" and rules.const_of(f, i["b"]) == 0 and i["pred"] in ("eq", "ne"):
            if i["pred"] == "eq":
                pol = not pol
            o = i["a"]
        elif i.op == "xor" and rules.const_of(f, i["b"]) in (1, -1):
            pol = not pol
            o = i["a"]
        else:
            return None
    return None


def _board_key_of_field(P, f, ptr, field):
    """key of the pointer to the struct that contains `field` on the way to ptr"""
    i = f.resolve(rules.strip_casts(f, ptr))
    while i is not None:
        if i.op == "bitcast":
            i = f.resolve(i["a"])
        elif i.op == "getelementptr":
            if rules.field_path_of_ptr(P, f, {"k": "inst", "id": i.id}) == field or field in rules.field_chain(P, f, {"k": "inst", "id": i.id})[-1:]:
                pass
            chain_here = rules.field_chain(P, f, {"k": "inst", "id": i.id})
            base_chain = rules.field_chain(P, f, i["base"])
            if field in chain_here and field not in base_chain:
                return rules.expr_key(f, i["base"], copyprop=True)
            i = f.resolve(i["base"])
        else:
            return None
    return None


def _board_key(f, ptr):
    """expression key of the board pointer behind a field address"""
    i = f.resolve(rules.strip_casts(f, ptr))
    while i is not None and i.op == "bitcast":
        i = f.resolve(i["a"])
    if i is not None and i.op == "getelementptr":
        return rules.expr_key(f, i["base"], copyprop=True)
    return None


def _byval_source_field(P, f, a):
    """a by-value struct argument (temp alloca filled by memcpy): (Struct.field it was copied from, key of the owning pointer)"""
    ai = f.resolve(rules.strip_casts(f, a))
    # small structs are passed coerced to an integer: load iN from a temp that was filled by memcpy
    if ai is not None and ai.op == "load":
        ai = f.resolve(rules.strip_casts(f, ai["ptr"]))
        while ai is not None and ai.op == "bitcast":
            ai = f.resolve(ai["a"])
    if ai is None or ai.op != "alloca":
        return None
    for c in f.calls():
        if c.callee and c.callee.startswith("llvm.memcpy"):
            d = f.resolve(rules.strip_casts(f, c.args[0]))
            while d is not None and d.op == "bitcast":
                d = f.resolve(d["a"])
            if d is not None and d.id == ai.id:
                src = rules.strip_casts(f, c.args[1])
                fld = rules.field_path_of_ptr(P, f, src)
                if fld:
                    return (fld, _board_key(f, src))
                # copied from another local that was itself copied from a field
                s = f.resolve(src)
                while s is not None and s.op == "bitcast":
                    s = f.resolve(s["a"])
                if s is not None and s.op == "alloca":
                    return _byval_source_field(P, f, {"k": "inst", "id": s.id})
    return None
