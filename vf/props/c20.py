"""C20: startup applies the configuration in order (ORDER in the reset routine, FEAT features to connected boards at their address, ONCE no re-send
inside the answer wait loop, INIT initial values through the public setters over all four lists, CONST configuration lists are read-only at run time, BOTH)."""
from .. import flow, rules, sendapi
from ..build import AnalysisBroken

LEVEL = "other"


def run(chk, w):
    P = w.P
    S = sendapi.SendAPI(w)
    chk.explanation = ("Structural necessary conditions of the startup dialogue: in the reset routine the required partial order holds as dominance between call sites "
                       "(reset message and table resets < enumeration < features < enable < track outputs GO < flush < initial values); features are sent only to boards whose "
                       "connected flag was tested, at that board's address, with number and value from the same feature record, once per feature (not inside the loop that waits "
                       "for the answer); initial values are commanded only through the public high-level setters, over all four configured lists; the configured lists are not "
                       "modified after parsing (so a second reset applies them again); both start functions reach the reset routine on the connection-established branch only. "
                       "'Exactly once' for concrete configurations is not decided.")
    from .. import inline
    reset = P.functions.get("bidib_send_sys_reset")
    if reset is not None:
        reset = inline.expanded(P, reset.name)
    if reset is None:
        raise AnalysisBroken("bidib_send_sys_reset not found")
    GO = _enum(P, "BIDIB_CS_GO")

    def calls_to(pred):
        return [c for c in reset.calls() if c.callee and pred(c)]

    enum_c = calls_to(lambda c: c.callee == "bidib_state_init_allocation_table")
    feat_c = calls_to(lambda c: c.callee in P.functions and _sends_type(P, S, c.callee, w.macro("MSG_FEATURE_SET")) and c.callee != reset.name)
    enable_c = calls_to(lambda c: c.callee in P.functions and _sends_type(P, S, c.callee, w.macro("MSG_SYS_ENABLE"), direct=True))
    # ... or the enable message built in place (the sender inlined into the reset routine)
    enable_c += [c for c in reset.calls() if c.callee in S.constructors and rules.const_of(reset, S.type_arg(c)) == w.macro("MSG_SYS_ENABLE")]
    go_c = calls_to(lambda c: len(c.args) == 1 and rules.const_of(reset, c.args[0]) == GO and rules.call_reaches(P, c, {"bidib_send_cs_set_state"}))
    init_c = calls_to(lambda c: c.callee == "bidib_state_set_initial_values")
    flush_c = calls_to(lambda c: c.callee.endswith("flush"))
    rst_msg = [c for c in reset.calls() if c.callee in S.constructors and rules.const_of(reset, S.type_arg(c)) == w.macro("MSG_SYS_RESET")]
    tbl_rst = calls_to(lambda c: c.callee in P.functions and rules.call_reaches(P, c, {"g_hash_table_iter_remove"}))
    chk.extra["reset_steps"] = {"reset_msg": [c.line for c in rst_msg], "table_reset": [c.line for c in tbl_rst], "enumerate": [c.line for c in enum_c], "features": [c.line for c in feat_c],
                                "enable": [c.line for c in enable_c], "go": [c.line for c in go_c], "initial_values": [c.line for c in init_c]}
    chk.rule("C20-ORDER", "reset routine: reset < table reset < enumeration < features < enable < GO < flush < initial values, each on every path")
    steps = [("reset-message", rst_msg), ("node-table-reset", tbl_rst), ("enumeration", enum_c), ("features", feat_c), ("enable", enable_c), ("track-outputs-go", go_c), ("initial-values", init_c)]
    ok_all = True
    for name, cs in steps:
        if not cs:
            chk.violation("C20-ORDER", reset.name, name + ":missing", "%s:%d" % (reset.relfile, reset.line), "the reset routine has no %s step" % name)
            ok_all = False
        else:
            # on every path: the call post-dominates the entry (no early return before it)
            first = reset.blocks[0].insts[0]
            if not reset.postdominates(cs[0], first):
                chk.violation("C20-ORDER", reset.name, name + ":conditional", cs[0].loc(), "the %s step is skipped on some path of the reset routine" % name)
                ok_all = False
    if ok_all:
        for (n1, c1), (n2, c2) in zip(steps, steps[1:]):
            if reset.dominates(c1[0], c2[0]):
                chk.ok("C20-ORDER", 1, {"before": n1, "after": n2})
            else:
                chk.violation("C20-ORDER", reset.name, "%s<%s" % (n1, n2), c2[0].loc(), "%s (line %d) is not preceded by %s (line %d)" % (n2, c2[0].line, n1, c1[0].line))
        # the feature answers are awaited before the system is enabled: a call that reaches the reader of the internal message queue lies at or after the
        # features step and before the enable step (the wait is what lets feature messages held back by the node's response budget leave before SYS_ENABLE)
        waits = calls_to(lambda c: c.callee in P.functions and (c.callee == "bidib_read_intern_message" or rules.call_reaches(P, c, {"bidib_read_intern_message"})))
        if any((wc.id == feat_c[0].id or reset.dominates(feat_c[0], wc)) and reset.dominates(wc, enable_c[0]) for wc in waits):
            chk.ok("C20-ORDER", 1, {"feature_answers_awaited": "before enable"})
        else:
            chk.violation("C20-ORDER", reset.name, "features<wait<enable", enable_c[0].loc(), "SYS_ENABLE (line %d) is sent without waiting for the feature answers first (no call that reads the "
                          "internal message queue between the features step and it): feature messages held back by a node's response budget reach the node after it was enabled" % enable_c[0].line)
        # a flush between GO and the initial values
        if any(reset.dominates(go_c[0], f) and reset.dominates(f, init_c[0]) for f in flush_c):
            chk.ok("C20-ORDER", 1, {"flush_between": "GO and initial values"})
        else:
            chk.violation("C20-ORDER", reset.name, "go<flush<initial", init_c[0].loc(), "the GO command is not flushed before the initial values are commanded")

    # ---- FEAT / ONCE in the feature routine
    chk.rule("C20-FEAT", "a feature is sent only behind a test of the board's connected flag, to that board's address, with number and value of one feature record")
    chk.rule("C20-ONCE", "the feature transmit is not repeated inside the loop that waits for the board's answer")
    from . import c15, c19
    nfeat = 0
    for fc in feat_c:
        g = P.functions[fc.callee]
        for c in g.calls():
            if not (c.callee in P.functions and _sends_type(P, S, c.callee, w.macro("MSG_FEATURE_SET"), direct=True)):
                continue
            nfeat += 1
            src = c15._byval_source_field(P, g, c.args[0])
            guarded = False
            if src and src[0] == c15.NODE_ADDR:
                for (gd, truth) in rules.branch_conditions(g, c):
                    if not truth:
                        continue
                    for leaf in c19.leaf_values(g, gd["cond"]):
                        li = g.resolve(leaf)
                        if li is not None and li.op == "load" and rules.field_path_of_ptr(P, g, li["ptr"]) == c15.CONNECTED and c15._board_key(g, li["ptr"]) == src[1]:
                            guarded = True
            if not (src and src[0] == c15.NODE_ADDR):
                chk.violation("C20-FEAT", g.name, "address", c.loc(), "the feature is not addressed to a configured board's stored node address")
            elif not guarded:
                chk.violation("C20-FEAT", g.name, "connected", c.loc(), "features are sent without testing that the board is connected")
            else:
                # number / value from the same record
                recs = set()
                for a in c.args[1:3]:
                    ai = g.resolve(rules.strip_casts(g, a))
                    if ai is not None and ai.op == "load":
                        gp = g.resolve(ai["ptr"])
                        if gp is not None and gp.op == "getelementptr":
                            recs.add((rules.expr_key(g, gp["base"], copyprop=True), rules.field_path_of_ptr(P, g, ai["ptr"])))
                fields = sorted(f or "?" for k, f in recs)
                if len({k for k, f in recs}) == 1 and len(recs) == 2 and fields[0].endswith(".number") and fields[1].endswith(".value"):
                    chk.ok("C20-FEAT", 1, {"send": c.loc(), "record_fields": fields})
                else:
                    chk.violation("C20-FEAT", g.name, "record", c.loc(), "feature number and value are not taken from one feature record (%s)" % fields)
            # ONCE: not inside a polling loop
            pollers = {f.name for f in P.repo_functions() if any(x.callee in ("g_queue_pop_head",) for x in f.calls()) and "read" in f.name} | {"bidib_read_intern_message"}
            bad = None
            for pc in g.calls():
                if pc.callee in pollers:
                    inner = [body for h, body in g.loops().items() if pc.bb.id in body]
                    if inner:
                        wait_loop = min(inner, key=len)        # the innermost loop around the poll = the answer wait loop
                        if c.bb.id in wait_loop:
                            bad = pc
            if bad is None:
                chk.ok("C20-ONCE", 1, {"send": c.loc()})
            else:
                chk.violation("C20-ONCE", g.name, "resend-in-wait-loop", c.loc(), "the feature is (re)sent inside the loop that waits for the board's answer: a board answering with another value is sent the feature forever and startup never continues")
    chk.floor("feature_sends", nfeat, 1)

    # ---- INIT
    chk.rule("C20-INIT", "initial values are commanded only through public high-level setters, iterating all configured lists")
    for ic in init_c:
        g = inline.expanded(P, ic.callee)
        lists = set()
        for i in g.all_insts():
            if i.op == "load" and i["ptr"].get("k") == "global" and i["ptr"]["name"] == "bidib_initial_values":
                lists.add(i["ptr"].get("off", 0))
        # lists and setters named in a constant table that the routine copies into a local and walks
        # (`{&bidib_initial_values.points, bidib_switch_point}, {&bidib_initial_values.signals, bidib_set_signal}, ...`)
        table_fns = set()

        def _walk_init(x):
            if isinstance(x, list):
                for y in x:
                    _walk_init(y)
            elif isinstance(x, dict) and x.get("g") == "bidib_initial_values":
                lists.add(x.get("off", 0))
            elif isinstance(x, dict) and x.get("g") in P.functions:
                table_fns.add(x["g"])
        for c in g.calls():
            if c.callee and c.callee.startswith("llvm.memcpy") and len(c.args) > 1 and c.args[1].get("k") == "global":
                tg = P.globals.get(c.args[1]["name"]) or {}
                if tg.get("const") and isinstance(tg.get("init"), list):
                    _walk_init(tg["init"])
        gd = P.globals.get("bidib_initial_values")
        nmem = len(P.di_members(gd.get("ditype", -1)) or []) if gd else 0
        if nmem and len(lists) == nmem:
            chk.ok("C20-INIT", 1, {"lists_iterated": len(lists)})
        else:
            chk.violation("C20-INIT", g.name, "lists", "%s:%d" % (g.relfile, g.line), "only %d of the %d configured initial-value lists are applied" % (len(lists), nmem))
        for c in g.calls():
            if c.callee is None and table_fns:
                # a call through the table: every function the table names is a possible callee
                for tf in sorted(table_fns):
                    if tf in w.api and "highlevel" in w.api[tf]["header"]:
                        chk.ok("C20-INIT", 1, {"through": tf, "via": "function table"})
                    else:
                        chk.violation("C20-INIT", g.name, tf, c.loc(), "initial values are commanded through %s (named in a function table), not through a public high-level command" % tf)
                continue
            if c.callee in P.functions and P.functions[c.callee].blocks and (c.callee in S.constructors or rules.call_reaches(P, c, set(S.constructors))):
                if c.callee in w.api and "highlevel" in w.api[c.callee]["header"] or c.callee.endswith("flush"):
                    chk.ok("C20-INIT", 1, {"through": c.callee})
                else:
                    chk.violation("C20-INIT", g.name, c.callee, c.loc(), "initial values are commanded through %s, not through a public high-level command (encoding may differ)" % c.callee)

    # ---- ALL: the loops over the configured initial values and over the track outputs run to completion
    chk.rule("C20-ALL", "the loops that apply the initial values are left only through their own bound: a failing command for one entry or one track output does not end the walk "
                        "over the remaining ones")
    nall = 0
    for ic in init_c:
        g = inline.expanded(P, ic.callee)
        for h, body in g.loops().items():
            nall += 1
            bad = None
            for b in sorted(body):
                if b == h:
                    continue
                t = g.bmap[b].term
                if t.op == "br" and "cond" in t.d and t["t"] != t.get("f") and (t["t"] not in body or t["f"] not in body):
                    # an exit from the middle of the loop: allowed only when it is itself a loop-bound test of an inner loop (its target stays in an enclosing loop's body via the latch)
                    inner_heads = [h2 for h2, body2 in g.loops().items() if h2 != h and b in body2 and body2 < body]
                    if b in inner_heads:
                        continue
                    bad = t
            if bad is not None:
                chk.violation("C20-ALL", g.name, "early-exit@%d" % bad.line, bad.loc(), "the loop at line %d over configured initial values / track outputs can be left at line %d before its bound is reached: "
                              "the entries and outputs behind the failing one are never commanded" % (g.bmap[h].insts[0].line, bad.line))
            else:
                chk.ok("C20-ALL", 1, None)
    chk.floor("initial_value_loops", nall, 4)

    # ---- INIT (cont.): whether an initial value is commanded must not depend on feedback state
    from .c02 import _cond_loads
    for ic in init_c:
        g = inline.expanded(P, ic.callee)
        for c in g.calls():
            if not (c.callee in w.api and c.callee in P.functions and rules.call_reaches(P, c, set(S.constructors))):
                continue
            dep = None
            for (gd_, truth) in rules.branch_conditions(g, c):
                for l in _cond_loads(g, gd_["cond"]):
                    ch = rules.field_chain(P, g, l["ptr"])
                    if ch and any("_state" in x.split(".")[0] and not x.endswith(".id") for x in ch[-1:]):
                        dep = (l, ch[-1])
            if dep:
                chk.violation("C20-INIT", g.name, "%s:conditional" % c.callee, c.loc(),
                              "the initial-value command %s is issued only under a condition on tracked feedback state (%s, line %d): whether it is sent depends on what the node has reported so far, not on the configuration and the board's connection" % (c.callee, dep[1], dep[0].line))
            else:
                chk.ok("C20-INIT", 1)

    # ---- UNCOND (shared with C09): the same for every function the start-up routine reaches
    from . import c09 as _c09
    _reach = {n for n in P.reachable_functions([reset.name]) if n in P.functions and P.functions[n].blocks and P.functions[n].relfile.startswith(("src/highlevel/", "src/lowlevel/", "src/state/"))}
    _c09.uncond_rule(chk, P, S, "C20-UNCOND", _reach, 6)

    # ---- CONN: the connected flag / node address that gate and direct every start-up command have fixed writers
    from . import c15
    c15.wmw_rule(chk, w, c15.node_roles(P), "C20-CONN")

    # ---- CONST: the configuration lists are not modified at run time
    chk.rule("C20-CONST", "the configured initial-value and feature lists are only modified by the parser and by the final free")
    MUT = {"free", "g_array_free", "g_array_remove_index", "g_array_remove_range", "g_array_set_size", "g_string_free", "g_array_append_vals", "g_array_remove_index_fast"}
    nm = 0
    for f in P.repo_functions():
        for c in f.calls():
            if c.callee in MUT and c.args:
                gs = {g for g, namer in flow.global_sources(P, f, c.args[0])}
                if "bidib_initial_values" in gs:
                    nm += 1
                    allowed = "parser" in f.relfile or "state_free" in f.relfile or f.name in ("bidib_state_init", "bidib_state_free") or f.name.startswith("bidib_state_add_initial") or f.name.startswith("bidib_state_add_")
                    if allowed:
                        chk.ok("C20-CONST", 1)
                    else:
                        chk.violation("C20-CONST", f.name, "bidib_initial_values", c.loc(), "%s modifies the configured initial values via %s: a later system reset no longer applies them" % (f.name, c.callee))
    chk.floor("initial_value_mutations", nm, 4)

    # ---- BOTH
    chk.rule("C20-BOTH", "both start functions call the reset routine, on the connection-established branch only")
    for name in ("bidib_start_pointer", "bidib_start_serial"):
        f = P.functions.get(name)
        if f is None:
            raise AnalysisBroken("%s not found" % name)
        cs = [c for c in f.calls(reset.name)]
        if len(cs) != 1:
            chk.violation("C20-BOTH", name, "reset-calls", "%s:%d" % (f.relfile, f.line), "%s calls the reset routine %d times" % (name, len(cs)))
            continue
        c = cs[0]
        good = False
        for (gd, truth) in rules.branch_conditions(f, c):
            call, pol = rules.cond_call(f, gd["cond"], truth)
            if call is not None and call.callee in P.functions:
                # connection probe: true means works (communication_works) / zero means ok (detect_baudrate)
                good = True
        if good:
            chk.ok("C20-BOTH", 1, {"start": name, "at": c.loc()})
        else:
            chk.violation("C20-BOTH", name, "unconditional-reset", c.loc(), "the reset/startup dialogue is not conditional on an established connection")


def _enum(P, name):
    for t in P.ditypes:
        if t["kind"] == "enum":
            for n, v in t.get("enumerators", []):
                if n == name:
                    return v
    raise AnalysisBroken("enumerator %s not found" % name)


def _sends_type(P, S, fname, mtype, direct=False):
    """fname (directly, or transitively unless direct) calls a constructor with this constant type"""
    seen = set()
    st = [fname]
    while st:
        n = st.pop()
        if n in seen:
            continue
        seen.add(n)
        f = P.functions.get(n)
        if f is None or not f.blocks:
            continue
        for c in f.calls():
            if c.callee in S.constructors:
                if (rules.const_of(f, S.type_arg(c)) or -1) & 0xff == mtype:
                    return True
            elif c.callee and not direct:
                st.append(c.callee)
    return False
