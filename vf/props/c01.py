"""C01: downlink framing (ACC mutex discipline, TAB CRC table, EXC escaping, CRC fold, IDX freshness of the fill index, CAP guard, WMC, BND)."""
from .. import access, flow, locks, rules
from ..build import AnalysisBroken

LEVEL = "other"


def crc8_table():
    t = []
    for n in range(256):
        c = n
        for _ in range(8):
            c = (c >> 1) ^ 0x8C if c & 1 else c >> 1
        t.append(c)
    return t


def prepare(w):
    """inline single-caller static helpers of the sender's translation unit into their callers (once per run), so that the rules below keep
    seeing the flush/append algorithms as one function after an extract-function refactoring"""
    if getattr(w, "_c01_prepared", False):
        return w._c01_inlined
    from .. import inline
    P = w.P
    tus = set()
    for f in P.repo_functions():
        for i in f.calls():
            if i.callee is None and len(i.args) == 2:
                src = rules.load_source(f, i.get("fptr"))
                if src and src[0] == "global":
                    tus.add(f.relfile)
    # helpers whose call sites all lie in one function of the sender unit (any number of sites), bottom-up; emptied helpers are dropped
    done = inline.normalise(P, max_sites=12, max_size=500, only_files=tus, one_caller=True)
    w._c01_prepared = True
    w._c01_inlined = done
    return done


class AppendStore:
    """an append written as an indexed store (byte-wise copy loop) presented like the memcpy call the rules expect: args[0] is the destination"""

    def __init__(self, st, gep):
        self.st = st
        self.id = st.id
        self.op = "store-append"
        self.bb = st.bb
        self.idx = st.idx
        self.line = st.line
        self.fn = st.fn
        self.callee = None
        self.args = [{"k": "inst", "id": gep.id}, st["val"], None]

    def loc(self):
        return self.st.loc()


def send_roles(w):
    P = w.P
    prepare(w)
    roles = {}
    # flush: calls through the write-callback global
    cb_globals = set()
    flush = []
    for f in P.repo_functions():
        for i in f.calls():
            if i.callee is None:
                src = rules.load_source(f, i.get("fptr"))
                if src and src[0] == "global":
                    # the callback that is handed a buffer and a length (write), not the byte reader
                    if len(i.args) == 2:
                        cb_globals.add(src[1])
                        flush.append(f)
    flush = list({f.name: f for f in flush}.values())
    if not flush:
        raise AnalysisBroken("flush routine (call through the write callback) not found")
    roles["flush"] = flush
    roles["write_cb"] = cb_globals
    # staging buffer: the array passed to the callback; batch buffer: the array read in the flush loop and memcpy'd into
    fl = flush[0]
    staging = set()
    for i in fl.calls():
        if i.callee is None and len(i.args) == 2:
            for t in flow.origins(fl, i.args[0]):
                if t[0] == "gaddr":
                    staging.add(t[1])
    roles["staging"] = staging
    batch = set()
    append = []
    for f in P.repo_functions():
        for i in f.calls():
            if i.callee and i.callee.startswith("llvm.memcpy"):
                for t in flow.origins(f, i.args[0]):
                    if t[0] == "gaddr" and P.globals.get(t[1], {}).get("internal") and P.globals[t[1]]["type"].startswith("[") and t[1] not in staging:
                        g = P.globals[t[1]]
                        if g.get("file", "") == fl.file or True:
                            if any(t2[0] == "gaddr" and t2[1] == t[1] for l in fl.all_insts() if l.op == "load" for t2 in flow.origins(fl, l["ptr"])):
                                batch.add(t[1])
                                append.append((f, i))
    # the append may also be written as a byte-wise copy loop: indexed stores into a static array that the flush routine reads
    flush_names = {f_.name for f_ in flush}
    for f in P.repo_functions():
        if f.name in flush_names or any(g_ is f for g_, i_ in append):
            continue
        for i in f.all_insts():
            if i.op != "store":
                continue
            gp = f.resolve(i["ptr"])
            if gp is None or gp.op != "getelementptr" or not gp["idx"] or gp["base"].get("k") != "global":
                continue
            gname = gp["base"]["name"]
            gd = P.globals.get(gname, {})
            if gd.get("internal") and gd.get("type", "").startswith("[") and gname not in staging and not gd.get("const") and \
                    any(t2[0] == "gaddr" and t2[1] == gname for l in fl.all_insts() if l.op == "load" for t2 in flow.origins(fl, l["ptr"])):
                batch.add(gname)
                append.append((f, AppendStore(i, gp)))
                break
    # ... or as a copy loop through a running write pointer that starts at `buffer + fill`
    if not append:
        from .. import intervals
        for f in P.repo_functions():
            if f.name in flush_names:
                continue
            pc = intervals.pointer_cells(P, f)
            for i in f.all_insts():
                if i.op != "store":
                    continue
                q = f.resolve(i["ptr"])
                if q is None or q.op != "load" or q["ptr"].get("k") != "inst" or q["ptr"]["id"] not in pc or pc[q["ptr"]["id"]][0][0] != "G":
                    continue
                gname = pc[q["ptr"]["id"]][0][1]
                gd = P.globals.get(gname, {})
                if not (gd.get("internal") and gname not in staging and not gd.get("const") and
                        any(t2[0] == "gaddr" and t2[1] == gname for l in fl.all_insts() if l.op == "load" for t2 in flow.origins(fl, l["ptr"]))):
                    continue
                starts = [x for x in f.all_insts() if x.op == "store" and x["ptr"].get("k") == "inst" and x["ptr"]["id"] == q["ptr"]["id"] and
                          f.resolve(x["val"]) is not None and f.resolve(x["val"]).op == "getelementptr" and f.resolve(x["val"])["base"].get("k") == "global"]
                if len(starts) == 1:
                    batch.add(gname)
                    append.append((f, AppendStore(i, f.resolve(starts[0]["val"]))))
                    break
    if not batch or not staging:
        raise AnalysisBroken("batch/staging buffers not identified")
    roles["batch"] = batch
    roles["append"] = append
    # fill index: the global integer loaded in the flush loop condition and stored 0 at the end of flush
    idx = set()
    for i in fl.all_insts():
        if i.op == "store" and i["ptr"].get("k") == "global" and rules.const_of(fl, i["val"]) == 0:
            idx.add(i["ptr"]["name"])
    roles["fill_index"] = idx
    # capacity: the other internal integer global that the append routine compares the fill level with
    cap = set()
    for (f, mc) in append:
        for l in f.all_insts():
            if l.op == "load" and l["ptr"].get("k") == "global":
                g = P.globals.get(l["ptr"]["name"])
                if g and g.get("internal") and not g["type"].startswith("[") and g["type"].startswith("i") and l["ptr"]["name"] not in idx and "pthread" not in g["type"]:
                    cap.add(l["ptr"]["name"])
    roles["capacity"] = cap
    return roles


def run(chk, w):
    P = w.P
    roles = send_roles(w)
    fl = roles["flush"][0]
    MAGIC = w.macro("BIDIB_PKT_MAGIC")
    ESC = w.macro("BIDIB_PKT_ESCAPE")
    chk.explanation = ("Structural necessary conditions of well-formed downlink packets, decided over all paths of the sender's four functions: every access to "
                       "the batch/staging buffers, the fill index, the capacity and every call of the write callback holds the send-buffer mutex (ACC); the "
                       "CRC table equals the CRC-8 (0x8C reflected) table computed by the checker (TAB); every byte stored to the staging buffer is a literal "
                       "delimiter, an escape prefix followed by value^0x20, or a value on a path that excludes 0xFE/0xFD - payload and CRC trailer alike (EXC); "
                       "the byte emitted is the byte folded into the CRC (CRC); the append offset is the current fill index, not a stale copy (IDX); a message "
                       "joins a non-empty batch only behind the capacity comparison and the capacity is only ever set to >= 64 (CAP); the append routine is "
                       "called only behind admission (WMC). 'Exactly once' and byte-identity with the arguments are not decided.")
    chk.extra["inlined_helpers"] = w._c01_inlined
    chk.extra["roles"] = {"flush": [f.name for f in roles["flush"]], "staging": sorted(roles["staging"]), "batch": sorted(roles["batch"]),
                          "fill_index": sorted(roles["fill_index"]), "append": sorted({f.name for f, i in roles["append"]})}

    # ---- ACC
    chk.rule("C01-ACC", "batch buffer, staging buffer, fill index, capacity and the write callback are only touched with bidib_send_buffer_mutex held")
    db = access.AccessDB(w)
    regs = set(roles["staging"]) | set(roles["batch"]) | set(roles["fill_index"])
    caps = sorted(roles["capacity"])
    regs |= set(caps)
    n = 0
    for r in sorted(regs):
        for a in db.by_region.get((r, None), []):
            n += 1
            if locks.ls_get(a.ls, "bidib_send_buffer_mutex") is None:
                chk.violation("C01-ACC", a.fn.name, r, a.loc(), "%s of %s (%s) without bidib_send_buffer_mutex; lockset %s, classes %s" % (
                    "write" if a.mode == "w" else "read", r, a.what, locks.ls_str(a.ls), ",".join(sorted(a.labels))), chain=db.E.chain(db.E.ctxs[a.ctx]))
            else:
                chk.ok("C01-ACC", 1)
    chk.floor("send_state_accesses", n, 60)
    callback_rule(chk, w, roles, db, "C01-ACC")
    # ---- PRIV (shared with C05 / C18): the message a packet is built from is assembled in storage private to the call
    from . import c05 as _c05
    from .. import sendapi as _sendapi
    try:
        _S = _sendapi.SendAPI(w)
        _wire = _c05.wire_append_fns(P, w)
        if _wire and _S.constructors:
            _c05.priv_rule(chk, P, sorted(_S.constructors), _wire, "C01-PRIV")
    except AnalysisBroken as e:
        chk.abstain("C01-PRIV", "constructors / wire append not identified: %s" % e, "-")

    # ---- TAB
    chk.rule("C01-TAB", "bidib_crc_array equals the CRC-8 table for x^8+x^5+x^4+1 (reflected, 0x8C) and is the only table indexed for CRC")
    g = P.globals.get("bidib_crc_array")
    if g is None or not isinstance(g.get("init"), list):
        raise AnalysisBroken("bidib_crc_array not found or has no constant initialiser")
    ref = crc8_table()
    diff = [k for k in range(256) if k >= len(g["init"]) or g["init"][k] != ref[k]]
    if diff or len(g["init"]) != 256:
        chk.violation("C01-TAB", "-", "bidib_crc_array", "%s:%s" % (g.get("file"), g.get("line")), "CRC table differs from CRC-8/0x8C at %d entries (first index %s)" % (len(diff), diff[:1]))
    else:
        chk.ok("C01-TAB", 256, {"entries": 256, "poly": "0x8C reflected"})
    if not g.get("const"):
        chk.violation("C01-TAB", "-", "bidib_crc_array", "-", "CRC table is not const")

    # ---- EXC and CRC in the flush routine
    chk.rule("C01-EXC", "every byte stored into the staging buffer is a delimiter literal, an escape prefix + (v ^ 0x20), or a value guarded against 0xFE and 0xFD")
    chk.rule("C01-CRC", "the byte emitted in the payload loop is the byte folded into the CRC; the trailer emits the CRC cell")
    stores = []
    for i in fl.all_insts():
        if i.op == "store":
            for t in flow.origins(fl, i["ptr"]):
                if t[0] == "gaddr" and t[1] in roles["staging"]:
                    stores.append(i)
    chk.floor("staging_stores", len(stores), 6)
    emitted_payload_keys = set()
    emitted_crc = False
    crc_cells = set()
    # CRC fold sites: store to a local of  crc_array[x ^ cell]
    folds = []
    for i in fl.all_insts():
        if i.op == "store" and i["ptr"].get("k") == "inst" and fl.insts[i["ptr"]["id"]].op == "alloca":
            v = fl.resolve(rules.strip_casts(fl, i["val"]))
            if v is not None and v.op == "load":
                gp = fl.resolve(v["ptr"])
                if gp is not None and gp.op == "getelementptr" and gp["base"].get("k") == "global" and gp["base"]["name"] == "bidib_crc_array" and gp["idx"]:
                    x = fl.resolve(rules.strip_casts(fl, gp["idx"][0]["v"]))
                    if x is not None and x.op == "xor":
                        folds.append((i, x))
                        crc_cells.add(i["ptr"]["id"])
    # copies of the running CRC (a helper's parameter/result slot, the caller's own variable) are CRC cells as well
    grew = True
    while grew:
        grew = False
        for i in fl.all_insts():
            if i.op == "store" and i["ptr"].get("k") == "inst" and fl.insts[i["ptr"]["id"]].op == "alloca" and i["ptr"]["id"] not in crc_cells:
                srcs = [i["val"]]
                vi = fl.resolve(rules.strip_casts(fl, i["val"]))
                if vi is not None and vi.op == "phi":
                    srcs = [v for b, v in vi["incoming"]]
                ok = bool(srcs)
                for sv in srcs:
                    ld = fl.resolve(rules.strip_casts(fl, sv))
                    if not (ld is not None and ld.op == "load" and ld["ptr"].get("k") == "inst" and ld["ptr"]["id"] in crc_cells):
                        ok = False
                if ok:
                    crc_cells.add(i["ptr"]["id"])
                    grew = True
    for s in stores:
        val = rules.strip_casts(fl, s["val"])
        c = rules.const_of(fl, s["val"])
        if c is not None:
            c &= 0xff
            if c == MAGIC:
                chk.ok("C01-EXC", 1, {"store": s.loc(), "kind": "delimiter"})
            elif c == ESC:
                # next staging store in the same block must be v ^ 0x20
                nxt = [t for t in stores if t.bb is s.bb and t.idx > s.idx]
                ok = False
                if nxt:
                    xv = fl.resolve(rules.strip_casts(fl, nxt[0]["val"]))
                    if xv is not None and xv.op == "xor" and (rules.const_of(fl, xv["b"]) or 0) & 0xff == 0x20:
                        ok = True
                if ok:
                    chk.ok("C01-EXC", 1, {"store": s.loc(), "kind": "escape prefix + v^0x20"})
                else:
                    chk.violation("C01-EXC", fl.name, "escape", s.loc(), "escape prefix is not followed by the escaped byte v ^ 0x20")
            else:
                chk.violation("C01-EXC", fl.name, "literal", s.loc(), "unexpected literal 0x%02x stored into the staging buffer" % c)
            continue
        vi = fl.resolve(val)
        if vi is not None and vi.op == "xor" and (rules.const_of(fl, vi["b"]) or 0) & 0xff == 0x20:
            # must directly follow an escape-prefix store, and be guarded by v in {MAGIC, ESC}
            prev = [t for t in stores if t.bb is s.bb and t.idx < s.idx]
            if prev and (rules.const_of(fl, prev[-1]["val"]) or 0) & 0xff == ESC:
                key = rules.expr_key(fl, vi["a"])
                _note_emit(fl, key, crc_cells, emitted_payload_keys)
                if _is_cell(key, crc_cells):
                    emitted_crc = True
                chk.ok("C01-EXC", 1, {"store": s.loc(), "kind": "escaped value"})
            else:
                chk.violation("C01-EXC", fl.name, "escape", s.loc(), "v ^ 0x20 stored without a preceding escape prefix")
            continue
        # plain value: guards must exclude MAGIC and ESC for this very expression
        key = rules.expr_key(fl, val)
        excl = set()
        for (gd, truth) in rules.branch_conditions(fl, s):
            cnd = fl.resolve(gd["cond"])
            if cnd is not None and cnd.op == "icmp" and cnd["pred"] in ("eq", "ne"):
                k2 = rules.expr_key(fl, cnd["a"])
                cv = rules.const_of(fl, cnd["b"])
                if cv is not None and k2 == key and ((cnd["pred"] == "eq") != truth):
                    excl.add(cv & 0xff)
        # `switch (v) { case MAGIC: case ESCAPE: ...; default: store v; }`: the default edge excludes every case value
        for sw in fl.all_insts():
            if sw.op == "switch" and rules.expr_key(fl, sw["cond"]) == key:
                dflt = sw["default"]
                if all(cb != dflt for cv, cb in sw["cases"]) and rules.edge_dominates(fl, sw.bb.id, dflt, s):
                    excl |= {cv & 0xff for cv, cb in sw["cases"]}
        if {MAGIC, ESC} <= excl:
            chk.ok("C01-EXC", 1, {"store": s.loc(), "kind": "value with 0xFE/0xFD excluded on this path"})
            _note_emit(fl, key, crc_cells, emitted_payload_keys)
            if _is_cell(key, crc_cells):
                emitted_crc = True
        else:
            missing = sorted({MAGIC, ESC} - excl)
            chk.violation("C01-EXC", fl.name, "crc-trailer" if _is_cell(key, crc_cells) else "payload", s.loc(),
                          "a byte that may equal %s is stored into the staging buffer unescaped" % " or ".join("0x%02X" % m for m in missing))
    # CRC: each fold's data operand key is among the emitted payload keys
    if not folds:
        chk.violation("C01-CRC", fl.name, "fold", "%s:%d" % (fl.relfile, fl.line), "no CRC fold (crc = table[byte ^ crc]) found in the flush routine")
    for (st, x) in folds:
        ka, kb = rules.expr_key(fl, x["a"]), rules.expr_key(fl, x["b"])
        data = kb if _is_cell(ka, crc_cells) else ka
        other = ka if data is kb else kb
        if not _is_cell(other, crc_cells):
            chk.violation("C01-CRC", fl.name, "fold", st.loc(), "CRC update does not combine the byte with the running CRC")
        elif data in emitted_payload_keys:
            chk.ok("C01-CRC", 1, {"fold": st.loc(), "byte": "same expression as the emitted byte"})
        else:
            chk.violation("C01-CRC", fl.name, "fold", st.loc(), "the byte folded into the CRC is not the byte that is emitted")
    # the accumulator is never re-initialised between a fold and the emission of the trailer (a CRC restarted per chunk covers only the last chunk)
    crc_emits = []
    for s_ in stores:
        vi_ = fl.resolve(rules.strip_casts(fl, s_["val"]))
        if vi_ is not None and vi_.op == "xor":
            vi_ = fl.resolve(rules.strip_casts(fl, vi_["a"]))
        if vi_ is not None and vi_.op == "load" and vi_["ptr"].get("k") == "inst" and vi_["ptr"]["id"] in crc_cells:
            crc_emits.append(s_)
    for i in fl.all_insts():
        if i.op == "store" and i["ptr"].get("k") == "inst" and i["ptr"]["id"] in crc_cells and rules.const_of(fl, i["val"]) is not None:
            after_fold = any(rules.exists_path(fl, st, lambda x, i=i: x.id == i.id, None) for (st, x_) in folds)
            before_emit = any(rules.exists_path(fl, i, lambda x, e=e: x.id == e.id, None) for e in crc_emits)
            if after_fold and before_emit:
                chk.violation("C01-CRC", fl.name, "reinit", i.loc(), "the CRC accumulator is re-initialised at line %d on a path between a fold and the trailer: the transmitted CRC does not cover the whole payload" % i.line)
            else:
                chk.ok("C01-CRC", 1, {"init": i.loc()})
    if emitted_crc:
        chk.ok("C01-CRC", 1, {"trailer": "CRC cell emitted"})
    else:
        chk.violation("C01-CRC", fl.name, "trailer", "%s:%d" % (fl.relfile, fl.line), "the CRC cell is never emitted into the staging buffer")

    # ---- IDX / CAP in the append routine(s)
    chk.rule("C01-IDX", "the append offset is the current fill index: no copy of it survives a call that may reset it")
    chk.rule("C01-CAP", "a message is appended behind the comparison len + fill > capacity -> flush; capacity is only set to a value >= 64")
    writers_of_idx = {f.name for f in P.repo_functions() for i in f.all_insts() if i.op == "store" and i["ptr"].get("k") == "global" and i["ptr"]["name"] in roles["fill_index"]}
    for (f, mc) in roles["append"]:
        # destination = batch + offset
        dst = f.resolve(rules.strip_casts(f, mc.args[0]))
        off_ops = []
        g2 = dst
        while g2 is not None and g2.op == "getelementptr":
            off_ops += [x["v"] for x in g2["idx"]]
            g2 = f.resolve(rules.strip_casts(f, g2["base"]))
        if not off_ops:
            chk.abstain("C01-IDX", "append offset not recognised", mc.loc())
            continue
        for o in off_ops:
            defs = _defining_loads(f, o)
            gl = [d for d in defs if d["ptr"].get("k") == "global" and d["ptr"]["name"] in roles["fill_index"]]
            if not gl:
                chk.violation("C01-IDX", f.name, "offset", mc.loc(), "append offset is not derived from the fill index")
                continue
            stale = None
            for d in gl:
                def killer(x):
                    return x.op == "call" and x.callee and (x.callee in writers_of_idx or rules.call_reaches(P, x, writers_of_idx))
                p = rules.exists_path(f, d, lambda x: x.id == mc.id, None)
                if p and any(killer(x) for x in p[1:-1]):
                    stale = (d, [x for x in p if killer(x)][0])
                else:
                    # any path at all through a killer?
                    p2 = _path_through(f, d, mc, killer)
                    if p2:
                        stale = (d, p2)
            if stale:
                chk.violation("C01-IDX", f.name, "stale-fill-index", mc.loc(),
                              "the fill index read at line %d is used as append offset after the call at line %d which may reset it" % (stale[0].line, stale[1].line))
            else:
                chk.ok("C01-IDX", 1, {"append": mc.loc()})
        # CAP: a dominating-or-preceding comparison (len + fill) > capacity whose true edge flushes
        ok = False
        for b in f.blocks:
            t = b.term
            if t.op == "br" and "cond" in t.d:
                cnd = f.resolve(t["cond"])
                if cnd is not None and cnd.op == "icmp" and cnd["pred"] in ("ugt", "sgt", "uge", "sge"):
                    ka = rules.expr_key(f, cnd["a"], copyprop=True)
                    kb = rules.expr_key(f, cnd["b"], copyprop=True)
                    has_idx = rules.key_mentions(ka, lambda k: k[0] == "g" and k[1] in roles["fill_index"])
                    has_cap = rules.key_mentions(kb, lambda k: k[0] == "g" and k[1] in caps)
                    if has_idx and has_cap and f.dominates(t, mc):
                        flushes = [c for c in f.calls() if c.callee in {x.name for x in roles["flush"]} and rules.edge_dominates(f, b.id, t["t"], c)]
                        if flushes:
                            ok = True
        if ok:
            chk.ok("C01-CAP", 1, {"append": mc.loc(), "guard": "len + fill > capacity -> flush first"})
        else:
            chk.violation("C01-CAP", f.name, "capacity-guard", mc.loc(), "append is not preceded by 'len + fill index > capacity -> flush'")
    for gname in caps:
        for f in P.repo_functions():
            for i in f.all_insts():
                if i.op == "store" and i["ptr"].get("k") == "global" and i["ptr"]["name"] == gname:
                    c = rules.const_of(f, i["val"])
                    if c is not None:
                        if c >= 64:
                            chk.ok("C01-CAP", 1, {"capacity_store": i.loc(), "value": c})
                        else:
                            chk.violation("C01-CAP", f.name, "capacity", i.loc(), "packet capacity set to %d (< 64)" % c)
                    else:
                        # announced value: must be on the edge excluding <= 64 (for `cap = (v <= 64) ? 64 : v` the test guards the phi's incoming block)
                        good = False
                        points = [i]
                        vphi = f.resolve(rules.strip_casts(f, rules.resolve_local(f, i["val"])))
                        if vphi is not None and vphi.op == "phi":
                            points = []
                            allc = True
                            for pb, pv in vphi["incoming"]:
                                cc = rules.const_of(f, pv)
                                if cc is not None:
                                    if cc < 64:
                                        allc = False
                                else:
                                    points.append(f.bmap[pb].term)
                            if not allc:
                                points = [i]
                        goods = []
                        for pt in points:
                            g1 = False
                            for (gd, truth) in rules.branch_conditions(f, pt):
                                cnd = f.resolve(gd["cond"])
                                if cnd is not None and cnd.op == "icmp":
                                    cv = rules.const_of(f, cnd["b"])
                                    if cv is not None and ((cnd["pred"] in ("sle", "ule") and not truth and cv >= 63) or (cnd["pred"] in ("sgt", "ugt") and truth and cv >= 63) or
                                                           (cnd["pred"] in ("slt", "ult") and not truth and cv >= 64) or (cnd["pred"] in ("sge", "uge") and truth and cv >= 64)):
                                        g1 = True
                            goods.append(g1)
                        if points and all(goods) and points != [i]:
                            good = True
                        for (gd, truth) in rules.branch_conditions(f, i):
                            cnd = f.resolve(gd["cond"])
                            if cnd is not None and cnd.op == "icmp":
                                cv = rules.const_of(f, cnd["b"])
                                if cv is not None and ((cnd["pred"] in ("sle", "ule") and not truth and cv >= 63) or (cnd["pred"] in ("sgt", "ugt") and truth and cv >= 63) or
                                                       (cnd["pred"] in ("slt", "ult") and not truth and cv >= 64) or (cnd["pred"] in ("sge", "uge") and truth and cv >= 64)):
                                    good = True
                        # `cap = (v > 64) ? v : 64` compiled to a select, possibly kept in a local first
                        vsel = f.resolve(rules.strip_casts(f, rules.resolve_local(f, i["val"])))
                        if not good and vsel is not None and vsel.op == "select":
                            cnd = f.resolve(vsel["cond"])
                            if cnd is not None and cnd.op == "icmp":
                                cv = rules.const_of(f, cnd["b"])
                                arms_ok = True
                                for arm, truth in ((vsel["a"], True), (vsel["b"], False)):
                                    ca = rules.const_of(f, arm)
                                    if ca is not None:
                                        arms_ok = arms_ok and ca >= 64
                                        continue
                                    same = rules.expr_key(f, rules.strip_casts(f, arm)) == rules.expr_key(f, rules.strip_casts(f, cnd["a"]))
                                    excl = cv is not None and ((cnd["pred"] in ("sle", "ule") and not truth and cv >= 63) or (cnd["pred"] in ("sgt", "ugt") and truth and cv >= 63) or
                                                               (cnd["pred"] in ("slt", "ult") and not truth and cv >= 64) or (cnd["pred"] in ("sge", "uge") and truth and cv >= 64))
                                    arms_ok = arms_ok and same and excl
                                good = arms_ok
                        if good:
                            chk.ok("C01-CAP", 1, {"capacity_store": i.loc(), "value": "announced, > 64 on this path"})
                        else:
                            chk.violation("C01-CAP", f.name, "capacity", i.loc(), "announced packet capacity stored without excluding values below 64")
        init = P.globals[gname].get("init")
        if init != 64:
            chk.violation("C01-CAP", "-", "capacity-init", "%s:%s" % (P.globals[gname].get("file"), P.globals[gname].get("line")), "initial packet capacity is %r, not 64" % (init,))

    # ---- NODROP: once admitted, a message is always appended
    nodrop_rule(chk, w, roles, "C01-NODROP")

    # ---- WMC: who may call the append routine
    chk.rule("C01-WMC", "the append routine is called only behind admission: on the true edge of the admission test, or from the deferred-message retry")
    from .. import nodestate
    R = nodestate.Roles(w)
    for (af, _mc) in roles["append"]:
        for cf, ci in P.callers().get(af.name, []):
            if cf.name in R.retry:
                chk.ok("C01-WMC", 1, {"caller": cf.name, "at": ci.loc()})
                continue
            gated = False
            for (gd, truth) in rules.branch_conditions(cf, ci):
                call, pol = rules.cond_call(cf, gd["cond"], truth)
                if call is not None and pol and call.callee in P.functions and (call.callee in R.adders or any(c.callee in R.adders for c in P.functions[call.callee].calls())):
                    gated = True
            if gated:
                chk.ok("C01-WMC", 1, {"caller": cf.name, "at": ci.loc()})
            else:
                chk.violation("C01-WMC", cf.name, af.name, ci.loc(), "%s is called outside the admission test / retry routine: the message bypasses flow control" % af.name)

    # ---- BND (interval engine)
    try:
        from .. import intervals
    except ImportError:
        intervals = None
    if intervals is not None:
        intervals.check_send_bounds(chk, w, roles)


def callback_rule(chk, w, roles, db, rid):
    """every invocation of the user's write callback holds the send-buffer mutex: packets of concurrent flushers are serialised (shared with C10)"""
    # write callback invocations
    ncb = 0
    for key, labs in db.labels.items():
        c = db.E.ctxs[key]
        for i in c.fn.calls():
            if i.callee is None and len(i.args) == 2:
                src = rules.load_source(c.fn, i.get("fptr"))
                if src and src[0] == "global" and src[1] in roles["write_cb"]:
                    for ls in c.inst_states.get(i.id, ()):
                        ncb += 1
                        if locks.ls_get(ls, "bidib_send_buffer_mutex") is None:
                            chk.violation(rid, c.fn.name, "write-callback", i.loc(), "write callback invoked without bidib_send_buffer_mutex (lockset %s): packets of two flushers can interleave" % locks.ls_str(ls), chain=db.E.chain(c))
                        else:
                            chk.ok(rid, 1, {"callback_call": i.loc(), "held": locks.ls_str(ls)})
    chk.floor("write_callback_calls", ncb, 3)



def nodrop_rule(chk, w, roles, rid):
    """every path through the append routine executes the copy into the batch buffer (shared with C05: a message dropped
    here has already been given its sequence number)"""
    chk.rule(rid, "every path through the append routine copies the message into the batch buffer (an admitted, numbered message is never dropped)")
    seen = set()
    for (f, mc) in roles["append"]:
        if f.name in seen:
            continue
        seen.add(f.name)
        copies = {i.id for (g, i) in roles["append"] if g is f}
        # a byte-wise copy loop counts as reached when its loop is entered (a zero-length copy appends nothing, like memcpy of 0 bytes)
        for (g, i) in roles["append"]:
            if g is f and getattr(i, "op", "") == "store-append":
                for h, body in f.loops().items():
                    if i.bb.id in body:
                        copies.add(f.bmap[h].insts[0].id)
        p = rules.exists_path(f, f.blocks[0].insts[0], "exit", lambda x: x.id in copies, include_start=True)
        if p:
            chk.violation(rid, f.name, "drop", p[-1].loc(), "a path through %s returns without appending the message (%s): the message is lost after admission and after its sequence number was taken" % (f.name, rules.path_text(p)))
        else:
            chk.ok(rid, 1, {"append_routine": f.name})


def _is_cell(key, cells):
    return key[0] == "load" and key[1][0] == "alloca" and key[1][1] in cells


def _note_emit(fl, key, crc_cells, out):
    if not _is_cell(key, crc_cells):
        out.add(key)


def _defining_loads(f, o, depth=0):
    """loads of globals that feed operand o through casts, arithmetic and single-assignment locals"""
    out = []
    i = f.resolve(rules.strip_casts(f, o))
    if i is None or depth > 6:
        return out
    if i.op == "load":
        if i["ptr"].get("k") == "global":
            return [i]
        a = f.resolve(i["ptr"])
        if a is not None and a.op == "alloca":
            for s in f.all_insts():
                if s.op == "store" and s["ptr"].get("k") == "inst" and s["ptr"]["id"] == a.id:
                    out += _defining_loads(f, s["val"], depth + 1)
        return out
    if i.op in ("add", "sub", "mul"):
        return _defining_loads(f, i["a"], depth + 1) + _defining_loads(f, i["b"], depth + 1)
    return out


def _path_through(f, src, dst, pred):
    """a call satisfying pred that lies on some path src -> dst, or None"""
    for c in f.calls():
        if pred(c) and c.id not in (src.id, dst.id):
            if rules.exists_path(f, src, lambda x: x.id == c.id, lambda x: x.id == dst.id) and rules.exists_path(f, c, lambda x: x.id == dst.id, None):
                return c
    return None
