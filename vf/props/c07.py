"""C07: tracked state = fold of the feedback messages (STRIDE list windows do not overlap, UNK unknown keys change nothing,
COOC status flags written together stay together, SIB sibling conversion ladders agree, OPT optimistic update with submit, ALL every
state-bearing type reaches its effect function)."""
from .. import pathwalk, rules, sendapi
from ..build import AnalysisBroken
from . import c09

LEVEL = "other"


def run(chk, w):
    P = w.P
    S = sendapi.SendAPI(w)
    chk.explanation = ("Structural necessary conditions of 'state = fold of the messages': list-shaped payloads are walked in non-overlapping record windows, so no byte is "
                       "interpreted in two roles (STRIDE); in every message-effect function each write to tracked state goes through a reference obtained from a keyed lookup and "
                       "is dominated by the non-NULL test of that reference, so an unknown node/port/number/address writes nothing (UNK); status flags of one record that some "
                       "path of an effect function assigns together are assigned together on every path that raises one of them, so the record is a function of the last message "
                       "only (COOC); the copies of the current-code conversion ladder agree interval by interval (SIB); the optimistic update accompanies exactly the submitted "
                       "drive/accessory commands (OPT).  The conversions' values against the BiDiB tables, reset values and arrival order are values/histories and not decided.")
    disp = P.functions.get("bidib_handle_received_message")
    if disp is None:
        raise AnalysisBroken("dispatcher not found")
    effects = []
    for c in disp.calls():
        g = P.functions.get(c.callee or "")
        if g is not None and g.blocks and g.relfile.startswith("src/state/") and g.ret == "void" and g not in effects:
            effects.append(g)
    # plus the optimistic-update entry points (called by the submit functions)
    for n in ("bidib_state_cs_drive", "bidib_state_cs_accessory"):
        g = P.functions.get(n)
        if g is not None and g not in effects:
            effects.append(g)
    chk.floor("message_effect_functions", len(effects), 18)
    # helpers that effect functions delegate to (static functions of the same unit taking a state pointer)
    helpers = []
    for f in effects:
        for c in f.calls():
            g = P.functions.get(c.callee or "")
            if g is not None and g.blocks and g.internal and g.relfile == f.relfile and g not in effects and g not in helpers:
                helpers.append(g)

    # ---- STRIDE
    chk.rule("C07-STRIDE", "a loop that reads a byte list at several offsets per iteration advances by at least the width of that window")
    nwin = 0
    for f in P.repo_functions():
        # list payloads are interpreted by the state setters; sentinel scans of the address stack (transmission utilities) are not records
        if not f.relfile.startswith("src/state/"):
            continue
        for h, body in f.loops().items():
            ind, ind_store = _induction(f, body)
            if not ind:
                continue
            groups = {}
            for b in body:
                for i in f.bmap[b].insts:
                    if i.op != "getelementptr" or not i["idx"] or (i["ressize"] or 1) != 1:
                        continue
                    base = rules.strip_casts(f, i["base"])
                    bi = f.resolve(base) if base.get("k") == "inst" else None
                    if bi is None or bi.op != "load":
                        continue
                    pa = f.resolve(bi["ptr"]) if bi["ptr"].get("k") == "inst" else None
                    if pa is None or pa.op != "alloca" or f.param_index_of_alloca(pa) is None:
                        continue          # lists arrive as pointer parameters
                    if len(i["idx"]) != 1:
                        continue
                    lin = _lin(f, i["idx"][0]["v"])
                    if lin is None:
                        continue
                    coefs, k = lin
                    cells = [c for c in coefs if c in ind]
                    if len(cells) != 1 or len(coefs) != 1:
                        continue
                    c0 = cells[0]
                    # a read that the increment dominates sees the advanced cursor: normalise to the iteration's start value
                    if f.dominates(ind_store[c0], i):
                        k += coefs[c0] * ind[c0]
                    # only reads (the loaded byte is used), keyed by list parameter and induction cell
                    groups.setdefault((pa.id, c0, coefs[c0] * i["idx"][0]["scale"]), {}).setdefault(k * i["idx"][0]["scale"] + i["off"], i)
            for (pid, cell, a), offs in groups.items():
                if len(offs) < 2:
                    continue
                nwin += 1
                width = max(offs) - min(offs) + 1
                step = ind[cell]
                var = f.insts[cell].get("var")
                lst = f.insts[pid].get("var")
                if a * step >= width:
                    chk.ok("C07-STRIDE", 1, {"function": f.name, "list": lst, "window": sorted(offs), "advance": a * step})
                else:
                    first = offs[max(offs)]
                    chk.violation("C07-STRIDE", f.name, lst, first.loc(),
                                  "each iteration reads %s[%s*%s + k] for k in %s but the next iteration starts only %d byte(s) further: bytes are interpreted in two roles (a value byte equal to a key code is taken as a key)" % (lst, a, var, sorted(offs), a * step))
    chk.floor("list_windows", nwin, 2)

    # ---- UNK
    chk.rule("C07-UNK", "every write to tracked state in a message-effect function goes through a keyed-lookup reference and is dominated by that reference's non-NULL test")
    nw = 0
    # helpers writing through a pointer parameter: the obligation moves to the call sites (the argument must be a guarded lookup reference)
    helper_arg_writes = {}
    for g in helpers:
        for i in g.all_insts():
            if i.op == "store" and i["ptr"].get("k") == "inst":
                for r in _roots(P, g, i["ptr"]):
                    if r[0] == "arg":
                        helper_arg_writes.setdefault(g.name, set()).add(r[1])
    for f in effects + helpers:
        tested = _null_tested_slots(f)
        for i in f.all_insts():
            ptrs = []
            if i.op == "store" and i["ptr"].get("k") == "inst":
                ptrs = [i["ptr"]]
            elif i.op == "call" and i.callee in ("g_array_append_vals", "g_array_remove_range", "g_array_remove_index", "g_array_set_size", "free") and i.args and i.args[0].get("k") == "inst":
                ptrs = [i.args[0]]
            elif i.op == "call" and i.callee in helper_arg_writes:
                ptrs = [i.args[k] for k in sorted(helper_arg_writes[i.callee]) if k < len(i.args) and i.args[k].get("k") == "inst"]
            for ptr in ptrs:
                roots = _roots(P, f, ptr)
                calls = [r for r in roots if r[0] == "call" and _is_lookup(P, r[1])]
                if not calls:
                    continue
                nw += 1
                guarded = set()
                for (gd, truth) in rules.branch_conditions(f, i):
                    for (slot_call, nonnull_when) in _null_tests(f, gd["cond"]):
                        if truth == nonnull_when:
                            guarded.add(slot_call)
                need = [r for r in calls if r[2] in tested]
                missing = [r for r in need if r[2] not in guarded]
                if missing:
                    chk.violation("C07-UNK", f.name, missing[0][1], i.loc(), "tracked state is written through the result of %s without the non-NULL test that the function applies elsewhere: a message naming an unknown key must change nothing" % missing[0][1])
                elif not any(r[2] in guarded for r in calls):
                    # none of the lookups is ever tested in this function: legitimate only for configuration-keyed lookups (construction table of C12-NUL)
                    chk.ok("C07-UNK", 1, {"write": i.loc(), "via": sorted({r[1] for r in calls}), "untested": True} if nw % 40 == 0 else None)
                else:
                    chk.ok("C07-UNK", 1)
    chk.floor("state_writes_via_lookup", nw, 40)
    # at least one NULL test per wire-keyed lookup call in an effect function
    for f in effects:
        tested = _null_tested_slots(f)
        for c in f.calls():
            if c.callee and _is_lookup(P, c.callee) and _wire_keyed(P, c.callee):
                if c.id in tested:
                    chk.ok("C07-UNK", 1)
                else:
                    chk.violation("C07-UNK", f.name, c.callee, c.loc(), "the result of the wire-keyed lookup %s is never compared with NULL: an unknown key is dereferenced instead of ignored" % c.callee)

    # ---- COOC
    chk.rule("C07-COOC", "boolean status fields of one record that some path assigns together are assigned together on every path that sets one of them to true")
    nrec = 0
    for f in effects + helpers:
        segs = _segments(P, f)
        if not segs:
            continue
        # co-occurrence belief: A=true and B written on one segment
        pairs = set()
        for wr in segs:
            for (fa_, va) in wr.items():
                if va is True:
                    for fb in wr:
                        if fb != fa_ and fb.rsplit(".", 1)[0] == fa_.rsplit(".", 1)[0]:
                            pairs.add((fa_, fb))
        if not pairs:
            continue
        nrec += 1
        bad = None
        for wr in segs:
            for (a, b) in sorted(pairs):
                if wr.get(a) is True and b not in wr:
                    bad = (a, b)
        if bad:
            a, b = bad
            chk.violation("C07-COOC", f.name, b, "%s:%d" % (f.relfile, f.line),
                          "some path of %s assigns %s together with %s=true, but another path sets %s=true and leaves %s as it was: the record then depends on earlier messages, not on the last one" % (f.name, b, a, a, b))
        else:
            chk.ok("C07-COOC", 1, {"function": f.name, "flag_pairs": sorted("%s+%s" % (a.rsplit(".", 1)[1], b.rsplit(".", 1)[1]) for a, b in pairs)[:6]})
    chk.floor("functions_with_flag_pairs", nrec, 2)

    # ---- SIB
    chk.rule("C07-SIB", "all copies of the current-code conversion ladder agree interval by interval")
    ladders = {}
    for f in P.repo_functions():
        lad = _ladder(P, f, "t_bidib_power_consumption.current")
        if lad:
            ladders[f.name] = lad
    chk.extra["conversion_ladders"] = {k: len(v) for k, v in ladders.items()}
    names = sorted(ladders)
    if len(names) >= 2:
        ref = ladders[names[0]]
        for n in names[1:]:
            if ladders[n] == ref:
                chk.ok("C07-SIB", len(ref), {"agree": [names[0], n], "intervals": len(ref)})
                continue
            # the arms may be cut differently (merged intervals, hoisted common stores): compare what each code value is converted to
            pa, pb = _pointwise(ref), _pointwise(ladders[n])
            diff = []
            for v in range(256):
                fa, fb = pa[v], pb[v]
                for fld in sorted(set(fa) | set(fb)):
                    xa, xb = fa.get(fld), fb.get(fld)
                    if xa == "ambiguous" or xb == "ambiguous" or xa == xb:
                        continue
                    diff.append((v, fld, xa, xb))
            if not diff:
                chk.ok("C07-SIB", len(ref), {"agree": [names[0], n], "compared": "value by value over 0..255"})
            else:
                f = P.functions[n]
                chk.violation("C07-SIB", n, names[0], "%s:%d" % (f.relfile, f.line),
                              "the current-code conversion in %s differs from the one in %s: code %d sets %s to %s there and to %s here (%d differing code/field pairs)" % (
                                  n, names[0], diff[0][0], diff[0][1], diff[0][2], diff[0][3], len(diff)))
    elif len(names) == 1:
        chk.ok("C07-SIB", 1, {"single_copy": names[0], "intervals": len(ladders[names[0]])})
    else:
        raise AnalysisBroken("no current-code conversion ladder found")

    # ---- OPT
    c09.opt_rule(chk, w, S, "C07-OPT")

    # ---- MEMO
    from .. import memo
    memo.run(chk, P, "C07-MEMO", lambda f_: f_.relfile.startswith("src/state/") and "getter" in f_.relfile and f_.ret.endswith("*"), 12)

    # ---- WALKALL
    rules.walkall_rule(chk, P, "C07-WALKALL", lambda f_: f_.relfile.startswith("src/state/bidib_state_setter"), 8)

    # ---- DIR (shared with C09)
    c09.dir_rule(chk, P, "C07-DIR")


# ---------------------------------------------------------------------------------------------------------------
def _lin(f, o, depth=0):
    """(cell -> coefficient, constant) of an index expression over local cells, or None"""
    if depth > 10:
        return None
    c = rules.const_of(f, o)
    if c is not None:
        return ({}, c)
    i = f.resolve(o) if o.get("k") == "inst" else None
    if i is None:
        return None
    if i.op in ("zext", "sext", "trunc"):
        return _lin(f, i["a"], depth + 1)
    if i.op == "load":
        a = f.resolve(i["ptr"]) if i["ptr"].get("k") == "inst" else None
        if a is not None and a.op == "alloca":
            return ({a.id: 1}, 0)
        return None
    if i.op in ("add", "sub"):
        x, y = _lin(f, i["a"], depth + 1), _lin(f, i["b"], depth + 1)
        if x is None or y is None:
            return None
        sg = 1 if i.op == "add" else -1
        co = dict(x[0])
        for k, v in y[0].items():
            co[k] = co.get(k, 0) + sg * v
        return ({k: v for k, v in co.items() if v}, x[1] + sg * y[1])
    if i.op in ("mul", "shl"):
        cb = rules.const_of(f, i["b"])
        ca = rules.const_of(f, i["a"])
        if i.op == "shl":
            if cb is None:
                return None
            m, x = 1 << cb, _lin(f, i["a"], depth + 1)
        elif cb is not None:
            m, x = cb, _lin(f, i["a"], depth + 1)
        elif ca is not None:
            m, x = ca, _lin(f, i["b"], depth + 1)
        else:
            return None
        if x is None:
            return None
        return ({k: v * m for k, v in x[0].items()}, x[1] * m)
    return None


def _induction(f, body):
    """local cells with exactly one store inside the loop, of the form cell = cell + s (s > 0 constant): cell -> s"""
    out = {}
    where = {}
    stores = {}
    for b in body:
        for i in f.bmap[b].insts:
            if i.op == "store" and i["ptr"].get("k") == "inst":
                a = f.resolve(i["ptr"])
                if a is not None and a.op == "alloca":
                    stores.setdefault(a.id, []).append(i)
    for cid, sts in stores.items():
        if len(sts) != 1:
            continue
        lin = _lin(f, sts[0]["val"])
        if lin and lin[0] == {cid: 1} and lin[1] > 0:
            out[cid] = lin[1]
            where[cid] = sts[0]
    return out, where


def _reaching_stores(f, a_id, load):
    """stores to the local slot that can reach this load without an intervening store to the slot"""
    sts = [s for s in f.all_insts() if s.op == "store" and s["ptr"].get("k") == "inst" and s["ptr"]["id"] == a_id]
    if len(sts) <= 1:
        return sts
    ids = {s.id for s in sts}
    return [s for s in sts if rules.exists_path(f, s, lambda x: x.id == load.id, lambda x: x.id in ids)]


def _roots(P, f, o, depth=0, seen=None):
    """where a pointer comes from: ('call', callee, inst id) | ('global', name) | ('arg', k) | ('local', var)"""
    seen = seen if seen is not None else set()
    for _ in range(14):
        if not isinstance(o, dict):
            return []
        if o.get("k") == "global":
            return [("global", o["name"], None)]
        if o.get("k") == "arg":
            return [("arg", o["i"], None)]
        if o.get("k") != "inst":
            return []
        o = rules.strip_casts(f, o)
        i = f.resolve(o)
        if i is None:
            return []
        if i.op == "getelementptr":
            o = i["base"]
        elif i.op == "load":
            a = f.resolve(i["ptr"]) if i["ptr"].get("k") == "inst" else None
            if a is not None and a.op == "alloca":
                if a.id in seen or depth > 5:
                    return []
                seen.add(a.id)
                k = f.param_index_of_alloca(a)
                if k is not None:
                    return [("arg", k, None)]
                out = []
                for s in _reaching_stores(f, a.id, i):
                    out += _roots(P, f, s["val"], depth + 1, seen)
                return out
            o = i["ptr"]
        elif i.op == "call":
            return [("call", i.callee, i.id)]
        elif i.op == "phi":
            out = []
            for x in i["incoming"]:
                out += _roots(P, f, x[1], depth + 1, seen)
            return out
        else:
            return []
    return []


def _is_lookup(P, name):
    g = P.functions.get(name or "")
    return g is not None and g.blocks and g.relfile.startswith("src/state/") and g.ret.endswith("*")


def _wire_keyed(P, name):
    """lookups keyed by something a message carries: node address, dcc address, unique id, port, number"""
    g = P.functions.get(name)
    if g is None:
        return False
    for p in g.params:
        t = P.di_name(p.get("ditype", -1)) if "ditype" in p else ""
        if any(x in t for x in ("t_bidib_node_address", "t_bidib_dcc_address", "t_bidib_unique_id", "t_bidib_peripheral_port")):
            return True
    return any(x in name for x in ("by_nodeaddr", "by_dccaddr", "by_uniqueid", "by_port"))


def _slot_call(f, o):
    """the lookup call whose result the (loaded) pointer operand holds: call inst id, through one local slot"""
    o = rules.strip_casts(f, o)
    i = f.resolve(o) if o.get("k") == "inst" else None
    if i is None:
        return []
    if i.op == "call":
        return [i.id]
    if i.op == "load":
        a = f.resolve(i["ptr"]) if i["ptr"].get("k") == "inst" else None
        if a is not None and a.op == "alloca":
            out = []
            for s in _reaching_stores(f, a.id, i):
                v = f.resolve(rules.strip_casts(f, s["val"])) if s["val"].get("k") == "inst" else None
                if v is not None and v.op == "call":
                    out.append(v.id)
            return out
    return []


def _null_tests(f, cond, depth=0):
    """[(call id, truth value of cond under which the pointer is non-NULL)] for a comparison of a lookup result with NULL"""
    c = f.resolve(cond) if cond.get("k") == "inst" else None
    if c is None or c.op != "icmp" or c["pred"] not in ("eq", "ne"):
        return []
    a, b = c["a"], c["b"]
    if a.get("k") == "null":
        a, b = b, a
    if b.get("k") != "null":
        return []
    return [(cid, c["pred"] == "ne") for cid in _slot_call(f, a)]


def _null_tested_slots(f):
    out = set()
    for i in f.all_insts():
        if i.op == "icmp":
            for cid, _ in _null_tests(f, {"k": "inst", "id": i.id}):
                out.add(cid)
    return out


def _segments(P, f):
    """write sets of boolean state fields per path segment (function entry or loop head -> exit or loop head):
    [ {field: True | False | None(variable)} ]"""
    heads = {f.bmap[h].insts[0].id for h in f.loops()}
    segs = []
    seen_sig = set()

    def on_inst(inst, u, facts):
        if inst.id in heads:
            if u:
                _emit(u)
            return [()]
        if inst.op == "store" and inst["ptr"].get("k") == "inst" and inst["val"].get("k") in ("const", "inst") and _is_bool_store(P, f, inst):
            fp = rules.field_path_of_ptr(P, f, inst["ptr"])
            roots = _roots(P, f, inst["ptr"])
            if fp and any(r[0] in ("call", "arg", "global") for r in roots):
                c = rules.const_of(f, inst["val"])
                v = None if c is None else bool(c & 1)
                d = dict(u)
                d[fp] = v
                return [tuple(sorted(d.items(), key=lambda kv: kv[0]))]
        return None

    def _emit(u):
        if u not in seen_sig:
            seen_sig.add(u)
            segs.append(dict(u))

    def on_exit(ret, u, facts):
        if u:
            _emit(u)

    wk = pathwalk.Walker(f, cells={}, max_states=200000)
    wk.walk((), on_inst, on_exit)
    if wk.truncated:
        return []
    return segs


_BOOL_CACHE = {}


def _is_bool_store(P, f, st):
    """the stored field is declared _Bool (DWARF member type of the selected field)"""
    fp = rules.field_path_of_ptr(P, f, st["ptr"])
    if not fp or "." not in fp:
        return False
    if fp in _BOOL_CACHE:
        return _BOOL_CACHE[fp]
    sname, fname = fp.rsplit(".", 1)
    res = False
    for k, t in enumerate(P.ditypes):
        if t.get("name") == sname and t.get("kind") in ("typedef", "struct"):
            for (n, off, size, mt) in P.di_members(k) or []:
                if n == fname:
                    b = P.di_strip(mt)
                    res = bool(b) and b.get("kind") == "base" and b.get("name") == "_Bool"
            break
    _BOOL_CACHE[fp] = res
    return res


def _ladder(P, f, field):
    """conversion ladder summary: for every store to `field` whose value is an affine function of one byte subject, the interval of the subject on
    that branch (from the dominating comparisons with constants) and the (offset, multiplier): sorted tuple of (lo, hi, sub, mul); also the
    intervals on which the sibling boolean fields of the record are set (lo, hi, field, value)"""
    out = []
    rec = field.rsplit(".", 1)[0]
    for i in f.all_insts():
        if i.op != "store" or i["ptr"].get("k") != "inst":
            continue
        fp = rules.field_path_of_ptr(P, f, i["ptr"])
        if not fp or fp.rsplit(".", 1)[0] != rec:
            continue
        subj_iv = _subject_interval(P, f, i)
        if subj_iv is None:
            continue
        lo, hi = subj_iv
        c = rules.const_of(f, i["val"])
        if c is not None:
            out.append((lo, hi, fp.rsplit(".", 1)[1], "const", c))
            continue
        aff = _affine(f, i["val"])
        if aff is None:
            out.append((lo, hi, fp.rsplit(".", 1)[1], "?", 0))
        else:
            out.append((lo, hi, fp.rsplit(".", 1)[1], "affine", aff))
    if not any(x[2] == field.rsplit(".", 1)[1] and x[3] == "affine" for x in out):
        return None
    return tuple(sorted(out, key=str))


def _pointwise(ladder):
    """per code value 0..255: field -> value the ladder stores (affine arms evaluated); 'ambiguous' when two arms covering the value disagree"""
    out = []
    for v in range(256):
        d = {}
        for (lo, hi, fld, kind, par) in ladder:
            if not (lo <= v <= hi):
                continue
            if kind == "const":
                val = par
            elif kind == "affine":
                val = par[0] * (v + par[1])
            else:
                val = "?"
            if fld in d and d[fld] != val:
                d[fld] = "ambiguous"
            elif fld not in d:
                d[fld] = val
        out.append(d)
    return out


def _affine(f, o, depth=0):
    """(multiplier, offset) such that value = multiplier * (subject + offset), subject an opaque byte load"""
    if depth > 8:
        return None
    i = f.resolve(o) if o.get("k") == "inst" else None
    if i is None:
        return None
    if i.op in ("zext", "sext", "trunc"):
        return _affine(f, i["a"], depth + 1)
    if i.op == "load":
        return (1, 0)
    if i.op in ("add", "sub"):
        cb = rules.const_of(f, i["b"])
        x = _affine(f, i["a"], depth + 1)
        if cb is None or x is None or x[0] != 1:
            return None
        return (1, x[1] + (cb if i.op == "add" else -cb))
    if i.op in ("mul", "shl"):
        cb = rules.const_of(f, i["b"])
        x = _affine(f, i["a"], depth + 1)
        if cb is None or x is None:
            return None
        m = cb if i.op == "mul" else (1 << cb)
        return (x[0] * m, x[1])
    return None


_SUBJ = {}


def _ladder_subject(f):
    """the byte the function's conversion ladder is about: the byte-typed value that is compared with constants most often (a selector such as
    `key == 0` in front of the ladder is compared once or twice, the converted value in every arm)"""
    if f.name in _SUBJ:
        return _SUBJ[f.name]
    cnt = {}
    for cnd in f.all_insts():
        if cnd.op != "icmp" or rules.const_of(f, cnd["b"]) is None or cnd["a"].get("k") != "inst":
            continue
        a = f.resolve(rules.strip_casts(f, cnd["a"]))
        if a is None or a.op != "load" or a["ty"] != "i8":
            continue
        pa = f.resolve(a["ptr"]) if a["ptr"].get("k") == "inst" else None
        if pa is not None and pa.op == "alloca" and pa.get("var") in ("i", "j"):
            continue
        key = rules.expr_key(f, cnd["a"], copyprop=True)
        cnt[key] = cnt.get(key, 0) + 1
    best = max(cnt.items(), key=lambda kv: kv[1])[0] if cnt else None
    _SUBJ[f.name] = best
    return best


def _subject_interval(P, f, inst):
    """interval of the compared byte on the branch containing inst, from the dominating comparisons 'subject <pred> constant' (all over one subject)"""
    lo, hi = 0, 255
    subj = _ladder_subject(f)
    n = 0
    for (gd, truth) in rules.branch_conditions(f, inst):
        cnd = f.resolve(gd["cond"])
        if cnd is None or cnd.op != "icmp":
            continue
        cv = rules.const_of(f, cnd["b"])
        a = f.resolve(rules.strip_casts(f, cnd["a"])) if cnd["a"].get("k") == "inst" else None
        if cv is None or a is None or a.op != "load" or a["ty"] != "i8":
            continue
        key = rules.expr_key(f, cnd["a"], copyprop=True)
        pa = f.resolve(a["ptr"]) if a["ptr"].get("k") == "inst" else None
        if pa is not None and pa.op == "alloca" and pa.get("var") in ("i", "j"):
            continue
        if subj is None:
            subj = key
        elif key != subj:
            continue
        n += 1
        pred = cnd["pred"]
        if pred in ("slt", "ult"):
            if truth:
                hi = min(hi, cv - 1)
            else:
                lo = max(lo, cv)
        elif pred in ("sle", "ule"):
            if truth:
                hi = min(hi, cv)
            else:
                lo = max(lo, cv + 1)
        elif pred in ("sgt", "ugt"):
            if truth:
                lo = max(lo, cv + 1)
            else:
                hi = min(hi, cv)
        elif pred in ("sge", "uge"):
            if truth:
                lo = max(lo, cv)
            else:
                hi = min(hi, cv - 1)
        elif pred == "eq":
            if truth:
                lo, hi = max(lo, cv), min(hi, cv)
            elif cv == lo:
                lo = cv + 1
            elif cv == hi:
                hi = cv - 1
    if n == 0:
        return None
    return (lo, hi)
