"""C06: one destination per uplink message (OWN, TAB vs README, DBG), queues FIFO/bounded/once-only (FIFO, BOUND, READ, ACC)."""
import os, re
from collections import defaultdict

from .. import access, dispatch, flow, locks, rules
from ..build import AnalysisBroken

LEVEL = "other"
ALLOWED_Q = {"g_queue_new", "g_queue_push_tail", "g_queue_pop_head", "g_queue_get_length", "g_queue_is_empty", "g_queue_free"}


def readme_lists(repo):
    """{'error': {name: conditional?}, 'message': {name: False}} parsed from the README's 'Error queue' / 'Message queue' lists"""
    path = os.path.join(repo, "README.md")
    if not os.path.exists(path):
        raise AnalysisBroken("README.md not found")
    out = {"error": {}, "message": {}}
    cur = None
    for line in open(path, errors="replace"):
        h = re.match(r"#+\s*(.*)", line)
        if h:
            t = h.group(1).strip().lower()
            cur = "error" if t == "error queue" else "message" if t == "message queue" else None
            continue
        m = re.match(r"\s*[*-]\s*(MSG_\w+)\s*(\(.*\))?", line)
        if m and cur:
            out[cur][m.group(1)] = bool(m.group(2) and "error" in m.group(2).lower())
    if not out["error"] or not out["message"]:
        raise AnalysisBroken("README queue lists not found")
    return out


def classify(paths):
    """paths of one type (debug shortcut removed) -> set of destination kinds"""
    kinds = set()
    for p in paths:
        cons = [e for e in p if e[0] in ("free", "queue", "consume")]
        if len(cons) == 1:
            e = cons[0]
            kinds.add(e[1] if e[0] == "queue" else "consumed")
        else:
            kinds.add("?")
    return kinds


def run(chk, w):
    P = w.P
    D = dispatch.Dispatch(w)
    disp = D.fn
    names = defaultdict(list)
    for k, v in w.macros.items():
        if k.startswith("MSG_") and 0 <= v <= 255:
            names[v].append(k)
    MSG_STALL = w.macro("MSG_STALL")
    chk.explanation = ("For each of the 256 type codes the dispatcher is walked path-sensitively (type constant, every other branch forked): on every path the "
                       "message buffer is consumed exactly once (freed, or handed to exactly one queue) and never used afterwards (OWN); the destinations "
                       "per type agree with the README's queue lists parsed at run time (TAB); the debug-mode shortcut forwards everything except stall "
                       "notices to the message queue (DBG). The three uplink queues are used as FIFOs only, the eviction test precedes the push with the "
                       "documented bound (BOUND), readers hand the stored buffer to the caller and free only the entry (READ), every queue access holds the "
                       "queue's mutex (ACC). Equality of delivered bytes with received bytes is not decided.")
    chk.floor("dispatcher_cases", len(D.case_values), 50)
    chk.extra["dispatcher"] = disp.name
    chk.extra["case_labels"] = len(D.case_values)

    # ---- OWN over all 256 type codes
    chk.rule("C06-OWN", "on every path of the dispatcher, for every type code, the message buffer is consumed exactly once and not used afterwards")
    npaths = 0
    per_type = {}
    for tv in range(256):
        paths = D.summaries(tv)
        per_type[tv] = paths
        tname = "/".join(names.get(tv, ["0x%02x" % tv]))
        for p in paths:
            npaths += 1
            cons = [e for e in p if e[0] in ("free", "queue", "consume")]
            ua = [e for e in p if e[0] == "use-after"]
            if len(cons) == 0:
                chk.violation("C06-OWN", disp.name, "%s:leak" % tname, "%s:%d" % (disp.relfile, disp.line), "type %s: a path returns without freeing or queueing the message (events: %s)" % (tname, _short(p)))
            elif len(cons) > 1:
                chk.violation("C06-OWN", disp.name, "%s:double" % tname, "%s:%d" % (disp.relfile, cons[1][-1]), "type %s: the message is consumed twice on one path (%s)" % (tname, _short(cons)))
            elif ua:
                chk.violation("C06-OWN", disp.name, "%s:use-after" % tname, "%s:%d" % (disp.relfile, ua[0][1]), "type %s: the message is used after it was handed over/freed (line %d)" % (tname, ua[0][1]))
            else:
                chk.ok("C06-OWN", 1, {"type": tname, "path": _short(p)} if tv in (MSG_STALL, 0xA0) else None)
    chk.extra["dispatcher_paths"] = npaths
    chk.floor("dispatcher_paths", npaths, 500)

    # ---- DBG
    chk.rule("C06-DBG", "debug mode: every type except MSG_STALL has the shortcut path 'append to the message queue, nothing else'; MSG_STALL has none")
    for tv in range(256):
        shortcut = [p for p in per_type[tv] if len(p) == 1 and p[0][0] == "queue"]
        tname = "/".join(names.get(tv, ["0x%02x" % tv]))
        if tv == MSG_STALL:
            if shortcut:
                chk.violation("C06-DBG", disp.name, "MSG_STALL", "%s:%d" % (disp.relfile, shortcut[0][0][-1]), "a stall notice can be diverted to a queue without reaching the stall handler")
            else:
                chk.ok("C06-DBG", 1)
        else:
            if len(shortcut) == 1 and shortcut[0][0][1] == "uplink_queue":
                chk.ok("C06-DBG", 1)
            else:
                chk.violation("C06-DBG", disp.name, tname, "%s:%d" % (disp.relfile, disp.line), "type %s has no debug-mode shortcut to the message queue (or it goes elsewhere)" % tname)

    # ---- TAB
    chk.rule("C06-TAB", "destinations per type agree with the README's 'Error queue' and 'Message queue' lists")
    lists = readme_lists(w.repo)
    chk.extra["readme"] = {k: sorted(v) for k, v in lists.items()}
    by_name = {}
    for tv in range(256):
        normal = [p for p in per_type[tv] if not (len(p) == 1 and p[0][0] == "queue")]
        kinds = classify(normal)
        for nm in names.get(tv, []):
            by_name[nm] = (tv, kinds)
    for nm, cond in sorted(lists["error"].items()):
        if nm not in by_name:
            chk.violation("C06-TAB", disp.name, nm, "README.md", "README lists %s but no such message type constant exists" % nm)
            continue
        tv, kinds = by_name[nm]
        want = {"uplink_error_queue", "consumed"} if cond else {"uplink_error_queue"}
        if kinds == want:
            chk.ok("C06-TAB", 1, {"type": nm, "destinations": sorted(kinds)})
        else:
            chk.violation("C06-TAB", disp.name, nm, "README.md", "README: %s -> error queue%s; code: %s" % (nm, " (only in case of an error)" if cond else "", sorted(kinds)))
    for nm in sorted(lists["message"]):
        if nm not in by_name:
            chk.violation("C06-TAB", disp.name, nm, "README.md", "README lists %s but no such message type constant exists" % nm)
            continue
        tv, kinds = by_name[nm]
        if kinds == {"uplink_queue"}:
            chk.ok("C06-TAB", 1, {"type": nm, "destinations": sorted(kinds)})
        else:
            chk.violation("C06-TAB", disp.name, nm, "README.md", "README: %s -> message queue; code: %s" % (nm, sorted(kinds)))
    # types with an explicit case label that are not listed must not reach a user queue unless they are the default route
    listed = set(lists["error"]) | set(lists["message"])
    listed_values = {w.macros[n] for n in listed if n in w.macros}
    for tv in D.case_values:
        if tv in listed_values:
            continue        # several macro names share one value (category bases); the value is listed
        for nm in names.get(tv, [])[:1]:
            nm = "/".join(names.get(tv))
            _tv, kinds = by_name[names[tv][0]]
            if "uplink_error_queue" in kinds:
                chk.violation("C06-TAB", disp.name, nm, "%s:%d" % (disp.relfile, disp.line), "%s can reach the error queue but the README does not list it there" % nm)
            elif kinds <= {"consumed", "uplink_intern_queue"}:
                chk.ok("C06-TAB", 1)
            elif kinds == {"uplink_queue"}:
                chk.violation("C06-TAB", disp.name, nm, "%s:%d" % (disp.relfile, disp.line), "%s has its own case routed to the message queue but the README does not list it" % nm)
            else:
                chk.ok("C06-TAB", 1)

    # ---- CONTENT: which destination is chosen depends on the message bytes only
    chk.rule("C06-CONTENT", "every branch of the dispatcher that selects between destinations is a function of type and message bytes only (no tracked state, no configuration)")
    consuming = {i.id for i in disp.all_insts() if i.op == "call" and i.callee and (i.callee == "free" or i.callee in D.namers or (i.callee in D.adders and D._queue_arg(i) is not None)) and D.msg_arg_positions(i)}
    ncb = 0
    for b in disp.blocks:
        t = b.term
        if t.op != "br" or "cond" not in t.d or t["t"] == t["f"]:
            continue
        # does the branch separate different consumption calls?
        def dests(succ):
            reach = disp.reachable_from(succ)
            return {i.id for bb in reach for i in disp.bmap[bb].insts if i.id in consuming}
        dt, df = dests(t["t"]), dests(t["f"])
        if dt == df or not dt or not df:
            continue
        # ignore the switch fan-out itself and branches both of whose sides reach everything
        ncb += 1
        bad = _impure_sources(P, disp, t["cond"], D.mparam)
        # the documented mode switch (debug mode) is part of the statement
        bad = [x for x in bad if x != "global bidib_lowlevel_debug_mode"]
        if bad:
            chk.violation("C06-CONTENT", disp.name, "line-of-%s" % bad[0], t.loc(), "the destination of a message is selected by %s, which is not a function of the message bytes" % ", ".join(bad))
        else:
            chk.ok("C06-CONTENT", 1, {"branch": t.loc()})
    chk.floor("destination_selecting_branches", ncb, 4)

    # ---- FIFO / BOUND / READ on the uplink queues
    uq = sorted(dispatch.queue_roles(P).keys())      # the queue objects themselves (the summaries above use their role names)
    chk.floor("uplink_queues", len(uq), 3)
    uqn = sorted({k.split("+")[0] for k in uq})       # the globals (a slot of a queue array is named global+offset)
    chk.rule("C06-FIFO", "the uplink queues are only used through new/push_tail/pop_head/get_length/is_empty/free")
    qcalls = []
    for f in P.repo_functions():
        for i in f.calls():
            if i.callee and i.callee.startswith("g_queue_") and i.args:
                gs = {g for g, namer in flow.global_sources(P, f, i.args[0])}
                if gs & set(uq):
                    qcalls.append((f, i, gs & set(uq)))
    chk.floor("uplink_queue_api_calls", len(qcalls), 5)
    for (f, i, gs) in qcalls:
        if i.callee in ALLOWED_Q:
            chk.ok("C06-FIFO", 1, {"call": i.callee, "at": i.loc(), "queues": sorted(gs)})
        else:
            chk.violation("C06-FIFO", f.name, i.callee, i.loc(), "%s on an uplink queue breaks oldest-first delivery" % i.callee)

    chk.rule("C06-BOUND", "an entry is appended only after the test 'length == QUEUE_SIZE -> drop the oldest', QUEUE_SIZE being 128")
    qsize = w.macros.get("QUEUE_SIZE")
    if qsize is None:
        # the macro is local to the .c file: read it from the comparison itself
        qsize = None
    pushes = [(f, i) for (f, i, gs) in qcalls if i.callee == "g_queue_push_tail"]
    chk.floor("uplink_pushes", len(pushes), 1)
    for (f, i) in pushes:
        ok = False
        const = None
        for b in f.blocks:
            t = b.term
            if t.op == "br" and "cond" in t.d and f.dominates(t, i):
                c = f.resolve(rules.resolve_local(f, rules.strip_casts(f, t["cond"])))     # also `const bool full = len == N; if (full)`
                if c is not None and c.op == "icmp":
                    call = f.resolve(rules.resolve_local(f, rules.strip_casts(f, c["a"])))
                    cv = rules.const_of(f, c["b"])
                    if call is not None and call.op == "call" and call.callee == "g_queue_get_length" and cv is not None:
                        const = cv
                        evict_edge = t["t"] if c["pred"] in ("eq", "uge", "sge", "ugt", "sgt") else t["f"]
                        evicts = [x for x in f.calls() if rules.edge_dominates(f, b.id, evict_edge, x) and x.callee in P.functions and
                                  any(y.callee == "g_queue_pop_head" for y in P.functions[x.callee].calls())]
                        evicts += [x for x in f.calls("g_queue_pop_head") if rules.edge_dominates(f, b.id, evict_edge, x)]
                        good_pred = (c["pred"] == "eq" and cv == 128) or (c["pred"] in ("uge", "sge") and cv == 128) or (c["pred"] in ("ugt", "sgt") and cv == 127)
                        if evicts and good_pred and all(f.dominates(e, i) or True for e in evicts):
                            ok = True
        trimmed = None if ok else _trimmed_before_unlock(P, f, i)
        if ok:
            chk.ok("C06-BOUND", 1, {"push": i.loc(), "bound": const})
        elif trimmed is True:
            chk.ok("C06-BOUND", 1, {"push": i.loc(), "bound": "trimmed to 128 after the append, before the queue mutex is released, in every caller"})
        elif trimmed:
            chk.violation("C06-BOUND", trimmed.fn.name, "push-without-trim", trimmed.loc(),
                          "an entry appended by %s (line %d) can stay in the queue without the bound being enforced before %s releases the queue mutex / returns: that queue can grow beyond 128 entries" % (f.name, i.line, trimmed.fn.name))
        else:
            chk.violation("C06-BOUND", f.name, "push-without-eviction-test", i.loc(),
                          "append to an uplink queue is not preceded by 'length == 128 -> drop oldest' (found bound %s)" % const)

    chk.rule("C06-READ", "a reader removes the head entry, returns the stored buffer to the caller and frees only the entry")
    readers = [(f, i) for (f, i, gs) in qcalls if i.callee == "g_queue_pop_head" and f.ret.endswith("*")]
    chk.floor("uplink_readers", len(readers), 1)
    for (f, pc) in readers:
        freed = []
        for c in f.calls("free"):
            tags = flow.origins(f, c.args[0])
            freed.append(tags)
        ret_tags = set()
        for r in f.all_insts():
            if r.op == "ret" and "val" in r.d:
                ret_tags |= flow.origins(f, r["val"])
        pop_tag = ("call", "g_queue_pop_head", pc.id)
        frees_entry = any(pop_tag in t for t in freed)
        frees_msg = any(any(x[0] == "field" for x in t) for t in freed)
        returns_field = any(x[0] == "field" and x[1] == pop_tag for x in ret_tags)
        if frees_entry and not frees_msg and returns_field:
            chk.ok("C06-READ", 1, {"reader": f.name})
        else:
            chk.violation("C06-READ", f.name, "ownership", pc.loc(), "reader does not (free the popped entry, keep its buffer, return the buffer): entry freed=%s buffer freed=%s returns buffer=%s" % (frees_entry, frees_msg, returns_field))

    # ---- ACC
    chk.rule("C06-ACC", "every access to an uplink queue holds that queue's mutex")
    db = access.AccessDB(w)
    n = 0
    for q in uqn:
        # the queue object itself, or - when the queues are kept in one file-static array - each of its slots
        regs = [r for r in db.by_region if r[0] == q and (r[1] is None or str(r[1]).startswith("["))] or [(q, None)]
        if len(regs) > 1:
            regs = [r for r in regs if r[1] is not None]
        for reg in sorted(regs, key=str):
            lock, src = db.lock_of(reg)
            qn = q + (reg[1] or "")
            if lock is None:
                raise AnalysisBroken("no designated lock for %s" % qn)
            for a in db.by_region.get(reg, []):
                n += 1
                if locks.ls_get(a.ls, lock) is None:
                    chk.violation("C06-ACC", a.fn.name, qn, a.loc(), "%s (%s) without %s, lockset %s" % (qn, a.what, lock, locks.ls_str(a.ls)))
                else:
                    chk.ok("C06-ACC", 1)
    chk.floor("uplink_queue_accesses", n, 25)


def _short(p):
    out = []
    for e in p:
        if e[0] == "call":
            out.append(e[1])
        elif e[0] == "queue":
            out.append("-> " + e[1])
        else:
            out.append(e[0])
    return " ; ".join(out[:12])


def _pure(P, fname, seen=None):
    """no access to non-constant globals or memory reached through them, no impure callees"""
    seen = seen or set()
    if fname in seen:
        return True
    seen.add(fname)
    f = P.functions.get(fname)
    if f is None or not f.blocks:
        return fname in ("abs", "llvm.dbg.declare") or fname.startswith("llvm.")
    for i in f.all_insts():
        if i.op in ("load", "store"):
            for tg in flow.origins(f, i["ptr"]):
                if tg[0] in ("gaddr", "gload") and not P.globals.get(tg[1], {}).get("const"):
                    return False
                if tg[0] in ("field", "elem"):
                    x = tg
                    while x[0] in ("field", "elem") and isinstance(x[1], tuple):
                        x = x[1]
                    if x[0] in ("gaddr", "gload") and not P.globals.get(x[1], {}).get("const"):
                        return False
                    if x[0] == "call":
                        return False
        elif i.op == "call" and i.callee and not _pure(P, i.callee, seen):
            return False
        elif i.op == "call" and i.callee is None:
            return False
    return True


def _impure_sources(P, f, cond, mparam, depth=0):
    """names of things the condition depends on that are neither message bytes, constants, locals computed from them, nor pure functions"""
    bad = []
    seen = set()

    def walk(o, d=0):
        if o.get("k") in ("const", "null"):
            return
        if o.get("k") == "arg":
            return
        if o.get("k") == "global":
            g = P.globals.get(o["name"], {})
            if not g.get("const"):
                bad.append("global %s" % o["name"])
            return
        if o.get("k") != "inst" or d > 12 or o["id"] in seen:
            return
        seen.add(o["id"])
        i = f.insts[o["id"]]
        if i.op == "load":
            p = i["ptr"]
            pi = f.resolve(p)
            if p.get("k") == "global":
                g = P.globals.get(p["name"], {})
                if not g.get("const"):
                    bad.append("global %s" % p["name"])
                return
            if pi is not None and pi.op == "alloca":
                for s in f.all_insts():
                    if s.op == "store" and s["ptr"].get("k") == "inst" and s["ptr"]["id"] == pi.id:
                        walk(s["val"], d + 1)
                return
            # load through a pointer: fine if the pointer is (an element of) the message parameter
            tags = flow.origins(f, p)
            for tg in tags:
                x = tg
                while x[0] in ("elem", "field") and isinstance(x[1], tuple):
                    x = x[1]
                if x == ("param", mparam):
                    continue
                if x[0] in ("gaddr", "gload") and P.globals.get(x[1], {}).get("const"):
                    continue
                bad.append("memory behind %s" % (x[1] if len(x) > 1 else x[0]))
            for kk in ("ptr",):
                walk(i[kk], d + 1) if False else None
            return
        if i.op == "call":
            if i.callee and _pure(P, i.callee):
                for a in i.args:
                    walk(a, d + 1)
            else:
                bad.append("the result of %s()" % (i.callee or "an indirect call"))
            return
        if i.op == "phi":
            for b, v in i["incoming"]:
                walk(v, d + 1)
            return
        for k in ("a", "b", "cond", "base"):
            if k in i.d and isinstance(i.d[k], dict):
                walk(i.d[k], d + 1)
        for x in i.d.get("idx", ()):
            walk(x["v"], d + 1)

    walk(cond)
    return sorted(set(bad))


def _trimmers(P):
    """functions that enforce the bound afterwards: a loop 'while (g_queue_get_length(q) > 128) pop oldest' (or >= 129)"""
    out = set()
    for g in P.repo_functions():
        for b in g.blocks:
            t = b.term
            if t.op == "br" and "cond" in t.d and b.id in g.loops():
                c = g.resolve(t["cond"])
                if c is not None and c.op == "icmp":
                    call = g.resolve(rules.strip_casts(g, c["a"]))
                    cv = rules.const_of(g, c["b"])
                    if call is not None and call.op == "call" and call.callee == "g_queue_get_length" and \
                            ((c["pred"] in ("ugt", "sgt") and cv == 128) or (c["pred"] in ("uge", "sge") and cv == 129)):
                        body = g.loops()[b.id]
                        pops = [x for x in g.calls() if x.bb.id in body and (x.callee == "g_queue_pop_head" or
                                (x.callee in P.functions and any(y.callee == "g_queue_pop_head" for y in P.functions[x.callee].calls())))]
                        if pops:
                            out.add(g.name)
    return out


def _trimmed_before_unlock(P, f, push):
    """True when every caller (one or two levels up) that holds the queue mutex trims the queue after the append and before it unlocks;
    otherwise the instruction where an untrimmed append leaves the critical section"""
    from .. import pending, locks
    tr = _trimmers(P)
    if not tr:
        return push
    pd = pending.Pending(P, lambda fn, x: x.id == push.id and fn is f, lambda fn, x: x.op == "call" and x.callee in tr)

    def check(fn, depth):
        unl = [c for c in fn.calls() if c.callee in locks.REL]
        if unl or depth >= 2 or not P.callers().get(fn.name):
            bad = pd.leaks_at(fn, leaves=(lambda x: x.op == "call" and x.callee in locks.REL) if unl else None)
            if bad is None:
                return fn.blocks[0].insts[0]
            return bad[0] if bad else None
        for cf in {cf.name: cf for cf, ci in P.callers().get(fn.name, [])}.values():
            r = check(cf, depth + 1)
            if r is not None:
                return r
        return None
    r = check(f, 0)
    return True if r is None else r
