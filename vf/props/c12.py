"""C12: no received byte stream causes out-of-bounds access, a crash or a stuck receiver
(TAB table subscripts, PKT packet buffer, LEN field reads vs. message length, SCAN unbounded address scans, NUL lookup results, LOCK receiver
paths keep no lock, PROG receive loops make progress)."""
from collections import defaultdict

from .. import pathwalk, dispatch, flow, intervals, locks, rules
from ..build import AnalysisBroken
from . import c02

LEVEL = "other"

# lookups keyed by an id that was itself taken from the configuration tables cannot fail in a started library (the parsers append mapping
# and state together or start fails); E6 cannot prove that container invariant, so these sites are listed explicitly, one reason each
CONSTRUCTION = {
    ("bidib_state_bm_confidence", "bidib_state_get_segment_state_ref"): "a segment state exists for every segment mapping of a board (parser appends both or fails)",
    ("bidib_set_train_speed_internal", "bidib_state_get_train_state_ref"): "the train itself was found just before; train and train state are appended together",
    ("bidib_get_current_train_peripheral_bits", "bidib_state_get_train_peripheral_state_by_bit"): "the bit is taken from the train's own peripheral mapping",
    ("bidib_state_cs_drive", "bidib_state_get_train_peripheral_state_by_bit"): "the bit is taken from the train's own peripheral mapping",
    ("bidib_set_train_peripheral", "bidib_state_get_train_peripheral_state_by_bit"): "same site as bidib_get_current_train_peripheral_bits when that static helper is written out in its only caller",
    ("bidib_config_parse_single_board_setup", "bidib_state_get_board_ref"): "parse phase: a failed lookup sets the error flag and the dereferencing branch is skipped (flag-guarded)",
}


def cap_rule(chk, P, fnames, rid, floor):
    """shared with C18: local arrays, VLAs and heap blocks that receive a data-dependent number of bytes are sized by an expression that covers it"""
    from .. import capacity
    chk.rule(rid, "a buffer written with an extent taken from a message's length byte (formatted dump, block copy) is allocated with a size expression that covers the extent")
    n = 0
    seen = set()
    for (status, f, inst, obj, text, detail) in capacity.check(P, fnames):
        if (status, inst.loc(), obj) in seen:
            continue            # the same source line in several inlined copies of a helper
        seen.add((status, inst.loc(), obj))
        if status == "ok":
            n += 1
            chk.ok(rid, 1, detail)
        elif status == "abstain":
            chk.abstain(rid, text, inst.loc())
        else:
            n += 1
            chk.violation(rid, f.name, obj, inst.loc(), text)
    chk.floor(rid.lower().replace("-", "_") + "_sites", n, floor)


def _queue_test(f, cond, depth=0):
    """the condition is the result of g_queue_pop_head / g_queue_peek_head / g_queue_is_empty / g_queue_get_length (possibly compared with
    NULL / 0, negated, or kept in a local): the call, else None"""
    o = cond
    for _ in range(8):
        o = rules.strip_casts(f, o)
        if o.get("k") != "inst":
            return None
        i = f.insts[o["id"]]
        if i.op == "call":
            return i if i.callee in ("g_queue_pop_head", "g_queue_pop_tail", "g_queue_peek_head", "g_queue_peek_tail", "g_queue_is_empty", "g_queue_get_length") else None
        if i.op == "icmp" and (rules.const_of(f, i["b"]) == 0 or i["b"].get("k") == "null"):
            o = i["a"]
        elif i.op == "xor":
            o = i["a"]
        elif i.op == "load":
            o2 = rules.resolve_local(f, o)
            if o2 == o:
                # a local assigned in the loop (`elem = pop(q)` as a statement of its own): the unique store of a call result
                src = rules.load_source(f, o)
                if src and src[0] == "alloca":
                    st = [x for x in f.all_insts() if x.op == "store" and x["ptr"].get("k") == "inst" and x["ptr"]["id"] == src[1]]
                    calls = [x for x in st if x["val"].get("k") == "inst" and f.insts[x["val"]["id"]].op == "call"]
                    if len(calls) == 1 and all(x is calls[0] or x["val"].get("k") == "null" or rules.const_of(f, x["val"]) == 0 for x in st):
                        o = calls[0]["val"]
                        continue
                return None
            o = o2
        else:
            return None
    return None


def drain_rule(chk, P, fnames):
    """DRAIN: a loop that is left when a queue is found empty never appends to that queue in its body, so every iteration shrinks it.
    (A drain loop that puts an element back spins for ever while the receiver thread holds the table mutex.)"""
    from .. import capacity
    chk.rule("C12-DRAIN", "a loop that runs until a queue is empty does not append to that queue in its body (each iteration shrinks the queue, so the receiver cannot spin in it)")
    n = 0
    for name in sorted(fnames):
        f = P.functions.get(name)
        if f is None or not f.blocks:
            continue
        for h, body in f.loops().items():
            tests = []
            for b in body:
                t = f.bmap[b].term
                if t.op == "br" and "cond" in t.d and (t["t"] not in body or t["f"] not in body):
                    qc = _queue_test(f, t["cond"])
                    if qc is not None and qc.args:
                        tests.append(qc)
            for qc in tests:
                qk = capacity._ptr_key(f, qc.args[0])
                if qk is None:
                    continue
                n += 1
                bad = None
                for b in sorted(body):
                    for i in f.bmap[b].insts:
                        if i.op == "call" and i.callee in ("g_queue_push_tail", "g_queue_push_head", "g_queue_insert_sorted", "g_queue_push_nth") and i.args and capacity._ptr_key(f, i.args[0]) == qk:
                            bad = i
                if bad is not None:
                    chk.violation("C12-DRAIN", f.name, "requeue@%s" % (rules.field_path_of_ptr(P, f, f.insts[qc.args[0]["id"]]["ptr"]) if qc.args[0].get("k") == "inst" and f.insts[qc.args[0]["id"]].op == "load" else "queue"), bad.loc(),
                                  "the loop at line %d runs until the queue tested at line %d is empty, but line %d appends to that queue inside the loop: when the appended element is "
                                  "not consumed the loop never ends and the calling thread (with the locks it holds) is stuck" % (f.bmap[h].insts[0].line, qc.line, bad.line))
                else:
                    chk.ok("C12-DRAIN", 1, {"function": f.name, "loop_head": f.bmap[h].insts[0].loc(), "queue_test": qc.loc()})
    chk.floor("drain_loops", n, 2)


def rx_functions(w):
    P = w.P
    roots = [n for n, f, i in P.thread_roots()]
    rx = None
    for r in roots:
        reach = P.reachable_functions([r])
        if any(c.callee is None and len(c.args) == 1 for n in reach if n in P.functions for c in P.functions[n].calls()):
            rx = r
    if rx is None:
        raise AnalysisBroken("receiver thread root not found")
    return rx, {n for n in P.reachable_functions([rx]) if n in P.functions and P.functions[n].blocks and P.functions[n].relfile.startswith("src/")}


def run(chk, w):
    P = w.P
    # reads of the message in static helpers that only the dispatcher calls belong to the calling case: analyse them inlined
    from .. import inline
    disp0 = dispatch.find_dispatcher(P)[0]
    def _msg_helper(g):
        if not g.internal or g.relfile != disp0.relfile or g.name in P.addr_taken():
            return False
        cs = P.callers().get(g.name, [])
        return bool(cs) and all(cf.name == disp0.name for cf, ci in cs) and any((p.get("type") or "") == "i8*" for p in g.params)
    chk.extra["dispatcher_helpers_inlined"] = sorted(set(inline.inline_helpers(P, disp0.name, _msg_helper)))
    # the sender's buffers are checked by C01 (its normalisation of the sender unit is applied before the receiver's call tree is listed)
    from . import c01 as _c01
    try:
        _sr = _c01.send_roles(w)
        _send_bufs = set(_sr["staging"]) | set(_sr["batch"])
    except AnalysisBroken:
        _send_bufs = set()
    rx, rxf = rx_functions(w)
    D = dispatch.Dispatch(w)
    disp = D.fn
    chk.explanation = ("Memory-safety and liveness obligations on everything the receiver thread executes (%d functions): every variable subscript of a fixed table or "
                       "local array is proven in range by an interval analysis with guard facts (TAB, PKT); every field read of a received message at "
                       "data_index+k must be covered by a length guard (LEN; the code has none, so each case is a recorded finding) and the address scans must be "
                       "bounded (SCAN); results of lookups that may return NULL are only dereferenced behind a NULL test, except the listed configuration-derived "
                       "lookups (NUL); every dispatcher path returns with no lock held (LOCK); every loop of the receive path contains a read-callback call or a "
                       "bounded counter (PROG). Fuzzing-style exploration of streams is not attempted: these are the bounds every such stream would have to violate.") % len(rxf)
    chk.extra["receiver_root"] = rx
    chk.extra["receiver_functions"] = len(rxf)

    # ---- DELIM (shared with C02): a truncated packet cannot swallow the packet that follows
    from . import c02
    chk.rule("C12-DELIM", "every byte is compared with the packet delimiter before it can be stored as payload (a packet cut off after an escape byte does not swallow the next packet)")
    c02.delim_standalone(chk, w, "C12-DELIM")

    # ---- TAB / PKT
    E = intervals.Engine(w, set())
    chk.rule("C12-TAB", "every variable subscript of a fixed-size table or local array in the receiver's call tree is in range")
    send_bufs = _send_bufs
    n = 0
    for name in sorted(rxf):
        f = P.functions[name]
        acc = [(g, b) for g, b in intervals.array_accesses(P, f) if b[0] in ("global", "local") and b[1] not in send_bufs]
        if not acc:
            continue
        fa = E.analysis(f, E.param_intervals(f))
        for gep, base in acc:
            n += 1
            ok, detail = intervals.check_gep(fa, gep, base)
            if ok:
                chk.ok("C12-TAB", 1, {"access": gep.loc(), "array": base[1], "size": base[2]})
            else:
                chk.violation("C12-TAB", f.name, base[1], gep.loc(), "subscript of %s (%d bytes) is not bounded by a guard: %s" % (base[1], base[2], detail))
    chk.floor("table_subscripts", n, 15)

    # ---- PKTREAD: the splitter reads the packet only below the packet size it was given
    chk.rule("C12-PKTREAD", "every read of the assembled packet in the splitter is at an index below the packet size (loads and block copies)")
    D2, disp2, asm2, split, readers2 = c02.receiver_roles(w)
    fa = E.analysis(split)
    # pointer parameter = the packet, integer parameter = its size
    pk = [k for k, p in enumerate(split.params) if p["type"].endswith("*")]
    sz = [k for k, p in enumerate(split.params) if p["type"].startswith("i") and not p["type"].endswith("*")]
    if len(pk) != 1 or len(sz) != 1:
        chk.abstain("C12-PKTREAD", "splitter signature not (packet pointer, size)", split.name)
    else:
        pk, sz = pk[0], sz[0]
        size_cell = None
        for i in split.blocks[0].insts:
            if i.op == "store" and i["val"].get("k") == "arg" and i["val"]["i"] == sz:
                size_cell = i["ptr"]["id"]
        npk = 0

        def from_packet(o):
            return ("param", pk) in dispatch._deep_param(split, o)

        def bound_ok(off_lf, extra_lf, st):
            size = intervals.LF(0, {("cell", "a", size_cell): 1}) if size_cell in fa.cells else intervals.LF(0, {("arg", sz): 1})
            d = off_lf.add(extra_lf).add(size, -1)      # off + extra - size <= 0  required (extra = bytes read)
            return fa.iv_lf(d, st)[1] <= 0 and fa.iv_lf(off_lf, st)[0] >= 0

        for i in split.all_insts():
            if i.op == "load" and from_packet(i["ptr"]):
                g = split.resolve(rules.strip_casts(split, i["ptr"]))
                if g is None or g.op != "getelementptr":
                    continue
                npk += 1
                bad = None
                for st in fa.pre.get(i.id, []):
                    off = intervals.LF(g["off"])
                    for x in g["idx"]:
                        l = fa.lf(x["v"], st)
                        off = off.add(l.scale(x["scale"])) if l is not None else None
                        if off is None:
                            break
                    if off is None or not bound_ok(off, intervals.LF(i["size"]), st):
                        bad = off
                if bad is not None or not fa.pre.get(i.id):
                    chk.violation("C12-PKTREAD", split.name, "packet-load", i.loc(), "the packet is read at an index that is not shown to be below the packet size")
                else:
                    chk.ok("C12-PKTREAD", 1, {"load": i.loc()})
            elif i.op == "call" and i.callee and (i.callee.startswith("llvm.memcpy") or i.callee in ("memcpy",)) and from_packet(i.args[1]):
                npk += 1
                g = split.resolve(rules.strip_casts(split, i.args[1]))
                bad = False
                for st in fa.pre.get(i.id, []):
                    off = intervals.LF(0)
                    gg = g
                    while gg is not None and gg.op == "getelementptr":
                        off = off.add(intervals.LF(gg["off"]))
                        for x in gg["idx"]:
                            l = fa.lf(x["v"], st)
                            off = off.add(l.scale(x["scale"])) if l is not None else off.add(intervals.LF(0, {("expr", "?", "?", -intervals.INF, intervals.INF): 1}))
                        gg = split.resolve(rules.strip_casts(split, gg["base"]))
                    ln = fa.lf(i.args[2], st)
                    if ln is None or not bound_ok(off, ln, st):
                        bad = True
                if bad:
                    chk.violation("C12-PKTREAD", split.name, "packet-copy", i.loc(), "a block copy out of the packet is not limited to the packet size: a length byte that overstates what is left is read past the packet buffer")
                else:
                    chk.ok("C12-PKTREAD", 1, {"copy": i.loc()})
        chk.floor("packet_reads", npk, 2)

    # ---- LEN: field reads in the dispatcher
    chk.rule("C12-LEN", "every read message[data_index + k] in the dispatcher is covered by a guard relating k to the length byte")
    names = defaultdict(list)
    for k, v in w.macros.items():
        if k.startswith("MSG_") and 0 <= v <= 255:
            names[v].append(k)
    reads = {}   # inst id -> k
    for i in disp.all_insts():
        if i.op in ("load",):
            k = _msg_off(disp, i["ptr"], D)
            if k is not None:
                reads[i.id] = (k, i)
        elif i.op == "call" and i.callee and i.callee in P.functions:
            # &message[data_index + k] handed to a setter with a count: the callee reads at least one byte there
            for a in i.args:
                if a.get("k") == "inst":
                    a = rules.resolve_local(disp, rules.strip_casts(disp, a))      # `const uint8_t *const payload = &message[data_index + 2]; f(payload)`
                    ai = disp.resolve(rules.strip_casts(disp, a)) if a.get("k") == "inst" else None
                    if ai is not None and ai.op == "getelementptr":
                        k = _msg_off(disp, a, D)
                        if k is not None:
                            reads[i.id] = (k, i)
    chk.floor("message_field_reads", len(reads), 80)
    # group by switch case: the case blocks that dominate the read
    case_of = {}
    targets = defaultdict(list)
    for sw in D.switches:
        for cv, bb in sw["cases"]:
            targets[bb].append(cv & 0xff)
    # `if (type == MSG_X) { ... }` outside the switch selects a type just like a case label
    for b_ in disp.blocks:
        t_ = b_.term
        if t_.op == "br" and "cond" in t_.d and t_["t"] != t_.get("f"):
            c_ = disp.resolve(t_["cond"])
            if c_ is not None and c_.op == "icmp" and c_["pred"] in ("eq", "ne"):
                cv_ = rules.const_of(disp, c_["b"])
                src_ = rules.load_source(disp, c_["a"])
                if cv_ is not None and src_ and src_[0] == "alloca" and disp.param_index_of_alloca(disp.insts[src_[1]]) == D.tparam:
                    succ_ = t_["t"] if c_["pred"] == "eq" else t_["f"]
                    if set(disp.bmap[succ_].pred) == {b_.id}:
                        targets[succ_].append(cv_ & 0xff)
    for rid, (k, inst) in reads.items():
        best = None
        for bb, cvs in targets.items():
            if bb == inst.bb.id or bb in disp.dom().get(inst.bb.id, ()):
                best = (bb, cvs)
        case_of[rid] = best
    per_case = defaultdict(list)
    for rid, (k, inst) in reads.items():
        c = case_of[rid]
        # several macro names share one value (category bases such as MSG_UBM == MSG_BM_OCC): use the most specific (longest) name
        # case labels that share one body (fall-through / a common helper) are reported per label, so a finding keeps its identity when
        # two case bodies are merged
        for label in (sorted(max(names.get(cv, ["0x%02x" % cv]), key=len) for cv in c[1]) if c else ["common"]):
            per_case[label].append((k, inst))
    for label, lst in sorted(per_case.items()):
        kmax, inst = max(lst, key=lambda x: (x[0] if isinstance(x[0], int) else 99))
        # is there a guard on the length byte (load message[0]) dominating the deepest read?
        guarded = False
        for (gd, truth) in rules.branch_conditions(disp, inst):
            cnd = disp.resolve(gd["cond"])
            if cnd is not None and cnd.op == "icmp":
                for side in (cnd["a"], cnd["b"]):
                    key = rules.expr_key(disp, side, copyprop=True)
                    if rules.key_mentions(key, lambda kk: kk[0] == "load" and isinstance(kk[1], tuple) and kk[1][0] == "gep" and kk[1][2] == 0 and not kk[1][3]):
                        guarded = True
        if guarded:
            chk.ok("C12-LEN", 1, {"case": label, "deepest_offset": kmax})
        else:
            chk.violation("C12-LEN", disp.name, "%s:data+%s" % (label, kmax), inst.loc(),
                          "case %s reads message[data_index + %s] without checking the length byte: a CRC-valid message shorter than its type requires is read past its heap buffer" % (label, kmax),
                          reads=len(lst))

    # ---- SCAN: address-stack scans that look for the 0 terminator must be bounded by the length byte
    chk.rule("C12-SCAN", "loops that scan a message for the address terminator are bounded by the message length")
    nscan = 0
    for name in sorted(rxf):
        f = P.functions[name]
        for h, body in f.loops().items():
            # loop exit depends on a byte loaded through a pointer parameter compared with 0
            exits = []
            for b in body:
                t = f.bmap[b].term
                if t.op == "br" and "cond" in t.d and (t["t"] not in body or t["f"] not in body):
                    exits.append(t)
            if not exits:
                continue
            term_tests = []
            bounded = False
            for t in exits:
                cnd = f.resolve(t["cond"])
                if cnd is None or cnd.op != "icmp":
                    continue
                ld = f.resolve(rules.strip_casts(f, cnd["a"]))
                if ld is not None and ld.op == "load" and cnd["pred"] in ("eq", "ne") and rules.const_of(f, cnd["b"]) == 0:
                    tags = dispatch._deep_param(f, ld["ptr"])
                    g = f.resolve(ld["ptr"])
                    if tags and g is not None and g.op == "getelementptr" and g["idx"]:
                        term_tests.append(t)
                    elif tags and g is not None and g.op == "load" and g["ptr"].get("k") == "inst" and f.insts[g["ptr"]["id"]].op == "alloca" and \
                            f.param_index_of_alloca(f.insts[g["ptr"]["id"]]) is None:
                        # `while (*p != 0) p++`: the scan position is a running pointer stepped inside the loop
                        pid = g["ptr"]["id"]
                        for s_ in f.all_insts():
                            if s_.op == "store" and s_.bb.id in body and s_["ptr"].get("k") == "inst" and s_["ptr"]["id"] == pid:
                                v_ = f.resolve(rules.strip_casts(f, s_["val"]))
                                b_ = f.resolve(rules.strip_casts(f, v_["base"])) if v_ is not None and v_.op == "getelementptr" else None
                                if b_ is not None and b_.op == "load" and b_["ptr"].get("k") == "inst" and b_["ptr"]["id"] == pid:
                                    term_tests.append(t)
                                    break
                elif cnd["pred"] in ("slt", "sle", "ult", "ule", "sgt", "sge", "ugt", "uge"):
                    bounded = True
            if term_tests:
                nscan += 1
                if bounded or len(exits) > len(term_tests):
                    chk.ok("C12-SCAN", 1, {"function": name, "loop_at": term_tests[0].loc(), "bounded": True})
                else:
                    # a scan inside a static helper is reported under the externally visible function(s) that use it, so the finding
                    # keeps its identity when the duplicated scan is moved into (or out of) a shared helper
                    owners = [name]
                    if P.functions[name].internal:
                        owners = []
                        work, seen_o = [name], {name}
                        while work:
                            n_ = work.pop()
                            for cf_, ci_ in P.callers().get(n_, []):
                                if cf_.name in seen_o:
                                    continue
                                seen_o.add(cf_.name)
                                if cf_.internal:
                                    work.append(cf_.name)
                                else:
                                    owners.append(cf_.name)
                        owners = sorted(owners) or [name]
                    for own in owners:
                        chk.violation("C12-SCAN", own, "unbounded-terminator-scan", term_tests[0].loc(),
                                      "%s scans the message for a 0 byte with no bound%s: an address stack without terminator is read past the heap buffer" % (own, "" if own == name else " (in its helper %s)" % name))
    chk.floor("terminator_scans", nscan, 3)

    # ---- NUL
    chk.rule("C12-NUL", "a lookup result that may be NULL is dereferenced only behind a NULL test (configuration-derived lookups listed in the construction table)")
    lookups = set()
    for f in P.repo_functions():
        if f.ret.endswith("*"):
            for r in f.all_insts():
                if r.op == "ret" and "val" in r.d and any(t[0] == "null" for t in flow.origins(f, r["val"])):
                    lookups.add(f.name)
    chk.floor("lookup_functions", len(lookups), 25)
    nd = 0
    used_rows = set()
    for g in P.repo_functions():
        for c in g.calls():
            if c.callee not in lookups:
                continue
            slots = [s["ptr"]["id"] for s in g.all_insts() if s.op == "store" and s["val"].get("k") == "inst" and s["val"]["id"] == c.id and s["ptr"].get("k") == "inst"]
            for slot in slots:
                first_bad = None
                for i in g.all_insts():
                    if i.op in ("load", "store"):
                        p = i["ptr"]
                    elif i.op == "getelementptr":
                        p = i["base"]
                    else:
                        continue
                    pi = g.resolve(rules.strip_casts(g, p))
                    if not (pi is not None and pi.op == "load" and pi["ptr"].get("k") == "inst" and pi["ptr"]["id"] == slot):
                        continue
                    if i.op in ("load", "store") and g.resolve(p) is pi and False:
                        continue
                    nd += 1
                    ok = False
                    for (gd, truth) in rules.branch_conditions(g, i):
                        cnd = g.resolve(gd["cond"])
                        if cnd is not None and cnd.op == "icmp" and cnd["b"].get("k") == "null" and ((cnd["pred"] == "ne") == truth):
                            src = rules.load_source(g, cnd["a"])
                            ci = g.resolve(rules.strip_casts(g, cnd["a"]))
                            if (src and src[0] == "alloca" and src[1] == slot) or (ci is not None and ci.id == c.id):
                                ok = True
                    if not ok:
                        # the NULL test may be recorded in a status variable before the pointer is used: decide on the paths
                        def est(br, succ, facts, g=g, slot=slot, c=c):
                            if br.op != "br" or "cond" not in br.d or br["t"] == br.get("f"):
                                return False
                            cnd_ = g.resolve(br["cond"])
                            if cnd_ is not None and cnd_.op == "icmp" and cnd_["b"].get("k") == "null" and cnd_["pred"] in ("eq", "ne"):
                                src_ = rules.load_source(g, cnd_["a"])
                                if src_ and src_[0] == "alloca" and src_[1] == slot:
                                    return (succ == br["t"]) == (cnd_["pred"] == "ne")
                            return False
                        ok = pathwalk.guard_on_all_paths(g, i, est) is True
                    if ok:
                        chk.ok("C12-NUL", 1)
                    elif first_bad is None:
                        first_bad = i
                if first_bad is not None:
                    row = (g.name, c.callee)
                    if row in CONSTRUCTION:
                        used_rows.add(row)
                        chk.note("C12-NUL", "construction table: %s -> %s: %s" % (g.name, c.callee, CONSTRUCTION[row]), first_bad.loc())
                        chk.ok("C12-NUL", 1, {"construction_table": "%s -> %s" % row})
                    else:
                        chk.violation("C12-NUL", g.name, c.callee, first_bad.loc(), "the result of %s may be NULL and is dereferenced at line %d without a NULL test" % (c.callee, first_bad.line))
    chk.floor("lookup_dereferences", nd, 300)
    for row in CONSTRUCTION:
        if row not in used_rows:
            pass

    # ---- LOCK: the dispatcher and every function it calls return with the lockset they were entered with (receiver cannot get stuck on its own lock)
    chk.rule("C12-LOCK", "every context reachable from the receiver thread returns with its entry lockset")
    Eng = w.lock_engine()
    nl = 0
    roots = Eng.ctx_roots()
    for k, c in Eng.ctxs.items():
        if any(l.startswith("THREAD:" + rx) for l in roots.get(k, ())):
            nl += 1
            bad = [ex for ex in c.exits if ex != c.entry]
            if bad and not any(kk >= 2 for (_l, _m, kk) in c.entry):
                # report at the deepest unbalanced context only
                deeper = any(any(e2 != Eng.ctxs[ck].entry for e2 in Eng.ctxs[ck].exits) for (_i, ck, _ls) in c.calls)
                if not deeper:
                    chk.violation("C12-LOCK", c.fn.name, "lock-leak", "%s:%d" % (c.fn.relfile, c.fn.line),
                                  "a receiver-thread path through %s returns with lockset %s (entered with %s): the next message needing that lock blocks the receiver forever" % (
                                      c.fn.name, locks.ls_str(bad[0]), locks.ls_str(c.entry)), chain=Eng.chain(c))
                    continue
            chk.ok("C12-LOCK", 1)
    chk.floor("receiver_contexts", nl, 100)
    for v in Eng.violations:
        if v["rule"] in ("SELF", "UNLOCK") and any("bidib_auto_receive" in x for x in v["chain"][:1]):
            chk.violation("C12-LOCK", v["function"], v["rule"].lower(), "%s:%d" % (v["file"], v["line"]), v["msg"], chain=v["chain"])

    # ---- CAP: buffers written with an extent taken from the length byte
    cap_rule(chk, P, rxf, "C12-CAP", 1)

    # ---- ALLOC: the heap copy of a message has the size its own length byte announces
    chk.rule("C12-ALLOC", "the splitter allocates every message with (length byte + 1) bytes: everything downstream reads up to message[message[0]], so a block cut to the bytes left in the "
                          "packet is over-read")
    from .. import capacity as _cap
    from . import c02 as _c02b
    _D2, _disp2, _asm2, _split2, _rd2 = _c02b.receiver_roles(w)
    nal = 0
    for mc in _split2.calls("malloc"):
        nal += 1
        sz = _cap.sym(_split2, mc.args[0])
        ok = sz is not None and sz[0] == 1 and len(sz[1]) == 1 and list(sz[1].values()) == [1] and list(sz[1])[0][0] == "ld"
        if not ok and sz is None:
            # the length byte read through a variable index (buffer[i]): accept `load + 1` whatever the index expression
            v = _split2.resolve(rules.strip_casts(_split2, rules.resolve_local(_split2, mc.args[0]))) if mc.args[0].get("k") == "inst" else None
            for _ in range(4):
                if v is not None and v.op == "mul" and rules.const_of(_split2, v["b"]) == 1:
                    v = _split2.resolve(rules.strip_casts(_split2, v["a"]))
                elif v is not None and v.op == "mul" and rules.const_of(_split2, v["a"]) == 1:
                    v = _split2.resolve(rules.strip_casts(_split2, v["b"]))
                else:
                    break
            if v is not None and v.op == "add" and rules.const_of(_split2, v["b"]) == 1:
                a0 = _split2.resolve(rules.strip_casts(_split2, v["a"]))
                ok = a0 is not None and a0.op == "load" and a0.get("ty") == "i8"
        if ok:
            chk.ok("C12-ALLOC", 1, {"allocation": mc.loc(), "size": "length byte + 1"})
        else:
            chk.violation("C12-ALLOC", _split2.name, "message-size", mc.loc(), "the message buffer is not allocated with (length byte + 1) bytes: a CRC-valid packet whose last length byte overstates what is "
                          "left yields a block shorter than message[0] + 1, which the log helper and the dispatcher then read past")
    chk.floor("split_message_allocations", nal, 1)

    # ---- DRAIN: loops that run until a queue is empty
    drain_rule(chk, P, rxf)

    # ---- PROG: loops on the receive path
    chk.rule("C12-PROG", "every loop of the packet assembly/receive functions contains a read-callback call, or is a counted loop")
    D2, disp2, asm, split, readers = c02.receiver_roles(w)
    rd_fns = {f.name for f, i in readers}
    npr = 0
    for name in sorted(rd_fns | {split.name, rx}):
        f = P.functions[name]
        for h, body in f.loops().items():
            npr += 1
            has_read = any(i.op == "call" and (i.callee is None or i.callee in rd_fns) for b in body for i in f.bmap[b].insts)
            counted = False
            for b in body:
                t = f.bmap[b].term
                if t.op == "br" and "cond" in t.d and (t["t"] not in body or t["f"] not in body):
                    cnd = f.resolve(t["cond"])
                    if cnd is not None and cnd.op == "icmp" and cnd["pred"] in ("slt", "sle", "ult", "ule"):
                        counted = True
                    if cnd is not None and cnd.op == "phi":
                        counted = True
            if has_read or counted:
                chk.ok("C12-PROG", 1, {"function": name, "loop_head": f.bmap[h].insts[0].loc(), "kind": "reads" if has_read else "counted"})
            else:
                chk.violation("C12-PROG", name, "loop@%d" % f.bmap[h].insts[0].line, f.bmap[h].insts[0].loc(), "a receive-path loop neither reads a byte nor counts: it can spin forever")
    chk.floor("receive_loops", npr, 6)


def _msg_off(disp, ptr, D):
    """pointer operand is &message[data_index + k] or &message[const]: return k ('c<k>' for constant index), else None"""
    o = rules.strip_casts(disp, ptr)
    i = disp.resolve(o)
    if i is None or i.op != "getelementptr":
        return None
    if ("param", D.mparam) not in dispatch._deep_param(disp, {"k": "inst", "id": i.id}):
        return None
    if not i["idx"]:
        return None
    iv = disp.resolve(rules.strip_casts(disp, i["idx"][0]["v"]))
    if iv is None:
        return None
    if iv.op == "load":
        a = disp.resolve(iv["ptr"])
        if a is not None and a.op == "alloca" and _is_data_index_cell(disp, a, D):
            return 0
        return None
    if iv.op == "add":
        c = rules.const_of(disp, iv["b"])
        a0 = disp.resolve(rules.strip_casts(disp, iv["a"]))
        if c is not None and a0 is not None and a0.op == "load":
            a = disp.resolve(a0["ptr"])
            if a is not None and a.op == "alloca" and _is_data_index_cell(disp, a, D):
                return c
    return None


def _is_data_index_cell(disp, a, D, depth=0):
    """the local holds the position of the first data byte: it is assigned the result of a call that receives the message (or a copy of such a local).
    `message[message[0]]` - an index loaded from the message itself - is the last byte of the message and always inside it."""
    sts = [s for s in disp.all_insts() if s.op == "store" and s["ptr"].get("k") == "inst" and s["ptr"]["id"] == a.id]
    if not sts:
        return False
    for s in sts:
        v = disp.resolve(rules.strip_casts(disp, s["val"])) if s["val"].get("k") == "inst" else None
        if v is None:
            return False
        if v.op == "call" and any(x.get("k") in ("inst", "arg") and ("param", D.mparam) in dispatch._deep_param(disp, x) for x in v.args):
            continue
        if v.op == "load" and depth < 3:
            a2 = disp.resolve(v["ptr"])
            if a2 is not None and a2.op == "alloca" and _is_data_index_cell(disp, a2, D, depth + 1):
                continue
        if v.op in ("add", "sub") and depth < 3:
            a0 = disp.resolve(rules.strip_casts(disp, v["a"]))
            if a0 is not None and a0.op == "load":
                a2 = disp.resolve(a0["ptr"])
                if a2 is not None and a2.op == "alloca" and _is_data_index_cell(disp, a2, D, depth + 1):
                    continue
        return False
    return True
