"""Path-sensitive nullness of the pointer fields of local records (the parsers' "build a record field by field" idiom).

Rides on pathwalk.Walker: integer/bool/enum locals are constant-propagated (so the product state of a parser's state machine is
explored exactly), and in addition every pointer-typed slot of a local struct / pointer local is tracked as NULL / NONNULL / unknown.
A dereference (load, store, member address + access, or a string function argument) of a slot that is NULL on that abstract path is reported
with the path's decisions.
"""
from . import pathwalk, rules

NONNULL_CALLS = {"g_string_new", "g_array_new", "g_array_sized_new", "malloc", "calloc", "strdup", "strndup", "g_queue_new", "g_string_sized_new",
                 "g_hash_table_new", "g_strdup", "fopen_nonnull"}
DEREF_ARGS = {"strcmp": (0, 1), "strlen": (0,), "strncmp": (0, 1), "strcpy": (0, 1), "strtol": (0,), "atoi": (0,)}


FREE_CALLS = {"free": (0,), "g_string_free": (0,), "g_array_free": (0,), "g_queue_free": (0,)}


class NullWalk:
    _memo = {}

    def __init__(self, P, fn, max_states=400000, init=None, context=None, depth=0):
        self.P = P
        self.fn = fn
        self.init = dict(init or {})       # slot -> state at entry (by-value parameters analysed in the caller's abstract record)
        self.context = context
        self.depth = depth
        self.findings = []      # (inst, slot description, path decisions)
        self.max_states = max_states
        self.truncated = False
        # pointer slots: (alloca id, byte offset) for struct locals, (alloca id, 0) for pointer locals
        self.slots = {}
        for a in fn.allocas().values():
            if "size" not in a.d:
                continue
            if a["aty"].endswith("*"):
                self.slots[(a.id, 0)] = a.get("var") or ("%%%d" % a.id)
            elif a["aty"].startswith("%struct"):
                from .results import leaves_of
                for (off, sz, path, isp, dt) in leaves_of(P, a.get("ditype", -1)):
                    if isp:
                        self.slots[(a.id, off)] = "%s.%s" % (a.get("var") or ("%%%d" % a.id), path)
        for k, p in enumerate(fn.params):
            if "byval" in p and "ditype" in p:
                from .results import leaves_of
                for (off, sz, path, isp, dt) in leaves_of(P, p["ditype"]):
                    if isp:
                        self.slots[(("arg", k), off)] = "%s.%s" % (p.get("name") or ("arg%d" % k), path)
        # records reached through a pointer parameter, analysed in the caller's abstract record: (("argp", k), offset)
        for key_ in self.init:
            if isinstance(key_[0], tuple) and key_[0][0] == "argp" and key_ not in self.slots:
                k_ = key_[0][1]
                nm = (fn.params[k_].get("name") if k_ < len(fn.params) else None) or ("arg%d" % k_)
                self.slots[key_] = "%s->+%d" % (nm, key_[1])
        self._seen_find = set()
        self.unguarded_fields = unguarded_consumer_fields(P)

    def slot_of_ptr(self, o):
        """pointer operand -> slot key if it is the address of a tracked slot"""
        fn = self.fn
        off = 0
        for _ in range(8):
            o = rules.strip_casts(fn, o)
            if o.get("k") == "arg":
                k = (("arg", o["i"]), off)
                return k if k in self.slots else None
            i = fn.resolve(o)
            if i is None:
                return None
            if i.op == "alloca":
                k = (i.id, off)
                return k if k in self.slots else None
            if i.op == "getelementptr":
                if i["idx"]:
                    return None
                off += i["off"]
                o = i["base"]
                continue
            if i.op == "load" and i["ptr"].get("k") == "inst":
                a = fn.insts[i["ptr"]["id"]]
                if a.op == "alloca":
                    pk = fn.param_index_of_alloca(a)
                    if pk is not None:
                        k = (("argp", pk), off)
                        return k if k in self.slots else None
            return None
        return None

    def value_state(self, o, nul):
        """'N' null, 'P' non-null, None unknown for a pointer-valued operand"""
        fn = self.fn
        o = rules.strip_casts(fn, o)
        if o.get("k") == "null":
            return "N"
        if o.get("k") in ("global", "func"):
            return "P"
        i = fn.resolve(o)
        if i is None:
            return None
        if i.op == "call":
            return "P" if i.callee in NONNULL_CALLS else None
        if i.op == "load":
            s = self.slot_of_ptr(i["ptr"])
            if s is not None:
                return nul.get(s)
            return None
        if i.op == "getelementptr":
            # address of a member of X is non-null iff X is (and null deref happens at the access)
            return self.value_state(i["base"], nul)
        if i.op == "alloca":
            return "P"
        return None

    def run(self):
        fn = self.fn
        P = self.P
        me = self

        def on_inst(inst, u, facts):
            nul = dict(u)
            changed = False
            op = inst.op
            if op == "store":
                s = me.slot_of_ptr(inst["ptr"])
                if s is not None:
                    v = me.value_state(inst["val"], nul)
                    if nul.get(s) != v:
                        if v is None:
                            nul.pop(s, None)
                        else:
                            nul[s] = v
                        changed = True
                else:
                    me._check_deref(inst, inst["ptr"], nul, facts)
            elif op == "load":
                if me.slot_of_ptr(inst["ptr"]) is None:
                    me._check_deref(inst, inst["ptr"], nul, facts)
            elif op == "call":
                c = inst.callee or ""
                if c.startswith("llvm.memcpy") or c.startswith("llvm.memset"):
                    # initialiser copy / zeroing of a whole local record
                    base = me._alloca_of(inst.args[0])
                    ln = rules.const_of(fn, inst.args[2])
                    if base is not None and ln is not None:
                        src = rules.strip_casts(fn, inst.args[1])
                        allnull = c.startswith("llvm.memset") and rules.const_of(fn, inst.args[1]) == 0
                        if src.get("k") == "global":
                            g = P.globals.get(src["name"], {})
                            allnull = g.get("const") and not _has_pointer(g.get("init"))
                        for s in list(me.slots):
                            if s[0] == base[0] and base[1] <= s[1] < base[1] + ln:
                                if allnull:
                                    if nul.get(s) != "N":
                                        nul[s] = "N"
                                        changed = True
                                elif s in nul:
                                    # copy from another local record: copy slot states when the source is a tracked local
                                    nul.pop(s)
                                    changed = True
                        sb = me._alloca_of(inst.args[1])
                        if sb is not None and not allnull:
                            for s in list(me.slots):
                                if s[0] == base[0] and base[1] <= s[1] < base[1] + ln:
                                    src_slot = (sb[0], sb[1] + (s[1] - base[1]))
                                    if src_slot in nul:
                                        nul[s] = nul[src_slot]
                                        changed = True
                elif c in DEREF_ARGS:
                    for k in DEREF_ARGS[c]:
                        if k < len(inst.args):
                            me._check_value(inst, inst.args[k], nul, facts, "argument %d of %s" % (k, c))
                    # out-parameters (strtol's end pointer): a local whose address is passed becomes unknown
                    for k, a in enumerate(inst.args):
                        ai = fn.resolve(rules.strip_casts(fn, a)) if a.get("k") == "inst" else None
                        if ai is not None and ai.op in ("alloca", "getelementptr", "bitcast"):
                            b = me._alloca_of(a)
                            if b is not None:
                                for sl in list(nul):
                                    if sl[0] == b[0]:
                                        nul.pop(sl)
                                        changed = True
                elif c == "g_array_append_vals" and len(inst.args) >= 2 and me.unguarded_fields:
                    # a record handed to a list: pointer members that some consumer of such records (free / lookup routine) dereferences
                    # without a NULL test must not be NULL or uninitialised here
                    base = me._alloca_of(inst.args[1])
                    if base is not None:
                        a_ = fn.insts.get(base[0]) if not isinstance(base[0], tuple) else None
                        tname = P.di_name(a_.get("ditype", -1)).replace("const ", "") if a_ is not None else None
                        for sl in list(me.slots):
                            if sl[0] == base[0] and nul.get(sl) in ("N", "U"):
                                fld = me.slots[sl].split(".", 1)[1] if "." in me.slots[sl] else None
                                if fld and tname and ("%s.%s" % (tname, fld)) in me.unguarded_fields:
                                    me._report(inst, sl, facts, "the record is appended to a list (its consumer %s dereferences the member without a NULL test) with the %s member" % (
                                        me.unguarded_fields["%s.%s" % (tname, fld)], "NULL" if nul.get(sl) == "N" else "uninitialised"))
                elif c in FREE_CALLS:
                    for k in FREE_CALLS[c]:
                        if k < len(inst.args):
                            v = fn.resolve(rules.strip_casts(fn, inst.args[k]))
                            if v is not None and v.op == "load":
                                sl = me.slot_of_ptr(v["ptr"])
                                if sl is not None and nul.get(sl) == "U":
                                    me._report(inst, sl, facts, "%s of the uninitialised pointer" % c)
                elif c in P.functions and P.functions[c].blocks and inst.get("byval") and me.depth < 2:
                    # by-value record handed to a repo function: analyse the callee in this abstract record
                    cf = P.functions[c]
                    init = {}
                    for k in inst["byval"]:
                        tb = me._alloca_of(inst.args[k])
                        if tb is None:
                            continue
                        src = tb
                        for mc in fn.calls():
                            if mc.callee and mc.callee.startswith("llvm.memcpy") and me._alloca_of(mc.args[0]) == (tb[0], 0) and fn.dominates(mc, inst):
                                sb = me._alloca_of(mc.args[1])
                                if sb is not None:
                                    src = sb
                        for sl, stv in nul.items():
                            if not isinstance(sl[0], tuple) and sl[0] == src[0]:
                                init[(("arg", k), sl[1] - src[1])] = stv
                    key = (c, tuple(sorted(init.items(), key=str)))
                    sub = NullWalk._memo.get(key)
                    if sub is None:
                        nw = NullWalk(P, cf, init=init, context="%s at %s" % (fn.name, inst.loc()), depth=me.depth + 1)
                        nw.run()
                        sub = nw.findings
                        NullWalk._memo[key] = sub
                    for (i2, slot2, dec2, what2) in sub:
                        k2 = (inst.id, i2.id, slot2)
                        if k2 not in me._seen_find:
                            me._seen_find.add(k2)
                            me.findings.append((i2, slot2, dict(dec2, called_from="%s:%d" % (fn.name, inst.line)), what2 + " (record passed by value from %s line %d)" % (fn.name, inst.line)))
                else:
                    # the address of a local record handed to a repo function (`equal(&new, &old)`): the callee is analysed in this abstract record,
                    # what it dereferences through the pointer while the member is NULL / uninitialised is reported here
                    if c in P.functions and P.functions[c].blocks and me.depth < 2:
                        cf = P.functions[c]
                        init = {}
                        for k, a in enumerate(inst.args):
                            if a.get("k") != "inst" or k in set(inst.get("byval", [])):
                                continue
                            ai = fn.resolve(rules.strip_casts(fn, a))
                            if ai is None or ai.op not in ("alloca", "getelementptr", "bitcast"):
                                continue
                            tb = me._alloca_of(a)
                            if tb is None or isinstance(tb[0], tuple):
                                continue
                            for sl, stv in nul.items():
                                if not isinstance(sl[0], tuple) and sl[0] == tb[0] and stv in ("N", "U"):
                                    init[(("argp", k), sl[1] - tb[1])] = stv
                        if init:
                            key = (c, tuple(sorted(init.items(), key=str)))
                            sub = NullWalk._memo.get(key)
                            if sub is None:
                                nw = NullWalk(P, cf, init=init, context="%s at %s" % (fn.name, inst.loc()), depth=me.depth + 1)
                                nw.run()
                                sub = nw.findings
                                NullWalk._memo[key] = sub
                            for (i2, slot2, dec2, what2) in sub:
                                k2 = (inst.id, i2.id, slot2)
                                if k2 not in me._seen_find:
                                    me._seen_find.add(k2)
                                    me.findings.append((i2, slot2, dict(dec2, called_from="%s:%d" % (fn.name, inst.line)), what2 + " (record passed by address from %s line %d)" % (fn.name, inst.line)))
                    # a slot whose address is handed to a callee (out parameter) becomes unknown; by-value copies do not change it
                    byval = set(inst.get("byval", []))
                    for k, a in enumerate(inst.args):
                        if k in byval or a.get("k") != "inst":
                            continue
                        b = me._alloca_of(a)
                        if b is not None:
                            for s in list(nul):
                                if s[0] == b[0]:
                                    ai = fn.resolve(rules.strip_casts(fn, a))
                                    # only when the address itself (not a loaded value) is passed
                                    if ai is not None and ai.op in ("alloca", "getelementptr", "bitcast"):
                                        nul.pop(s)
                                        changed = True
            if changed:
                return [tuple(sorted(nul.items(), key=str))]
            return None

        def on_edge(br, succ, u, facts):
            # refine on  slot == NULL / slot != NULL  tests
            if "cond" not in br.d:
                return u
            cnd = fn.resolve(br["cond"])
            if cnd is not None and cnd.op == "icmp" and cnd["pred"] in ("eq", "ne") and cnd["b"].get("k") == "null":
                ld = fn.resolve(rules.strip_casts(fn, cnd["a"]))
                if ld is not None and ld.op == "load":
                    s = me.slot_of_ptr(ld["ptr"])
                    if s is not None:
                        is_null_edge = (succ == br["t"]) == (cnd["pred"] == "eq")
                        nul = dict(u)
                        cur = nul.get(s)
                        if cur == "N" and not is_null_edge:
                            return None
                        if cur == "P" and is_null_edge:
                            return None
                        if cur == "U":
                            me._report(br, s, facts, "branch on the uninitialised value")
                        nul[s] = "N" if is_null_edge else "P"
                        return tuple(sorted(nul.items(), key=str))
            return u

        # control cells only: flags and enum-typed state variables (loop counters would unroll the loops)
        cells = {}
        for cid, a in pathwalk.tracked_cells(fn).items():
            t = P.di_strip(a.get("ditype", -1))
            if t and ((t.get("kind") == "base" and t.get("name") == "_Bool") or t.get("kind") == "enum"):
                cells[cid] = a
        wk = pathwalk.Walker(fn, cells=cells, max_states=self.max_states)
        self.wk = wk
        init = {}
        for sl in self.slots:
            if isinstance(sl[0], tuple):
                if sl in self.init:
                    init[sl] = self.init[sl]
            else:
                a = fn.insts.get(sl[0])
                # a local that is a spilled parameter starts unknown, every other local starts uninitialised
                if a is not None and fn.param_index_of_alloca(a) is None and not a.get("param"):
                    init[sl] = "U"
        wk.walk(tuple(sorted(init.items(), key=str)), on_inst, None, on_edge=on_edge)
        self.truncated = wk.truncated
        return self.findings

    def _alloca_of(self, o):
        fn = self.fn
        off = 0
        for _ in range(8):
            o = rules.strip_casts(fn, o)
            i = fn.resolve(o)
            if i is None:
                return None
            if i.op == "alloca":
                return (i.id, off)
            if i.op == "getelementptr":
                if i["idx"]:
                    return (self._alloca_of(i["base"]) or (None,))[0] and (self._alloca_of(i["base"])[0], 0)
                off += i["off"]
                o = i["base"]
                continue
            return None
        return None

    def _check_deref(self, inst, ptr, nul, facts):
        """inst accesses memory through ptr: find the slot the pointer value came from"""
        fn = self.fn
        o = ptr
        for _ in range(8):
            o = rules.strip_casts(fn, o)
            i = fn.resolve(o)
            if i is None:
                return
            if i.op == "getelementptr":
                o = i["base"]
                continue
            if i.op == "load":
                s = self.slot_of_ptr(i["ptr"])
                if s is not None and nul.get(s) in ("N", "U"):
                    self._report(inst, s, facts, "dereference" if nul.get(s) == "N" else "dereference of the uninitialised pointer")
                return
            return

    def _check_value(self, inst, o, nul, facts, what):
        fn = self.fn
        v = rules.strip_casts(fn, o)
        i = fn.resolve(v)
        # the value itself is a slot's content
        if i is not None and i.op == "load":
            s = self.slot_of_ptr(i["ptr"])
            if s is not None and nul.get(s) in ("N", "U"):
                self._report(inst, s, facts, what if nul.get(s) == "N" else what + " (uninitialised)")
                return
            # or a member read through a NULL slot (x->str with x NULL) - reported at the load itself

    def _report(self, inst, slot, facts, what="dereference"):
        key = (inst.id, slot)
        if key in self._seen_find:
            return
        self._seen_find.add(key)
        fn = self.fn
        dec = {}
        for cid, v in sorted(facts.items()):
            a = fn.insts.get(cid)
            if a is not None and a.get("var"):
                dec[a["var"]] = self._enum_name(a, v)
        self.findings.append((inst, self.slots[slot], dec, what))

    def _enum_name(self, alloca, v):
        t = self.P.di_strip(alloca.get("ditype", -1))
        if t and t.get("kind") == "enum":
            for n, val in t.get("enumerators", []):
                if val == v:
                    return n
        return v


def _has_pointer(init):
    if isinstance(init, dict):
        return "g" in init
    if isinstance(init, list):
        return any(_has_pointer(x) for x in init)
    return False


_UCF = {}


def unguarded_consumer_fields(P):
    """'Struct.member' -> consumer function, for pointer members of configuration / state records that some routine outside the parsers reads from a
    record and then dereferences (member->x, or hands to a function that dereferences it) with no NULL test of that member on the way.
    A record whose such member is NULL must therefore never reach a list."""
    key = id(P)
    if key in _UCF:
        return _UCF[key]
    out = {}
    # after a rejected configuration only the stop / free path runs over the records: its routines are the consumers that matter
    stop_reach = set(P.reachable_functions(["bidib_stop"])) if "bidib_stop" in P.functions else set()
    for f in P.repo_functions():
        # ... and of those, the free routines are the ones that see half-built records (lookups only ever see registered, complete entities)
        if not f.blocks or not f.relfile.startswith("src/state/") or f.name not in stop_reach or "free" not in f.relfile:
            continue
        for i in f.all_insts():
            if i.op != "load" or i["ptr"].get("k") != "inst" or not str(i.get("ty", "")).endswith("*"):
                continue
            fp = rules.field_path_of_ptr(P, f, i["ptr"])
            if not fp or fp.startswith("_G") or not fp.startswith("t_bidib"):
                continue
            # is the loaded pointer dereferenced?
            deref = None
            for u in f.all_insts():
                if u.op in ("getelementptr",) and u["base"].get("k") == "inst" and u["base"]["id"] == i.id:
                    deref = u
                    break
                if u.op == "load" and u["ptr"].get("k") == "inst" and u["ptr"]["id"] == i.id:
                    deref = u
                    break
            if deref is None:
                continue
            guarded = False
            for (gd, truth) in list(rules.conditions_at(f, deref)) + rules.control_conditions(f, deref):
                c = f.resolve(gd["cond"])
                if c is not None and c.op == "icmp" and c["b"].get("k") == "null":
                    l = f.resolve(rules.strip_casts(f, c["a"]))
                    if l is not None and l.op == "load" and rules.field_path_of_ptr(P, f, l["ptr"]) == fp:
                        guarded = True
            if not guarded and fp not in out:
                out[fp] = f.name
    _UCF[key] = out
    return out
