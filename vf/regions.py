"""E4: pointer provenance -> shared region, and the list of accesses (load/store/memcpy/extern call) per region.

A pointer value is rooted in global G when it is G's address (+offset) or was loaded, transitively through
locals (field-sensitive), struct fields, container accessors, parameters and return values, from memory rooted in G.
Provenance is evaluated per lock-engine context: a parameter takes the roots of the argument at the call sites
that produced *this* context, a call result takes the roots returned by the callee context actually entered.

Roots: ('in', G, off)   points into the global object itself at byte offset off (off may be None)
       ('heap', G, off) points into a heap object owned by (reachable from) G's field at off
       ('local', fn, alloca id, off)   address of a local
       ('fresh',)       result of an allocator, or of a *removing* container operation (pop: ownership moves to the popper)
       ('unk',)
Only pointer-typed loads propagate roots.
"""
import os, re
from collections import defaultdict

ALLOC = {"malloc", "calloc", "realloc", "strdup", "strndup", "g_string_new", "g_string_sized_new", "g_array_new", "g_array_sized_new",
         "g_queue_new", "g_hash_table_new", "g_hash_table_new_full", "g_malloc", "g_malloc0", "g_strdup", "g_string_new_len", "fopen",
         "g_queue_pop_head", "g_queue_pop_tail", "g_array_free", "g_string_free"}
# externals returning a pointer into (or owned by) their first argument
ACCESSOR = {"g_hash_table_lookup", "g_queue_peek_head", "g_queue_peek_tail", "g_queue_peek_nth",
            "g_array_append_vals", "g_array_remove_index", "g_array_remove_range", "g_array_set_size", "g_string_append", "g_string_assign",
            "g_string_append_printf", "g_list_nth_data", "g_queue_find_custom", "g_queue_find"}
# externals that only read through their pointer arguments
READONLY = {"strcmp", "strncmp", "strlen", "g_queue_is_empty", "g_queue_get_length", "g_hash_table_lookup", "g_hash_table_size", "syslog",
            "vsnprintf", "snprintf", "printf", "fprintf", "g_queue_peek_head", "g_queue_peek_tail", "g_hash_table_contains", "memcmp",
            "g_hash_table_iter_init", "g_hash_table_iter_next", "g_queue_find_custom", "g_queue_find", "g_str_hash", "g_str_equal", "strtol",
            "g_string_equal", "atoi", "write", "g_queue_peek_nth", "g_queue_index", "strdup", "strndup", "abs", "difftime", "openlog",
            "fopen", "tcgetattr", "tcsetattr", "close", "usleep", "clock_gettime", "strtoul", "strchr", "strstr"}
# externals writing through argument 0 only, reading the rest
WRITE_ARG0 = {"sprintf", "strcpy", "strncpy", "memcpy", "strcat", "g_string_printf", "g_string_append_printf", "g_string_assign", "read"}


def is_ptr_type(ty):
    return ty.endswith("*")


class Regions:
    def __init__(self, world, engine, allowed=None, excluded_edges=None):
        self.w = world
        self.P = world.P
        self.E = engine
        self._memo = {}
        self._inprog = set()
        self._tainted = False
        self._stores = {}
        self.parents = defaultdict(list)      # ctx key -> [(parent key, call inst)]
        self.children = defaultdict(list)     # (ctx key, inst id) -> [child key]
        for k, c in engine.ctxs.items():
            if allowed is not None and k not in allowed:
                continue
            for (inst, ck, ls) in c.calls:
                if excluded_edges and (c.fn.name, inst.id) in excluded_edges:
                    continue
                self.parents[ck].append((k, inst))
                self.children[(k, inst.id)].append(ck)
        self.ctx_of_fn = defaultdict(list)
        for k in engine.ctxs:
            self.ctx_of_fn[k[0]].append(k)

    # ---- stores into each alloca by constant offset (None = unknown offset), incl. out-parameters of container iterators
    def _alloca_base(self, fn, o, depth=0):
        """operand -> (alloca id, constant offset or None); the sret result slot of a struct-returning function counts as a local"""
        if o.get("k") == "arg" and o["i"] < len(fn.params) and "sret" in fn.params[o["i"]]:
            return ("sret%d" % o["i"], 0)
        if o.get("k") != "inst" or depth > 8:
            return None
        i = fn.insts[o["id"]]
        if i.op == "alloca":
            return (i.id, 0)
        if i.op == "bitcast":
            return self._alloca_base(fn, i["a"], depth + 1)
        if i.op == "getelementptr":
            b = self._alloca_base(fn, i["base"], depth + 1)
            if b is None:
                return None
            if i["idx"] or b[1] is None:
                return (b[0], None)
            return (b[0], b[1] + i["off"])
        return None

    def stores_map(self, fn):
        m = self._stores.get(fn.name)
        if m is None:
            m = defaultdict(list)
            for i in fn.all_insts():
                if i.op == "store" and i["ptr"].get("k") in ("inst", "arg"):
                    b = self._alloca_base(fn, i["ptr"])
                    if b is not None:
                        m[b[0]].append((b[1], i["size"], "val", i["val"]))
                elif i.op == "call" and i.callee == "g_hash_table_iter_next":
                    for a in i.args[1:]:
                        b = self._alloca_base(fn, a)
                        if b is not None:
                            m[b[0]].append((b[1], 8, "iter", i.args[0]))
                elif i.op == "call" and i.callee == "g_hash_table_iter_init":
                    b = self._alloca_base(fn, i.args[0])
                    if b is not None:
                        m[b[0]].append((None, 0, "heapof", i.args[1]))
                elif i.op == "call" and i.callee and i.callee.startswith("llvm.memcpy"):
                    b = self._alloca_base(fn, i.args[0])
                    if b is not None:
                        m[b[0]].append((None, 0, "copyof", i.args[1]))
            self._stores[fn.name] = m
        return m

    def stores_to(self, fn, aid, off):
        out = []
        for (o, sz, kind, v) in self.stores_map(fn).get(aid, ()):
            if off is None or o is None or o == off or kind in ("copyof", "heapof"):
                out.append((kind, v))
        return out

    # ---- roots of an operand in a context
    def roots(self, ck, fn, o):
        k = o.get("k")
        if k == "global":
            return {("in", o["name"], o.get("off", 0))}
        if k in ("const", "null", "undef", "func", "fconst", "zero"):
            return set()
        if k == "arg":
            if o["i"] < len(fn.params) and "sret" in fn.params[o["i"]]:
                return {("local", fn.name, "sret%d" % o["i"], 0)}
            return self.arg_roots(ck, fn, o["i"])
        if k != "inst":
            return {("unk",)}
        key = (ck, o["id"])
        r = self._memo.get(key)
        if r is not None:
            return r
        if key in self._inprog:
            self._tainted = True
            return set()
        self._inprog.add(key)
        saved = self._tainted
        self._tainted = False
        r = self._roots_inst(ck, fn, fn.insts[o["id"]])
        self._inprog.discard(key)
        if not self._tainted:
            self._memo[key] = r
        self._tainted = self._tainted or saved
        return r

    def _promote(self, s):
        out = set()
        for t in s:
            if t[0] == "in":
                out.add(("heap", t[1], t[2]))
            elif t[0] in ("heap", "unk"):
                out.add(t)
        return out

    def _roots_inst(self, ck, fn, i):
        op = i.op
        if op == "alloca":
            return {("local", fn.name, i.id, 0)}
        if op in ("bitcast", "ptrtoint", "inttoptr"):
            return self.roots(ck, fn, i["a"])
        if op == "getelementptr":
            r = set()
            for t in self.roots(ck, fn, i["base"]):
                if t[0] == "in":
                    r.add(("in", t[1], None if (i["idx"] or t[2] is None) else t[2] + i["off"]))
                elif t[0] == "local":
                    r.add(("local", t[1], t[2], None if (i["idx"] or t[3] is None) else t[3] + i["off"]))
                else:
                    r.add(t)
            return r
        if op == "load":
            if not is_ptr_type(i["ty"]):
                return set()
            r = set()
            for t in self.roots(ck, fn, i["ptr"]):
                if t[0] == "in":
                    r.add(("heap", t[1], t[2]))
                elif t[0] == "heap":
                    r.add(t)
                elif t[0] == "local":
                    r |= self._load_local(ck, fn, t)
                elif t[0] == "unk":
                    r.add(t)
            return r
        if op == "phi":
            r = set()
            for b, v in i["incoming"]:
                r |= self.roots(ck, fn, v)
            return r
        if op == "select":
            return self.roots(ck, fn, i["a"]) | self.roots(ck, fn, i["b"])
        if op == "call":
            c = i.callee
            if c in ALLOC:
                return {("fresh",)}
            if c in ACCESSOR and i.args:
                return self._promote(self.roots(ck, fn, i.args[0]))
            kids = self.children.get((ck, i.id))
            if kids:
                r = set()
                for ckid in kids:
                    r |= self.ret_roots(ckid)
                return r
            return {("unk",)} if is_ptr_type(i["ty"]) else set()
        return set()

    def _load_local(self, ck, fn, t, depth=0):
        """pointer loaded from a local (possibly of another function: by-value struct or &local argument)"""
        _, fname, aid, off = t
        F = self.P.functions[fname]
        if F is fn:
            ctxs = [ck]
        else:
            ctxs = self.ctx_of_fn.get(fname, [])[:6]
        r = set()
        if depth > 6:
            return r
        for kind, v in self.stores_to(F, aid, off):
            for c2 in ctxs:
                sub = self.roots(c2, F, v)
                if kind == "val":
                    r |= {s for s in sub if s[0] != "fresh"}
                elif kind in ("iter", "heapof"):
                    for s in sub:
                        if s[0] == "local":
                            # iterator local: follow what was tied to it
                            for k2, v2 in self.stores_to(self.P.functions[s[1]], s[2], None):
                                r |= self._promote(self.roots(c2, self.P.functions[s[1]], v2))
                        else:
                            r |= self._promote({s})
                elif kind == "copyof":
                    # bytes copied from a shared object: pointers inside the copy still point into the owner
                    for s in sub:
                        if s[0] in ("in", "heap"):
                            r |= self._promote({s})
                        elif s[0] == "local":
                            r |= self._load_local(c2, F, ("local", s[1], s[2], None), depth + 1)
        return r

    def arg_roots(self, ck, fn, k):
        key = (ck, "arg", k)
        r = self._memo.get(key)
        if r is not None:
            return r
        if key in self._inprog:
            self._tainted = True
            return set()
        self._inprog.add(key)
        r = set()
        for (pk, inst) in self.parents.get(ck, ()):
            pf = self.E.ctxs[pk].fn
            if inst.callee == fn.name and k < len(inst.args):
                r |= self.roots(pk, pf, inst.args[k])
        self._inprog.discard(key)
        self._memo[key] = r
        return r

    def ret_roots(self, ck):
        key = (ck, "ret")
        r = self._memo.get(key)
        if r is not None:
            return r
        if key in self._inprog:
            self._tainted = True
            return set()
        self._inprog.add(key)
        f = self.E.ctxs[ck].fn
        r = set()
        for i in f.all_insts():
            if i.op == "ret" and "val" in i.d:
                for t in self.roots(ck, f, i["val"]):
                    if t[0] != "local":
                        r.add(t)
        self._inprog.discard(key)
        self._memo[key] = r
        return r

    # ---- label of the accessed location: "S.f" for a struct member, "*S.f" for the object a member points to,
    # "*S.f[]" for an element of it; None when nothing is known
    def field_of(self, fn, o, depth=0):
        if o.get("k") != "inst" or depth > 8:
            return None
        i = fn.insts[o["id"]]
        if i.op == "bitcast":
            return self.field_of(fn, i["a"], depth + 1)
        if i.op == "getelementptr":
            for e in reversed(i["path"]):
                if "s" in e:
                    fs = self.P.llvm_struct_fields(e["s"])
                    st = self.P.struct_layout(fn, e["s"])
                    if fs and st and e["f"] < len(st["elems"]):
                        off = st["elems"][e["f"]]["off"]
                        for (n, o2, s2, t2) in fs:
                            if o2 == off:
                                return "%s.%s" % (re.sub(r"^(struct|union)\.", "", e["s"]), n)
                    return "%s.#%d" % (e["s"], e["f"])
            b = self.field_of(fn, i["base"], depth + 1)
            if b is None:
                return None
            return b if b.endswith("[]") else b + "[]"
        if i.op == "load":
            # a pointer loaded from a field or a local that was assigned from one
            p = i["ptr"]
            b = self.field_of(fn, p, depth + 1)
            if b is not None:
                return "*" + b
            ab = self._alloca_base(fn, p)
            if ab is not None:
                labels = set()
                for kind, v in self.stores_to(fn, ab[0], ab[1]):
                    if kind == "val":
                        l = self.field_of(fn, v, depth + 1)
                        if l:
                            labels.add(l)
                if len(labels) == 1:
                    return labels.pop()
            if p.get("k") == "global":
                return "*" + p["name"]
            return None
        if i.op == "call" and i.callee in ACCESSOR and i.args:
            b = self.field_of(fn, i.args[0], depth + 1)
            return (b or "?") + "{}"
        return None

    def label_of(self, ck, fn, o, depth=0):
        """field label of a pointer operand; a pointer parameter takes the label of the arguments passed by the call
        sites that produced this context (when they agree)"""
        l = self.field_of(fn, o)
        if l is not None or depth > 5:
            return l
        k = None
        if o.get("k") == "arg":
            k = o["i"]
        else:
            i = fn.resolve(o) if o.get("k") == "inst" else None
            while i is not None and i.op in ("bitcast",):
                i = fn.resolve(i["a"])
            if i is not None and i.op == "load" and i["ptr"].get("k") == "inst":
                a = fn.insts[i["ptr"]["id"]]
                if a.op == "alloca":
                    k = fn.param_index_of_alloca(a)
            elif i is not None and i.op == "getelementptr" and not self.field_of(fn, o):
                inner = self.label_of(ck, fn, i["base"], depth + 1)
                if inner is not None:
                    return inner if inner.endswith("[]") else inner + "[]"
        if k is None:
            return None
        labels = set()
        for (pk, inst) in self.parents.get(ck, ()):
            pf = self.E.ctxs[pk].fn
            if inst.callee == fn.name and k < len(inst.args):
                labels.add(self.label_of(pk, pf, inst.args[k], depth + 1))
        if len(labels) == 1:
            return labels.pop()
        return None

    def top_field(self, gname, off):
        """name of the member of global struct `gname` at byte offset off (for bidib_track_state.*)"""
        g = self.P.globals.get(gname)
        if not g or off is None:
            return None
        ms = self.P.di_members(g.get("ditype", -1))
        if not ms:
            return None
        for (n, o, s, t) in ms:
            if o <= off < o + max(s, 1):
                return n
        return None

    # ---- enumerate accesses of one context
    def accesses(self, ck):
        """yields (inst, mode 'r'|'w', roots(set of ('in'|'heap', G, off)), field, what)"""
        fn = self.E.ctxs[ck].fn
        for i in fn.all_insts():
            if i.op == "load":
                rs = self._shared(self.roots(ck, fn, i["ptr"]))
                if rs:
                    yield i, "r", rs, self.label_of(ck, fn, i["ptr"]), "load"
            elif i.op == "store":
                rs = self._shared(self.roots(ck, fn, i["ptr"]))
                if rs:
                    yield i, "w", rs, self.label_of(ck, fn, i["ptr"]), "store"
            elif i.op == "call" and i.callee is None and not self.children.get((ck, i.id)):
                # call through a function pointer that is not a repo function (user callback): it reads what it is handed
                for k, a in enumerate(i.args):
                    if a.get("k") in ("inst", "global", "arg"):
                        rs = self._shared(self.roots(ck, fn, a))
                        if rs:
                            yield i, "r", rs, self.label_of(ck, fn, a), "callback arg%d" % k
            elif i.op == "call" and i.callee and not (i.callee in self.P.functions and self.P.functions[i.callee].blocks):
                c = i.callee
                if c.startswith("llvm.dbg") or c.startswith("llvm.lifetime") or c.startswith("pthread_"):
                    continue
                for k, a in enumerate(i.args):
                    if a.get("k") not in ("inst", "global", "arg"):
                        continue
                    rs = self._shared(self.roots(ck, fn, a))
                    if not rs:
                        continue
                    if c.startswith("llvm.memcpy") or c.startswith("llvm.memmove") or c in WRITE_ARG0:
                        mode = "w" if k == 0 else "r"
                    elif c.startswith("llvm.memset"):
                        mode = "w"
                    elif c in READONLY:
                        mode = "r"
                    else:
                        mode = "w"
                    yield i, mode, rs, self.label_of(ck, fn, a), "call %s arg%d" % (c, k)

    @staticmethod
    def _shared(rs):
        return {t for t in rs if t[0] in ("in", "heap")}


def guarded_by_comments(repo):
    """(struct typedef name, member name) -> lock name from '// guarded by <lock>' comments in struct definitions under src/"""
    import glob
    out = {}
    for path in sorted(glob.glob(os.path.join(repo, "src", "*", "*.h"))):
        pending = []
        for line in open(path, errors="replace"):
            m = re.search(r"\*?\s*(\w+)\s*;\s*//\s*guarded by (\w+)", line)
            if m:
                pending.append((m.group(1), m.group(2)))
            m2 = re.match(r"\s*}\s*(\w+)\s*;", line)
            if m2:
                for mem, lock in pending:
                    out[(m2.group(1), mem)] = lock
                pending = []
    return out
