"""Result objects of query functions: leaves of the result type, must-initialised dataflow, field reads of source entities."""
import re

from . import flow, rules
from .build import AnalysisBroken


def leaves_of(P, ditype, base=0, prefix=""):
    """flatten a DI type into leaves: [(offset, size, path, is_pointer, ditype id)]"""
    t = P.di_strip(ditype)
    if t is None:
        return []
    if t["kind"] in ("struct", "union"):
        out = []
        for m in t.get("members", []):
            md = P.di(m)
            sub = leaves_of(P, md["base"], base + md["off"], prefix + ("." if prefix else "") + md["name"])
            out += sub
        return out
    if t["kind"] == "array":
        n = 1
        for c in t.get("counts", []):
            n *= max(c, 0)
        el = P.di_strip(t["base"])
        es = el["size"] if el else 1
        return [(base, max(t["size"], es * n), prefix + "[]", False, ditype)]
    return [(base, t["size"] or 8, prefix, t["kind"] == "pointer", ditype)]


class ResultObject:
    """the memory a struct-returning function builds its result in: the sret argument, or the local that is returned"""

    def __init__(self, P, fn):
        self.P = P
        self.fn = fn
        self.kind = None
        self.sret = None
        self.alloca = None
        dits = fn.d.get("ditypes") or []
        self.ditype = dits[0] if dits else None
        for k, p in enumerate(fn.params):
            if "sret" in p:
                self.kind, self.sret, self.size = "sret", k, p["sret_size"]
        if self.kind is None and self.ditype is not None and self.ditype >= 0:
            t = P.di_strip(self.ditype)
            if t and t["kind"] in ("struct", "union"):
                # returned by value in registers: find the local whose DI type is the return type
                for a in fn.allocas().values():
                    if a.get("ditype") is not None and P.di_strip(a["ditype"]) is t and not a.get("param"):
                        self.kind, self.alloca, self.size = "local", a.id, t["size"]
                        break
        self.leaves = leaves_of(P, self.ditype) if self.kind else []

    def offset_of(self, ptr):
        """pointer operand -> constant byte offset into the result object (None if it does not point into it, 'var' if variable)"""
        fn = self.fn
        off = 0
        o = ptr
        for _ in range(10):
            o = rules.strip_casts(fn, o)
            if o.get("k") == "arg":
                return off if self.kind == "sret" and o["i"] == self.sret else None
            i = fn.resolve(o)
            if i is None:
                return None
            if i.op == "alloca":
                return off if self.kind == "local" and i.id == self.alloca else None
            if i.op == "getelementptr":
                if i["idx"]:
                    return None
                off += i["off"]
                o = i["base"]
                continue
            return None
        return None

    def covered(self, off, size):
        return {k for k, (lo, sz, path, isp, dt) in enumerate(self.leaves) if off <= lo and lo + sz <= off + size}


def must_init(P, fn, R):
    """forward must-analysis: for each return instruction, the set of leaf indices of R that are assigned on every path"""
    allset = frozenset(range(len(R.leaves)))
    state_in = {b.id: None for b in fn.blocks}
    state_in[fn.blocks[0].id] = frozenset()
    work = [fn.blocks[0].id]
    at_ret = {}
    while work:
        bid = work.pop()
        st = state_in[bid]
        if st is None:
            continue
        cur = set(st)
        bb = fn.bmap[bid]
        for i in bb.insts:
            if i.op == "store":
                off = R.offset_of(i["ptr"])
                if off is not None:
                    cur |= R.covered(off, i["size"])
            elif i.op == "call" and i.callee and (i.callee.startswith("llvm.memcpy") or i.callee.startswith("llvm.memset") or i.callee.startswith("llvm.memmove")):
                off = R.offset_of(i.args[0])
                ln = rules.const_of(fn, i.args[2])
                if off is not None and ln is not None:
                    cur |= R.covered(off, ln)
            elif i.op == "call" and i.callee and i.callee in P.functions and P.functions[i.callee].blocks:
                # a callee that returns its struct into (part of) our result object
                cf = P.functions[i.callee]
                for k, a in enumerate(i.args):
                    if k < len(cf.params) and "sret" in cf.params[k]:
                        off = R.offset_of(a)
                        if off is not None:
                            cur |= R.covered(off, cf.params[k]["sret_size"])
            elif i.op == "ret":
                at_ret[i.id] = frozenset(cur)
        out = frozenset(cur)
        for s in bb.succ:
            old = state_in[s]
            new = out if old is None else (old & out)
            if new != old:
                state_in[s] = new
                work.append(s)
    return at_ret


def entity_field_reads(P, fn, src_call, sites=None):
    """names 'Struct.field' selected on the way to every load / memcpy-source whose pointer derives from the result of src_call;
    when `sites` is a dict it receives field name -> [instructions that read it]"""
    reads = set()
    whole = set()
    for i in fn.all_insts():
        ptrs = []
        if i.op == "load":
            ptrs = [(i["ptr"], False)]
        elif i.op == "call" and i.callee and i.callee.startswith("llvm.memcpy"):
            ptrs = [(i.args[1], True)]
        for p, is_copy in ptrs:
            tags = flow.origins(fn, p)
            derived = False
            for t in tags:
                x = t
                while x[0] in ("elem", "field") and isinstance(x[1], tuple):
                    x = x[1]
                if x[0] == "call" and x[2] == src_call.id:
                    derived = True
            if not derived:
                continue
            chain = rules.field_chain(P, fn, rules.strip_casts(fn, p))
            if chain and sites is not None:
                for nm in chain:
                    sites.setdefault(nm, []).append(i)
            if chain:
                reads.add(tuple(chain))
                if is_copy:
                    whole.add(tuple(chain))
            elif is_copy:
                whole.add(())
    return reads, whole
