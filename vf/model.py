"""E2: program model over the irdump JSON: functions, CFG, dominators, call graph, DI helpers."""
import json, os, re
from collections import defaultdict, deque


class Inst:
    __slots__ = ("d", "id", "op", "bb", "fn", "line", "idx")

    def __init__(self, d, bb, fn, idx):
        self.d = d
        self.id = d["id"]
        self.op = d["op"]
        self.bb = bb
        self.fn = fn
        self.line = d.get("line", 0)
        self.idx = idx

    def __getitem__(self, k):
        return self.d[k]

    def get(self, k, default=None):
        return self.d.get(k, default)

    def __contains__(self, k):
        return k in self.d

    @property
    def callee(self):
        return self.d.get("callee")

    @property
    def args(self):
        return self.d.get("args", [])

    def loc(self):
        return "%s:%d" % (self.fn.relfile, self.line or self.fn.line)

    def __repr__(self):
        return "<%s %s@%s>" % (self.op, self.id, self.loc())


class Block:
    __slots__ = ("id", "succ", "pred", "insts", "fn")

    def __init__(self, d, fn):
        self.id = d["id"]
        self.succ = list(d["succ"])
        self.pred = []
        self.fn = fn
        self.insts = [Inst(x, self, fn, i) for i, x in enumerate(d["insts"])]

    @property
    def term(self):
        return self.insts[-1]

    def __repr__(self):
        return "<bb%d of %s>" % (self.id, self.fn.name)


class Function:
    def __init__(self, d, prog):
        self.d = d
        self.prog = prog
        self.name = d["name"]
        self.unit = d.get("unit", 0)
        self.srcname = d.get("srcname", d["name"])
        self.internal = d["internal"]
        self.file = d.get("file", "")
        self.dir = d.get("dir", "")
        self.line = d.get("line", 0)
        self.params = d["params"]
        self.ret = d["ret"]
        self.blocks = [Block(b, self) for b in d["blocks"]]
        self.bmap = {b.id: b for b in self.blocks}
        for b in self.blocks:
            for s in b.succ:
                self.bmap[s].pred.append(b.id)
        self.insts = {}
        for b in self.blocks:
            for i in b.insts:
                self.insts[i.id] = i
        self._dom = None
        self._pdom = None
        self._allocas = None
        self.has_inlined = any("inlined_from" in i.d for i in self.insts.values())

    @property
    def relfile(self):
        f = self.file
        if not os.path.isabs(f):
            f = os.path.join(self.dir, f)
        f = os.path.normpath(f)
        root = self.prog.repo_root
        if root and f.startswith(root + os.sep):
            return f[len(root) + 1:]
        return f

    def all_insts(self):
        for b in self.blocks:
            for i in b.insts:
                yield i

    def calls(self, name=None):
        for i in self.all_insts():
            if i.op == "call" and (name is None or i.callee == name):
                yield i

    # ---- operand helpers
    def resolve(self, opnd):
        """operand dict -> Inst or None"""
        if opnd and opnd.get("k") == "inst":
            return self.insts.get(opnd["id"])
        return None

    def allocas(self):
        if self._allocas is None:
            self._allocas = {i.id: i for i in self.all_insts() if i.op == "alloca"}
        return self._allocas

    def var_alloca(self, name):
        for a in self.allocas().values():
            if a.get("var") == name:
                return a
        return None

    def param_index_of_alloca(self, alloca):
        """If alloca is the spill slot of parameter k (store arg k -> alloca in entry block) return k."""
        for i in self.blocks[0].insts:
            if i.op == "store" and i["ptr"].get("k") == "inst" and i["ptr"]["id"] == alloca.id and i["val"].get("k") == "arg":
                return i["val"]["i"]
        return None

    def is_bool_alloca(self, alloca):
        """the local is a C _Bool (debug info), so its value is 0 or 1"""
        t = self.prog.di_strip(alloca.get("ditype", -1))
        return bool(t) and t.get("kind") == "base" and t.get("name") == "_Bool"

    def param_index_of_alloca_z(self, alloca):
        """like param_index_of_alloca but also through the zext of a bool parameter"""
        for i in self.blocks[0].insts:
            if i.op == "store" and i["ptr"].get("k") == "inst" and i["ptr"]["id"] == alloca.id:
                v = i["val"]
                if v.get("k") == "arg":
                    return v["i"]
                if v.get("k") == "inst":
                    z = self.insts[v["id"]]
                    if z.op in ("zext", "sext") and z["a"].get("k") == "arg":
                        return z["a"]["i"]
        return None

    # ---- dominators (iterative, Cooper-Harvey-Kennedy simplified with sets; functions are small)
    def dom(self):
        if self._dom is None:
            self._dom = _dominators(self.blocks[0].id, {b.id: b.succ for b in self.blocks}, {b.id: b.pred for b in self.blocks})
        return self._dom

    def pdom(self):
        if self._pdom is None:
            exits = [b.id for b in self.blocks if not b.succ]
            succ = {b.id: list(b.pred) for b in self.blocks}
            pred = {b.id: list(b.succ) for b in self.blocks}
            succ[-1] = exits
            pred[-1] = []
            for e in exits:
                pred[e] = pred[e] + [-1]
            self._pdom = _dominators(-1, succ, pred)
        return self._pdom

    def dominates(self, a, b):
        """instruction a dominates instruction b"""
        if a.bb is b.bb:
            return a.idx <= b.idx
        return a.bb.id in self.dom().get(b.bb.id, ())

    def postdominates(self, a, b):
        """every path from b to exit passes a"""
        if a.bb is b.bb:
            return a.idx >= b.idx
        return a.bb.id in self.pdom().get(b.bb.id, ())

    def reachable_from(self, bbid, avoid=()):
        seen = set()
        dq = deque([bbid])
        while dq:
            x = dq.popleft()
            if x in seen or x in avoid:
                continue
            seen.add(x)
            dq.extend(self.bmap[x].succ)
        return seen

    def back_edges(self):
        dom = self.dom()
        out = []
        for b in self.blocks:
            for s in b.succ:
                if s in dom.get(b.id, ()) or s == b.id:
                    out.append((b.id, s))
        return out

    def natural_loop(self, tail, head):
        body = {head}
        st = [tail]
        while st:
            x = st.pop()
            if x in body:
                continue
            body.add(x)
            st.extend(self.bmap[x].pred)
        return body

    def natural_loop_of(self, head):
        body = set()
        for t, h in self.back_edges():
            if h == head:
                body |= self.natural_loop(t, h)
        return body

    def loops(self):
        """head -> set of blocks (merged natural loops per head)"""
        out = {}
        for t, h in self.back_edges():
            out.setdefault(h, set()).update(self.natural_loop(t, h))
        return out

    def __repr__(self):
        return "<fn %s>" % self.name


def _dominators(entry, succ, pred):
    nodes = list(succ.keys())
    # reachable only
    reach = set()
    st = [entry]
    while st:
        x = st.pop()
        if x in reach:
            continue
        reach.add(x)
        st.extend(succ.get(x, ()))
    dom = {n: set(reach) for n in reach}
    dom[entry] = {entry}
    order = []
    seen = set()

    def dfs(n):
        stack = [(n, iter(succ.get(n, ())))]
        seen.add(n)
        while stack:
            node, it = stack[-1]
            adv = False
            for s in it:
                if s not in seen and s in reach:
                    seen.add(s)
                    stack.append((s, iter(succ.get(s, ()))))
                    adv = True
                    break
            if not adv:
                order.append(node)
                stack.pop()

    dfs(entry)
    order.reverse()
    changed = True
    while changed:
        changed = False
        for n in order:
            if n == entry:
                continue
            ps = [p for p in pred.get(n, ()) if p in reach]
            if not ps:
                continue
            new = set.intersection(*(dom[p] for p in ps)) | {n}
            if new != dom[n]:
                dom[n] = new
                changed = True
    return dom


class Program:
    def __init__(self, path, repo_root="/repo"):
        if isinstance(path, dict):
            d = path
        else:
            with open(path) as f:
                d = json.load(f)
        self.repo_root = os.path.normpath(repo_root)
        self.raw = d
        self.globals = {g["name"]: g for g in d["globals"]}
        self.structs = d["structs"]
        self.unit_structs = d.get("unit_structs")
        self.ditypes = d["ditypes"]
        self.decls = set(d["decls"])
        self.functions = {}
        for fd in d["functions"]:
            fn = Function(fd, self)
            self.functions[fn.name] = fn
        self._callers = None
        self._addr_taken = None

    # ---- functions that belong to the repository (defined under repo_root/src)
    def repo_functions(self):
        return [f for f in self.functions.values() if f.relfile.startswith("src" + os.sep)]

    def fn(self, name):
        return self.functions.get(name)

    # ---- DI helpers
    def di(self, i):
        return self.ditypes[i] if i is not None and i >= 0 else None

    def di_strip(self, i, typedefs=True):
        """strip typedef/const/volatile"""
        t = self.di(i)
        while t and t["kind"] in ("typedef", "const", "volatile", "restrict"):
            if t["kind"] == "typedef" and not typedefs:
                break
            t = self.di(t["base"])
        return t

    def di_name(self, i):
        t = self.di(i)
        if t is None:
            return "void"
        if t["kind"] == "pointer":
            return self.di_name(t["base"]) + "*"
        if t["kind"] in ("const", "volatile", "restrict"):
            return self.di_name(t["base"])
        if t["name"]:
            return t["name"]
        if t["kind"] == "array":
            return self.di_name(t["base"]) + "[]"
        return "<anon %s>" % t["kind"]

    def di_members(self, i):
        """[(name, off, size, ditype id)] of a struct (through typedefs)"""
        t = self.di_strip(i)
        if not t or t["kind"] not in ("struct", "union"):
            return None
        out = []
        for m in t["members"]:
            md = self.di(m)
            bt = self.di_strip(md["base"])
            size = md["size"] or (bt["size"] if bt else 0)
            out.append((md["name"], md["off"], size, md["base"]))
        return out

    def di_struct_by_name(self, name):
        """find a struct DI type by typedef name or tag"""
        for t in self.ditypes:
            if t["name"] == name and t["kind"] in ("typedef", "struct"):
                s = self.di_strip(t["id"])
                if s and s["kind"] in ("struct", "union") and s.get("members") is not None:
                    return t["id"]
        return None

    def llvm_struct_fields(self, sname):
        """'struct.t_bidib_board' -> [(name, off, size)] using DI of same-named typedef/struct"""
        base = sname
        for p in ("struct.", "union."):
            if base.startswith(p):
                base = base[len(p):]
        base = re.sub(r"\.\d+$", "", base)
        i = self.di_struct_by_name(base)
        if i is None:
            return None
        return self.di_members(i)

    def field_at(self, sname, off):
        fs = self.llvm_struct_fields(sname)
        if not fs:
            return None
        best = None
        for (n, o, s, t) in fs:
            if o <= off < o + max(s, 1):
                best = (n, o, s, t)
        return best

    def struct_layout(self, fn, sname):
        """layout of an LLVM struct type as seen by fn's translation unit"""
        if self.unit_structs is not None and fn is not None:
            s = self.unit_structs[fn.unit].get(sname)
            if s is not None:
                return s
        return self.structs.get(sname)

    # ---- call graph
    def addr_taken(self):
        """function name -> list of (caller fn, inst) where the function's address is used as a value"""
        if self._addr_taken is None:
            at = defaultdict(list)
            for f in self.functions.values():
                for i in f.all_insts():
                    ops = []
                    if i.op == "call":
                        ops = i.args
                    elif i.op == "store":
                        ops = [i["val"]]
                    for o in ops:
                        if o.get("k") == "func":
                            at[o["name"]].append((f, i))
            self._addr_taken = at
        return self._addr_taken

    def callees(self, fn):
        """direct callees + functions passed as callbacks to known iterators (g_*_foreach etc.)"""
        out = []
        for i in fn.calls():
            if i.callee:
                out.append((i, i.callee))
        return out

    def callers(self):
        if self._callers is None:
            c = defaultdict(list)
            for f in self.functions.values():
                for i in f.calls():
                    if i.callee:
                        c[i.callee].append((f, i))
            self._callers = c
        return self._callers

    def reachable_functions(self, roots, follow_callbacks=True):
        seen = set()
        st = list(roots)
        while st:
            n = st.pop()
            if n in seen or n not in self.functions:
                continue
            seen.add(n)
            f = self.functions[n]
            for i in f.calls():
                if i.callee:
                    st.append(i.callee)
                if follow_callbacks and i.callee != "pthread_create":
                    for a in i.args:
                        if a.get("k") == "func":
                            st.append(a["name"])
        return seen

    def thread_roots(self):
        out = []
        for f in self.functions.values():
            for i in f.calls("pthread_create"):
                a = i.args[2]
                if a.get("k") == "func":
                    out.append((a["name"], f, i))
        return out
