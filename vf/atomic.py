"""Read-modify-write atomicity across critical sections (C10-ATOM).

In a function F that runs concurrently, two call sites e1 -> e2 (in CFG order) form a split read-modify-write of field X of shared
region R when  (i) the code below e1 reads X,  (ii) the code below e2 writes X,  (iii) a value produced by e1 (its result, or a local
it fills through a pointer argument) flows through F's locals into an argument of e2, and  (iv) R's own lock is not held at both call
sites.  The update is atomic only if some lock is held *exclusively* (mutex, or rwlock in write mode) at both call sites; otherwise two
threads can interleave read-read-write-write and one update is lost.
"""
from collections import defaultdict

from . import locks, rules


def _excl(ls):
    return {l for (l, m, k) in ls if m in ("M", "W")}


def _held(ls):
    return {l for (l, m, k) in ls}


def _base_alloca(f, o, depth=0):
    i = f.resolve(rules.strip_casts(f, o)) if o.get("k") == "inst" else None
    while i is not None and depth < 8:
        if i.op == "alloca":
            return i.id
        if i.op == "getelementptr":
            i = f.resolve(rules.strip_casts(f, i["base"]))
        elif i.op == "bitcast":
            i = f.resolve(i["a"])
        else:
            return None
        depth += 1
    return None


_WTP = {}


def writes_through_param(P, g, k, depth=0):
    """does g (or a repo callee it forwards the pointer to) store through its k-th parameter?"""
    from . import flow
    key = (g.name, k)
    if key in _WTP:
        return _WTP[key]
    _WTP[key] = False
    r = False
    for i in g.all_insts():
        ptrs = []
        if i.op == "store":
            ptrs = [i["ptr"]]
        elif i.op == "call" and i.callee and (i.callee.startswith("llvm.memcpy") or i.callee.startswith("llvm.memset")):
            ptrs = [i.args[0]]
        elif i.op == "call" and i.callee in P.functions and P.functions[i.callee].blocks and depth < 3:
            for j, a in enumerate(i.args):
                if a.get("k") in ("inst", "arg") and any(t[0] == "param" and t[1] == k for t in _strip(flow.origins(g, a))):
                    if writes_through_param(P, P.functions[i.callee], j, depth + 1):
                        r = True
        elif i.op == "call" and i.callee and i.callee not in P.functions and not i.callee.startswith("llvm."):
            # an external callee given the pointer may write through it (snprintf, memcpy ...)
            for j, a in enumerate(i.args):
                if j == 0 and a.get("k") in ("inst", "arg") and any(t[0] == "param" and t[1] == k for t in _strip(flow.origins(g, a))) and i.callee in ("memcpy", "memset", "snprintf", "sprintf", "strcpy", "strncpy"):
                    r = True
        for p_ in ptrs:
            if p_.get("k") in ("inst", "arg"):
                tg = _strip(flow.origins(g, p_))
                # the spill slot of the parameter itself is not a write through it
                if any(t[0] == "param" and t[1] == k for t in tg):
                    pi = g.resolve(p_)
                    if not (pi is not None and pi.op == "alloca"):
                        r = True
        if r:
            break
    _WTP[key] = r
    return r


def _strip(tags):
    out = set()
    for t in tags:
        x = t
        while x[0] in ("elem", "field") and isinstance(x[1], tuple):
            x = x[1]
        out.add(x)
    return out


def _frame_flow(P, f, e1, e2):
    """does a value produced by call e1 (its result, or a local it fills through a pointer argument) reach an argument of call e2
    through the locals of f (flow-insensitive over allocas)?"""
    tainted = set()
    vals = {e1.id}
    g1 = P.functions.get(e1.callee or "")
    for j, a in enumerate(e1.args):
        b = _base_alloca(f, a) if a.get("k") == "inst" else None
        if b is not None and g1 is not None and g1.blocks and writes_through_param(P, g1, j):
            tainted.add(b)
    if not tainted and e1.get("ty") == "void":
        return set()
    changed = True
    while changed:
        changed = False
        for i in f.all_insts():
            if i.id in vals:
                continue
            hit = False
            if i.op == "load":
                b = _base_alloca(f, i["ptr"])
                hit = b in tainted
            elif i.op in ("zext", "sext", "trunc", "bitcast", "and", "or", "xor", "add", "sub", "shl", "lshr", "ashr", "mul", "select", "phi", "getelementptr"):
                for k in ("a", "b", "base"):
                    if k in i.d and isinstance(i[k], dict) and i[k].get("k") == "inst" and i[k]["id"] in vals:
                        hit = True
                if i.op == "phi":
                    hit = hit or any(v.get("k") == "inst" and v["id"] in vals for b_, v in i["incoming"])
            elif i.op == "store":
                if i["val"].get("k") == "inst" and i["val"]["id"] in vals:
                    b = _base_alloca(f, i["ptr"])
                    if b is not None and b not in tainted:
                        tainted.add(b)
                        changed = True
                continue
            elif i.op == "call" and i.callee and i.callee.startswith("llvm.memcpy"):
                s = _base_alloca(f, i.args[1]) if i.args[1].get("k") == "inst" else None
                d = _base_alloca(f, i.args[0]) if i.args[0].get("k") == "inst" else None
                if s in tainted and d is not None and d not in tainted:
                    tainted.add(d)
                    changed = True
                continue
            if hit:
                vals.add(i.id)
                changed = True
    hit_args = set()
    for j, a in enumerate(e2.args):
        if a.get("k") != "inst":
            continue
        if a["id"] in vals:
            hit_args.add(j)
            continue
        b = _base_alloca(f, a)
        if b is not None and b in tainted:
            hit_args.add(j)
    return hit_args


_PFS = {}


def _derived_from_param(g, k):
    """(value ids, allocas) derived from parameter k of g through its locals (flow-insensitive)"""
    key = (g.name, k)
    if key in _PFS:
        return _PFS[key]
    vals = set()
    tainted = set()
    for i in g.blocks[0].insts if g.blocks else []:
        if i.op == "store" and i["val"].get("k") == "arg" and i["val"]["i"] == k:
            b = _base_alloca(g, i["ptr"])
            if b is not None:
                tainted.add(b)
    changed = True
    while changed:
        changed = False
        for i in g.all_insts():
            if i.id in vals:
                continue
            hit = False
            if i.op == "load":
                b = _base_alloca(g, i["ptr"])
                hit = b in tainted
                if not hit and i["ptr"].get("k") == "inst":
                    # a load through a tainted pointer value (message[data_index])
                    pi = g.insts[i["ptr"]["id"]]
                    hit = pi.id in vals
            elif i.op in ("zext", "sext", "trunc", "bitcast", "and", "or", "xor", "add", "sub", "shl", "lshr", "ashr", "mul", "select", "phi", "getelementptr", "icmp", "udiv", "sdiv", "urem", "srem"):
                for kk in ("a", "b", "c", "base"):
                    if kk in i.d and isinstance(i[kk], dict) and ((i[kk].get("k") == "inst" and i[kk]["id"] in vals) or (i[kk].get("k") == "arg" and i[kk]["i"] == k)):
                        hit = True
                if i.op == "getelementptr":
                    for ix in i["idx"]:
                        v_ = ix.get("v", {})
                        if v_.get("k") == "inst" and v_["id"] in vals:
                            hit = True
                if i.op == "phi":
                    hit = hit or any(v.get("k") == "inst" and v["id"] in vals for b_, v in i["incoming"])
            elif i.op == "store":
                if (i["val"].get("k") == "inst" and i["val"]["id"] in vals) or (i["val"].get("k") == "arg" and i["val"]["i"] == k):
                    b = _base_alloca(g, i["ptr"])
                    if b is not None and b not in tainted:
                        tainted.add(b)
                        changed = True
                continue
            elif i.op == "call" and i.callee and i.callee.startswith("llvm.memcpy"):
                s_ = _base_alloca(g, i.args[1]) if i.args[1].get("k") == "inst" else None
                d_ = _base_alloca(g, i.args[0]) if i.args[0].get("k") == "inst" else None
                if (s_ in tainted or (i.args[1].get("k") == "arg" and i.args[1]["i"] == k)) and d_ is not None and d_ not in tainted:
                    tainted.add(d_)
                    changed = True
                continue
            if hit:
                vals.add(i.id)
                changed = True
    _PFS[key] = (vals, tainted)
    return vals, tainted


def param_flows_to_store(P, g, k, fn2, st, depth=0, seen=None):
    """does parameter k of g flow - through g's locals and, by argument position, through the repo functions it calls - into the value stored by
    instruction st of function fn2?"""
    seen = set() if seen is None else seen
    if (g.name, k) in seen or depth > 5 or not g.blocks:
        return depth > 5
    seen.add((g.name, k))
    vals, tainted = _derived_from_param(g, k)
    if g is fn2 or g.name == fn2.name:
        v = st["val"]
        if (v.get("k") == "inst" and v["id"] in vals) or (v.get("k") == "arg" and v["i"] == k):
            return True
        if v.get("k") == "inst":
            b = _base_alloca(g, v)
            if b is not None and b in tainted:
                return True
    for c in g.calls():
        h = P.functions.get(c.callee or "")
        if h is None or not h.blocks:
            continue
        for j, a in enumerate(c.args):
            dep = False
            if a.get("k") == "arg" and a["i"] == k:
                dep = True
            elif a.get("k") == "inst":
                if a["id"] in vals:
                    dep = True
                else:
                    b = _base_alloca(g, a)
                    dep = b is not None and b in tainted
            if dep and param_flows_to_store(P, h, j, fn2, st, depth + 1, seen):
                return True
    return False


def _self_contained(P, a2):
    """the stored value is computed from a load of the same field in the same function (`x->f += d` inside one critical section):
    it does not carry a value read in an earlier section"""
    f = a2.fn
    fld = rules.field_path_of_ptr(P, f, a2.inst["ptr"])
    seen = set()
    work = [a2.inst["val"]]
    while work:
        o = work.pop()
        i = f.resolve(o) if o.get("k") == "inst" else None
        if i is None or i.id in seen:
            continue
        seen.add(i.id)
        if i.op == "load":
            if fld is not None and rules.field_path_of_ptr(P, f, i["ptr"]) == fld:
                return True
            continue
        for k in ("a", "b", "cond"):
            if k in i.d and isinstance(i[k], dict):
                work.append(i[k])
        if i.op == "phi":
            work += [v for b, v in i["incoming"]]
    return False


def split_rmw(db):
    """[(frame ctx key, e1, e2, read access, write access, region lock)]"""
    E = db.E
    by_ctx = defaultdict(list)
    for a in db.accesses:
        by_ctx[a.ctx].append(a)
    memo = {}

    def below(key, stack=()):
        if key in memo:
            return memo[key]
        if key in stack:
            return []
        out = list(by_ctx.get(key, ()))
        c = E.ctxs.get(key)
        if c is not None:
            for (ci, ck, ls) in c.calls:
                if (c.fn.name, ci.id) in db.st_edges:
                    continue
                out += below(ck, stack + (key,))
        memo[key] = out
        return out
    out = []
    seen = set()
    stats = {"frames": 0, "read_write_pairs": 0, "with_value_flow": 0, "spanned_by_exclusive_lock": 0}
    for key in db.labels:
        c = E.ctxs.get(key)
        if c is None:
            continue
        f = c.fn
        events = [(ci, below(ck), ls) for (ci, ck, ls) in c.calls if (f.name, ci.id) not in db.st_edges]
        events = [e for e in events if e[1]]
        stats["frames"] += 1
        for (i1, acc1, ls1) in events:
            reads = defaultdict(list)
            for a in acc1:
                if a.mode == "r" and a.field not in (None, "<in>") and not a.field.startswith("*"):
                    reads[(a.region, a.field)].append(a)
            if not reads:
                continue
            for (i2, acc2, ls2) in events:
                if i2.id == i1.id:
                    continue
                # a modify-write stores a computed value: constant initialisations (entry creation) and container calls do not depend on the read
                cand = [a2 for a2 in acc2 if a2.mode == "w" and (a2.region, a2.field) in reads and a2.inst.op == "store" and
                        rules.const_of(a2.fn, a2.inst["val"]) is None and a2.inst["val"].get("k") == "inst" and a2.fn.insts[a2.inst["val"]["id"]].op != "call" and not _self_contained(db.w.P, a2)]
                if not cand:
                    continue
                if not rules.exists_path(f, i1, lambda x, i2=i2: x.id == i2.id, None):
                    continue
                stats["read_write_pairs"] += 1
                hit_args = _frame_flow(db.w.P, f, i1, i2)
                if not hit_args:
                    continue
                # the value must reach the store itself: follow the tainted argument positions down to the storing function
                g2 = db.w.P.functions.get(i2.callee or "")
                if g2 is not None and g2.blocks:
                    cand = [a2 for a2 in cand if any(param_flows_to_store(db.w.P, g2, j, a2.fn, a2.inst) for j in hit_args)]
                    if not cand:
                        continue
                stats["with_value_flow"] += 1
                for a2 in cand:
                    lock, _src = db.lock_of(a2.region)
                    if lock is None:
                        continue
                    if lock in _held(ls1) and lock in _held(ls2) and locks.ls_get(ls1, lock) in ("M", "W"):
                        continue
                    if _excl(ls1) & _excl(ls2):
                        stats["spanned_by_exclusive_lock"] += 1
                        continue
                    k = (f.name, i1.id, i2.id, a2.region, a2.field)
                    if k in seen:
                        continue
                    seen.add(k)
                    out.append((key, i1, i2, reads[(a2.region, a2.field)][0], a2, lock))
    return out, stats


def submit_then_write(db, constructors, region_pred):
    """[(ctx key, transmit call, lockset, write access, lockset)]: in a frame that runs concurrently with the receiver, a call that submits a message is
    followed (in CFG order) by a write to tracked state - in the frame itself or below a later call - and no lock is held exclusively at both points.
    The answer to the message can then be processed in between, and the late write overwrites what the answer recorded (lost update)."""
    E = db.E
    P = db.w.P
    by_ctx = defaultdict(list)
    for a in db.accesses:
        by_ctx[a.ctx].append(a)
    memo = {}

    def below(key, stack=()):
        if key in memo:
            return memo[key]
        if key in stack:
            return []
        out = list(by_ctx.get(key, ()))
        c = E.ctxs.get(key)
        if c is not None:
            for (ci, ck, ls) in c.calls:
                if (c.fn.name, ci.id) in db.st_edges:
                    continue
                out += below(ck, stack + (key,))
        memo[key] = out
        return out
    out = []
    seen = set()
    n = 0
    for key in db.labels:
        c = E.ctxs.get(key)
        if c is None:
            continue
        f = c.fn
        txs = [(ci, ls) for (ci, ck, ls) in c.calls if ci.callee in P.functions and (ci.callee in constructors or rules.call_reaches(P, ci, set(constructors)))]
        if not txs:
            continue
        n += 1
        later = []
        # only stores of the frame itself: a write below a later call belongs to another command of a composite routine (start-up sequence, initial
        # values), which this frame-local rule cannot relate to the earlier submit
        for a in by_ctx.get(key, ()):
            if a.mode == "w" and region_pred(a):
                later.append((a.inst, a.ls, a))
        for (t, ls1) in txs:
            for (pt, ls2, wa) in later:
                if pt.id == t.id:
                    continue
                if not rules.exists_path(f, t, lambda x, pt=pt: x.id == pt.id, None):
                    continue
                if _excl(ls1) & _excl(ls2):
                    continue
                k = (f.name, t.id, wa.region, wa.field)
                if k in seen:
                    continue
                seen.add(k)
                out.append((key, t, ls1, pt, ls2, wa))
    return out, n
