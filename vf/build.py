"""E0/E1: compile /repo's current working tree to LLVM IR, link, dump to a JSON program model.

Everything is rebuilt on every run into a scratch directory under /verif/.work (removed at exit).
"""
import atexit, glob, json, os, re, shutil, subprocess, sys, tempfile, time
from concurrent.futures import ThreadPoolExecutor

VERIF = os.path.dirname(os.path.dirname(os.path.abspath(__file__)))
REPO = os.environ.get("VERIF_REPO", "/repo")
IRDUMP = os.path.join(VERIF, "tools", "irdump")
GUARD = "UNIBA_SWT_LIBBIDIB_VERIF"


class AnalysisBroken(Exception):
    """exit 2: the analysis could not be carried out (never a pass, never a violation)."""


def _glib_flags():
    try:
        out = subprocess.check_output(["pkg-config", "--cflags", "glib-2.0"], text=True)
        return out.split()
    except Exception:
        return ["-I/usr/include/glib-2.0", "-I/usr/lib/x86_64-linux-gnu/glib-2.0/include"]


def cflags(repo=None):
    repo = repo or REPO
    return ["-std=gnu11", "-DNDEBUG", "-D" + GUARD, "-I" + os.path.join(repo, "include"), "-I" + os.path.join(repo, "src")] + _glib_flags()


def ensure_irdump():
    src = os.path.join(VERIF, "tools", "irdump.cc")
    if os.path.exists(IRDUMP) and os.path.getmtime(IRDUMP) >= os.path.getmtime(src):
        return
    cxx = subprocess.check_output(["llvm-config-14", "--cxxflags"], text=True).split()
    cmd = ["clang++"] + cxx + ["-fno-rtti", "-O1", src, "-o", IRDUMP, "/usr/lib/llvm-14/lib/libLLVM-14.so"]
    r = subprocess.run(cmd, capture_output=True, text=True)
    if r.returncode != 0:
        raise AnalysisBroken("cannot build irdump: " + r.stderr[-2000:])


def workdir():
    base = os.path.join(VERIF, ".work")
    os.makedirs(base, exist_ok=True)
    d = tempfile.mkdtemp(prefix="run%d_" % os.getpid(), dir=base)
    if not os.environ.get("VERIF_KEEP_WORK"):
        atexit.register(shutil.rmtree, d, True)
    return d


def source_units(repo=None):
    repo = repo or REPO
    units = sorted(glob.glob(os.path.join(repo, "src", "*", "*.c")))
    return units


def _compile(args):
    src, out, flags = args
    cmd = ["clang"] + flags + ["-O0", "-g", "-Xclang", "-disable-O0-optnone", "-emit-llvm", "-c", src, "-o", out, "-w"]
    r = subprocess.run(cmd, capture_output=True, text=True)
    if r.returncode != 0:
        return src, r.returncode, r.stderr
    # one JSON per unit: llvm-link would merge isomorphic struct types of different units
    # (t_bidib_track_output_state {char*, int} becomes _GArray), which destroys field identity
    r = subprocess.run([IRDUMP, out, out[:-3] + ".json"], capture_output=True, text=True)
    return src, r.returncode, r.stderr


def _rename_unit(d, ren):
    """apply internal-symbol renames inside one unit's JSON"""
    def opnd(o):
        if isinstance(o, dict):
            if o.get("k") in ("global", "func") and o.get("name") in ren:
                o["name"] = ren[o["name"]]
            if "g" in o and o["g"] in ren:
                o["g"] = ren[o["g"]]

    def walk_init(v):
        if isinstance(v, dict):
            opnd(v)
        elif isinstance(v, list):
            for x in v:
                walk_init(x)

    for g in d["globals"]:
        if g["name"] in ren:
            g["name"] = ren[g["name"]]
        if "init" in g:
            walk_init(g["init"])
    for f in d["functions"]:
        if f["name"] in ren:
            f["name"] = ren[f["name"]]
        for b in f["blocks"]:
            for i in b["insts"]:
                if i.get("callee") in ren:
                    i["callee"] = ren[i["callee"]]
                for k in ("ptr", "val", "a", "b", "base", "cond", "fptr", "count"):
                    opnd(i.get(k))
                for x in i.get("idx", ()):
                    opnd(x["v"])
                for x in i.get("args", ()):
                    opnd(x)
                for x in i.get("incoming", ()):
                    opnd(x[1])
                for x in i.get("operands", ()):
                    opnd(x)


def _shift_ditypes(d, base):
    if base == 0:
        return
    def sh(x):
        return x + base if isinstance(x, int) and x >= 0 else x
    for t in d["ditypes"]:
        t["id"] = sh(t["id"])
        if "base" in t:
            t["base"] = sh(t["base"])
        if "members" in t:
            t["members"] = [sh(m) for m in t["members"]]
    for g in d["globals"]:
        if "ditype" in g:
            g["ditype"] = sh(g["ditype"])
    for f in d["functions"]:
        if "ditypes" in f:
            f["ditypes"] = [sh(x) for x in f["ditypes"]]
        for p in f["params"]:
            if "ditype" in p:
                p["ditype"] = sh(p["ditype"])
        for b in f["blocks"]:
            for i in b["insts"]:
                if "ditype" in i:
                    i["ditype"] = sh(i["ditype"])


def merge_units(paths):
    """per-unit program models -> one whole-program model (internal symbols that collide are renamed per unit)"""
    units = []
    for p in paths:
        with open(p) as f:
            units.append(json.load(f))
    ext_defs = set()
    internal_count = {}
    for d in units:
        for g in d["globals"]:
            if not g["decl"]:
                if g["internal"]:
                    internal_count[g["name"]] = internal_count.get(g["name"], 0) + 1
                else:
                    ext_defs.add(g["name"])
        for f in d["functions"]:
            if f["internal"]:
                internal_count[f["name"]] = internal_count.get(f["name"], 0) + 1
            else:
                ext_defs.add(f["name"])
    merged = {"datalayout": units[0]["datalayout"], "globals": [], "functions": [], "decls": [], "structs": {}, "unit_structs": [], "ditypes": []}
    gseen = {}
    for u, d in enumerate(units):
        ren = {}
        for g in d["globals"]:
            if not g["decl"] and g["internal"] and (internal_count[g["name"]] > 1 or g["name"] in ext_defs):
                ren[g["name"]] = "%s.u%02d" % (g["name"], u)
        for f in d["functions"]:
            if f["internal"] and (internal_count[f["name"]] > 1 or f["name"] in ext_defs):
                ren[f["name"]] = "%s.u%02d" % (f["name"], u)
        if ren:
            _rename_unit(d, ren)
        _shift_ditypes(d, len(merged["ditypes"]))
        merged["ditypes"].extend(d["ditypes"])
        for g in d["globals"]:
            g["unit"] = u
            prev = gseen.get(g["name"])
            if prev is None:
                gseen[g["name"]] = g
            elif prev["decl"] and not g["decl"]:
                gseen[g["name"]] = g
        for f in d["functions"]:
            f["unit"] = u
            merged["functions"].append(f)
        merged["unit_structs"].append(d["structs"])
        for k, v in d["structs"].items():
            merged["structs"].setdefault(k, v)
    merged["globals"] = list(gseen.values())
    defined = {f["name"] for f in merged["functions"]}
    decls = set()
    for d in units:
        decls |= set(d["decls"])
    merged["decls"] = sorted(decls - defined)
    return merged


def build_model(repo=None, extra_sources=(), wd=None):
    """Returns (merged program model dict, dict with build facts)."""
    repo = repo or REPO
    t0 = time.time()
    ensure_irdump()
    wd = wd or workdir()
    units = source_units(repo)
    if not units:
        raise AnalysisBroken("no translation units under %s/src" % repo)
    flags = cflags(repo)
    jobs = []
    for i, u in enumerate(list(units) + list(extra_sources)):
        jobs.append((u, os.path.join(wd, "u%03d.bc" % i), flags + ["-I" + os.path.dirname(u)]))
    with ThreadPoolExecutor(max_workers=16) as ex:
        res = list(ex.map(_compile, jobs))
    bad = [(s, e) for s, rc, e in res if rc != 0]
    if bad:
        raise AnalysisBroken("units failed to compile: " + "; ".join("%s: %s" % (s, e[-600:]) for s, e in bad))
    merged = merge_units([j[1][:-3] + ".json" for j in jobs])
    facts = {"units": [os.path.relpath(u, repo) for u in units], "n_units": len(units),
             "extra": [os.path.basename(x) for x in extra_sources], "build_s": round(time.time() - t0, 2), "workdir": wd}
    return merged, facts


_macro_cache = {}


def macros(repo=None):
    """#define name -> int value for all object-like macros visible through bidib.h + intern headers."""
    repo = repo or REPO
    if repo in _macro_cache:
        return _macro_cache[repo]
    src = "#include <bidib.h>\n"
    for h in sorted(glob.glob(os.path.join(repo, "src", "*", "*.h"))):
        src += '#include "%s"\n' % h
    r = subprocess.run(["clang", "-E", "-dM", "-x", "c", "-"] + cflags(repo), input=src, capture_output=True, text=True)
    if r.returncode != 0:
        raise AnalysisBroken("macro extraction failed: " + r.stderr[-1000:])
    raw = {}
    for line in r.stdout.splitlines():
        m = re.match(r"#define\s+(\w+)\s+(.*)$", line)
        if m:
            raw[m.group(1)] = m.group(2).strip()
    vals = {}

    def ev(name, depth=0):
        if name in vals:
            return vals[name]
        if name not in raw or depth > 8:
            return None
        t = raw[name]
        t2 = re.sub(r"\b([A-Za-z_]\w*)\b", lambda m: str(ev(m.group(1), depth + 1)) if ev(m.group(1), depth + 1) is not None else m.group(1), t)
        t2 = re.sub(r"\b(0[xX][0-9a-fA-F]+|\d+)[uUlL]*\b", r"\1", t2)
        if re.fullmatch(r"[\s0-9a-fA-FxX()+\-*/|&<>~^]+", t2 or ""):
            try:
                v = eval(t2, {"__builtins__": {}})
                if isinstance(v, int):
                    vals[name] = v
                    return v
            except Exception:
                pass
        return None

    for k in raw:
        ev(k)
    _macro_cache[repo] = (vals, raw)
    return vals, raw


_api_cache = {}


def public_api(repo=None):
    """Names of functions declared in headers under <repo>/include, with header file and line.
    Uses clang's JSON AST of include/bidib.h (type-checked declarations, not text)."""
    repo = repo or REPO
    if repo in _api_cache:
        return _api_cache[repo]
    hdr = os.path.join(repo, "include", "bidib.h")
    r = subprocess.run(["clang", "-fsyntax-only", "-x", "c", "-Xclang", "-ast-dump=json", hdr] + cflags(repo),
                       capture_output=True, text=True)
    if r.returncode != 0 or not r.stdout:
        raise AnalysisBroken("AST dump of bidib.h failed: " + r.stderr[-1000:])
    ast = json.loads(r.stdout)
    inc = os.path.join(repo, "include") + os.sep
    last_file = [None]
    out = {}

    def see(loc):
        # clang prints "file" only when it changes; follow the same order it prints in
        if not isinstance(loc, dict):
            return
        for k in ("spellingLoc", "expansionLoc"):
            if k in loc:
                see(loc[k])
        if "file" in loc:
            last_file[0] = loc["file"]

    for d in ast.get("inner", []):
        loc = d.get("loc", {})
        see(loc)
        f_at_loc = last_file[0]
        line = loc.get("line") or loc.get("expansionLoc", {}).get("line")
        rng = d.get("range", {})
        see(rng.get("begin"))
        see(rng.get("end"))
        if d.get("kind") == "FunctionDecl" and f_at_loc and f_at_loc.startswith(inc):
            out[d["name"]] = {"header": os.path.relpath(f_at_loc, repo), "line": line, "type": d.get("type", {}).get("qualType")}
        # nested locs inside the decl may change the file too
        stack = list(d.get("inner", []))
        while stack:
            n = stack.pop(0)
            if isinstance(n, dict):
                see(n.get("loc"))
                r2 = n.get("range", {})
                see(r2.get("begin"))
                see(r2.get("end"))
                stack = list(n.get("inner", [])) + stack
    _api_cache[repo] = out
    return out
