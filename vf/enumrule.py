"""Enumeration getters: the containers whose length is used and the containers that are walked agree, and a two-pass getter counts and
fills under the same loop nesting and the same record tests.

(1) AGREE   in a function that both reads `X->len` of GArray containers and walks `X->data`, the two sets of containers are equal (a length
            taken from one list while another list is copied reports the wrong entities).
(2) PASSES  when the size of the result (`count`) is accumulated by `count++` in a first pass and the result is filled under `index++` in a
            second pass, both increments sit at the same loop depth and are guarded by tests of the same record fields (analysed with same-file
            static helpers inlined), so both passes select the same elements."""
from . import inline, rules


def containers(P, f):
    """(containers whose len is read, containers whose data is read): name -> [load insts]"""
    L, D = {}, {}
    for i in f.all_insts():
        if i.op != "load" or i["ptr"].get("k") != "inst":
            continue
        fp = rules.field_path_of_ptr(P, f, i["ptr"])
        if fp not in ("_GArray.len", "_GArray.data"):
            continue
        g = f.resolve(i["ptr"])
        name = None
        while g is not None and g.op in ("getelementptr", "bitcast"):
            b = g["base"] if g.op == "getelementptr" else g["a"]
            if b.get("k") != "inst":
                g = None
                break
            g = f.resolve(b)
        if g is not None and g.op == "load":
            if g["ptr"].get("k") == "global":
                gd = P.globals.get(g["ptr"]["name"]) or {}
                mem = None
                for (n, off, size, mt) in (P.di_members(gd.get("ditype", -1)) or []):
                    if off == (g["ptr"].get("off") or 0):
                        mem = n
                name = g["ptr"]["name"] + ("." + mem if mem else "")
            else:
                name = rules.field_path_of_ptr(P, f, g["ptr"])
                if name is None:
                    # a container pointer kept in a local (`GArray *list = cond ? a : b`): not named, skip the function
                    name = "?"
        (L if fp.endswith("len") else D).setdefault(name or "?", []).append(i)
    return L, D


def handed_over(P, f):
    """names of the containers whose GArray pointer is passed to a call (the callee walks the list)"""
    out = set()
    for c in f.calls():
        if (c.callee or "").startswith("llvm."):
            continue
        for a in c.args:
            if a.get("k") != "inst":
                continue
            g = f.resolve(rules.strip_casts(f, rules.resolve_local(f, a)))
            if g is None or g.op != "load":
                continue
            if g["ptr"].get("k") == "global":
                gd = P.globals.get(g["ptr"]["name"]) or {}
                mem = None
                for (n, off, size, mt) in (P.di_members(gd.get("ditype", -1)) or []):
                    if off == (g["ptr"].get("off") or 0):
                        mem = n
                out.add(g["ptr"]["name"] + ("." + mem if mem else ""))
            else:
                nm = rules.field_path_of_ptr(P, f, g["ptr"])
                if nm:
                    out.add(nm)
    return out


def _increments(f):
    out = {}
    for s in f.all_insts():
        if s.op == "store" and s["ptr"].get("k") == "inst" and f.insts[s["ptr"]["id"]].op == "alloca":
            v = f.resolve(rules.strip_casts(f, s["val"]))
            if v is not None and v.op == "add" and rules.const_of(f, v["b"]) == 1:
                src = rules.load_source(f, v["a"])
                if src and src[0] == "alloca" and src[1] == s["ptr"]["id"]:
                    out.setdefault(src[1], []).append(s)
    return out


def _depth(f, inst):
    return sum(1 for h, body in f.loops().items() if inst.bb.id in body)


def _guard_fields(P, f, inst, exclude):
    """record fields tested by the branch conditions that guard inst inside its loops; None when a condition depends on a call result or a
    local flag (a predicate helper): the signature is then not comparable"""
    loops = [body for h, body in f.loops().items() if inst.bb.id in body]
    if not loops:
        return frozenset()
    outer = max(loops, key=len)
    fields = set()
    opaque = False

    def walk(o, d=0, addr=False):
        """addr: the operand is (part of) an address computation - where the record comes from does not matter, only which fields are tested"""
        nonlocal opaque
        if o.get("k") != "inst" or d > 12:
            return
        i = f.insts[o["id"]]
        if i.op == "call":
            if not addr and not (i.callee or "").startswith("llvm."):
                opaque = True
            return
        if i.op == "phi":
            for (_, v) in i["incoming"]:
                walk(v, d + 1, addr)
            return
        if i.op == "load":
            p_ = i["ptr"]
            if p_.get("k") == "inst":
                a = f.insts[p_["id"]]
                if a.op == "alloca":
                    if a.id in exclude or addr:
                        return
                    o2 = rules.resolve_local(f, o)
                    if o2 != o:
                        walk(o2, d + 1, addr)
                    elif f.is_bool_alloca(a):
                        opaque = True
                    return
                if not addr:
                    fp = rules.field_path_of_ptr(P, f, p_)
                    if fp and not fp.startswith("_GArray.") and not fp.startswith("_GString."):
                        fields.add(fp)
                walk(p_, d + 1, True)
            return
        if i.op == "getelementptr":
            walk(i["base"], d + 1, True)
            return
        for k in ("a", "b"):
            if k in i.d and isinstance(i[k], dict):
                walk(i[k], d + 1, addr)
    for (gd, truth) in rules.conditions_at(f, inst):
        cnd = gd["cond"]
        if cnd.get("k") != "inst" or f.insts[cnd["id"]].bb.id not in outer:
            continue
        walk(gd["cond"])
    return None if opaque else frozenset(fields)


def passes(P, f0):
    """[(count cell name, [(depth, fields, inst)]), (index cell name, [...])] for a two-pass function, else None"""
    f = inline.expanded(P, f0.name)
    I = _increments(f)
    cnt = set()

    def feed(o, d=0):
        if o.get("k") != "inst" or d > 6:
            return
        i = f.insts[o["id"]]
        if i.op == "load":
            src = rules.load_source(f, o)
            if src and src[0] == "alloca":
                cnt.add(src[1])
            o2 = rules.resolve_local(f, o)
            if o2 != o:
                feed(o2, d + 1)
            return
        for k in ("a", "b"):
            if k in i.d and isinstance(i[k], dict):
                feed(i[k], d + 1)
    for c in f.calls("malloc"):
        feed(c.args[0])
    cnt = {c for c in cnt if c in I}
    if not cnt:
        return None
    idx = set()
    for s in f.all_insts():
        if s.op == "store" and s["ptr"].get("k") == "inst":
            g = f.resolve(s["ptr"])
            if g is not None and g.op == "getelementptr" and g["idx"]:
                ix = g["idx"][-1]["v"]
                src = rules.load_source(f, ix)
                if src is None and ix.get("k") == "inst":
                    # `ids[index++]`: the subscript is the value loaded before the increment
                    src = rules.load_source(f, ix)
                if src and src[0] == "alloca" and src[1] in I and src[1] not in cnt:
                    idx.add(src[1])
    if not idx:
        return None
    excl = cnt | idx
    def desc(cells):
        return [(f.insts[c].get("var") or "local", [(_depth(f, s), _guard_fields(P, f, s, excl), s) for s in I[c]]) for c in sorted(cells)]
    return desc(cnt), desc(idx)


def run(chk, P, rid, only, floor):
    chk.rule(rid, "enumeration getters: the containers whose length sizes the result are the containers that are walked, and the counting and the filling pass of a "
                  "two-pass getter increment under the same loop nesting and the same record tests")
    n = 0
    for f in P.repo_functions():
        if not f.blocks or not only(f):
            continue
        L, D = containers(P, f)
        if L and D and "?" not in L and "?" not in D:
            n += 1
            # a list handed to / walked by a helper counts as walked here (and its length as used)
            cl, cd = set(), set()
            seen_ = {f.name}
            work = [(f, 0)]
            while work:
                g_, dp = work.pop()
                for c_ in g_.calls():
                    h_ = P.functions.get(c_.callee or "")
                    if h_ is not None and h_.blocks and h_.name not in seen_ and dp < 2:
                        seen_.add(h_.name)
                        l2, d2 = containers(P, h_)
                        cl |= set(l2)
                        cd |= set(d2)
                        work.append((h_, dp + 1))
            cd |= handed_over(P, f)
            L = {k: v for k, v in L.items() if k in D or k not in cd}
            D = {k: v for k, v in D.items() if k in L or k not in cl}
            if set(L) == set(D):
                chk.ok(rid, 1, {"function": f.name, "containers": sorted(L)} if n % 5 == 0 else None)
            else:
                for nm in sorted(set(L) - set(D)):
                    i = L[nm][0]
                    chk.violation(rid, f.name, "len-only:%s" % nm, i.loc(), "%s uses the length of %s (line %d) but never walks that list, while it walks %s: the result is sized or "
                                  "suppressed by a list other than the one it reports" % (f.name, nm, i.line, ", ".join(sorted(D))))
                for nm in sorted(set(D) - set(L)):
                    i = D[nm][0]
                    chk.violation(rid, f.name, "data-only:%s" % nm, i.loc(), "%s walks %s (line %d) without using its length, while the lengths it uses are those of %s" % (
                        f.name, nm, i.line, ", ".join(sorted(L))))
        r = passes(P, f)
        if r:
            cnt, idx = r
            n += 1
            cd = sorted({d for nm, l in cnt for (d, fl, s) in l})
            fd = sorted({d for nm, l in idx for (d, fl, s) in l})
            cf = [fl for nm, l in cnt for (d, fl, s) in l]
            ff = [fl for nm, l in idx for (d, fl, s) in l]
            first = idx[0][1][0][2]
            if cd != fd:
                chk.violation(rid, f.name, "passes:depth", first.loc(), "%s counts its result at loop depth %s but fills it at loop depth %s (helpers inlined): the two passes do not "
                              "select the same elements, entries are missing from or duplicated in the result" % (f.name, cd, fd))
            elif None not in cf and None not in ff and set(cf) != set(ff):
                chk.violation(rid, f.name, "passes:tests", first.loc(), "%s counts under tests of %s but fills under tests of %s: the two passes select different elements" % (
                    f.name, sorted(map(sorted, set(cf))), sorted(map(sorted, set(ff)))))
            else:
                chk.ok(rid, 1, {"function": f.name, "two_pass": True, "depth": cd})
    chk.floor(rid.lower().replace("-", "_") + "_functions", n, floor)
