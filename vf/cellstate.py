"""Path-sensitive abstract interpretation of a handful of scalar locals ("cells") of one function.

Every cell holds ('c', n) (the constant n), ('ne', n) (known to differ from n) or 'T' (overwritten with a computed value).  The
function is explored as a graph of (block, state) pairs: branch conditions over a cell refine the state or make an edge infeasible, so
correlations between cells (index == 0 implies accumulator == 0) survive as the set of reachable states.  Used for per-packet framing
state (C02-STATE)."""
from . import rules

T = "T"


class Truncated(Exception):
    pass


class CellWalk:
    def __init__(self, f, cells, max_states=60000):
        """cells: alloca id -> {'bool': bool}"""
        self.f = f
        self.cells = dict(cells)
        self.order = sorted(self.cells)
        self.pos = {c: k for k, c in enumerate(self.order)}
        self.max_states = max_states

    # ---------------------------------------------------------------- values
    def cell_of_ptr(self, o):
        if o.get("k") == "inst" and o["id"] in self.cells:
            return o["id"]
        return None

    def _norm(self, c, v):
        if v != T and self.cells[c].get("bool"):
            if v[0] == "c":
                return ("c", 1 if v[1] & 1 else 0)
            if v[0] == "ne" and v[1] in (0, 1):
                return ("c", 1 - v[1])
        return v

    def eval(self, o, st, depth=0):
        f = self.f
        cv = rules.const_of(f, o)
        if cv is not None:
            return ("c", cv)
        if o.get("k") != "inst" or depth > 8:
            return T
        i = f.insts[o["id"]]
        if i.op == "phi":
            for (pid_, pv_) in st[3]:
                if pid_ == i.id:
                    return ("c", pv_)
            return T
        if i.op == "load":
            c = self.cell_of_ptr(i["ptr"])
            if c is not None:
                return st[0][self.pos[c]]
            return T
        if i.op in ("zext", "sext"):
            return self.eval(i["a"], st, depth + 1)
        if i.op == "trunc":
            v = self.eval(i["a"], st, depth + 1)
            if v != T and v[0] == "c" and i.get("ty") == "i1":
                return ("c", v[1] & 1)
            if v != T and v[0] == "c":
                return v
            return v if i.get("ty") == "i1" and v != T and v[0] == "ne" and v[1] == 0 and self._is_boolish(i["a"]) else T
        if i.op == "add":
            a = self.eval(i["a"], st, depth + 1)
            k = rules.const_of(f, i["b"])
            if a == T or k is None or k <= 0 or k > 64:
                return T
            if a[0] == "c":
                n = a[1] + k
                return ("c", n) if 0 <= n <= 2 else ("ne", 0)
            if a[0] == "ne" and a[1] == 0:
                src = self._cell_of_value(i["a"])
                if src is not None and src in st[1]:
                    return ("ne", 0)
            return T
        if i.op == "icmp":
            r = self._decide_icmp(i, st)
            if r is not None:
                return ("c", 1 if r else 0)
            return T
        if i.op == "xor":
            k = rules.const_of(f, i["b"])
            a = self.eval(i["a"], st, depth + 1)
            if k in (1, -1) and a != T and a[0] == "c" and a[1] in (0, 1):
                return ("c", 1 - a[1])
            return T
        return T

    def _is_boolish(self, o):
        c = self._cell_of_value(o)
        return c is not None and self.cells[c].get("bool")

    def _cell_of_value(self, o):
        """the cell whose load (through casts) the operand is"""
        f = self.f
        for _ in range(6):
            if o.get("k") != "inst":
                return None
            i = f.insts[o["id"]]
            if i.op == "load":
                return self.cell_of_ptr(i["ptr"])
            if i.op in ("zext", "sext", "trunc", "bitcast"):
                o = i["a"]
                continue
            return None
        return None

    def _decide_icmp(self, i, st):
        a = self.eval(i["a"], st, 1)
        b = self.eval(i["b"], st, 1)
        if a == T or b == T:
            return None
        p = i["pred"]
        if a[0] == "c" and b[0] == "c":
            x, y = a[1], b[1]
            return {"eq": x == y, "ne": x != y, "ult": x < y, "ule": x <= y, "ugt": x > y, "uge": x >= y,
                    "slt": x < y, "sle": x <= y, "sgt": x > y, "sge": x >= y}.get(p)
        if p in ("eq", "ne"):
            if a[0] == "ne" and b[0] == "c" and a[1] == b[1]:
                return p == "ne"
            if b[0] == "ne" and a[0] == "c" and a[1] == b[1]:
                return p == "ne"
        return None

    # ---------------------------------------------------------------- refinement
    def refine(self, o, truth, st, depth=0):
        """state after the i1 operand o was found to be `truth`; None when that is impossible"""
        f = self.f
        if o.get("k") != "inst" or depth > 8:
            cv = rules.const_of(f, o)
            if cv is not None:
                return st if bool(cv & 1) == truth else None
            return st
        i = f.insts[o["id"]]
        if i.op == "phi":
            for (pid_, pv_) in st[3]:
                if pid_ == i.id:
                    return st if bool(pv_) == truth else None
            return st
        if i.op in ("zext", "sext", "trunc"):
            c = self._cell_of_value(o)
            if c is not None:
                return self._refine_cmp(c, "ne", 0, truth, st)
            return self.refine(i["a"], truth, st, depth + 1)
        if i.op == "load":
            c = self.cell_of_ptr(i["ptr"])
            if c is not None:
                return self._refine_cmp(c, "ne", 0, truth, st)
            return st
        if i.op == "xor" and rules.const_of(f, i["b"]) in (1, -1):
            return self.refine(i["a"], not truth, st, depth + 1)
        if i.op == "icmp":
            p = i["pred"]
            a, b = i["a"], i["b"]
            kb = rules.const_of(f, b)
            if kb is None and rules.const_of(f, a) is not None:
                a, b, kb = b, a, rules.const_of(f, a)
                p = {"ult": "ugt", "ule": "uge", "ugt": "ult", "uge": "ule", "slt": "sgt", "sle": "sge", "sgt": "slt", "sge": "sle"}.get(p, p)
            if kb is None and b.get("k") != "null":
                return st
            if kb is None:
                kb = 0
            c = self._cell_of_value(a)
            if c is not None:
                return self._refine_cmp(c, p, kb, truth, st)
            # (i1 expression) ==/!= 0
            if p in ("eq", "ne") and kb == 0:
                return self.refine(a, (p == "ne") == truth, st, depth + 1)
            return st
        return st

    def _refine_cmp(self, c, pred, n, truth, st):
        vals, bounded, tag = st[:3]
        k = self.pos[c]
        v = vals[k]
        if not truth:
            pred = {"eq": "ne", "ne": "eq", "ult": "uge", "ule": "ugt", "ugt": "ule", "uge": "ult",
                    "slt": "sge", "sle": "sgt", "sgt": "sle", "sge": "slt"}[pred]
        if self.cells[c].get("bool") and pred in ("eq", "ne") and n in (0, 1):
            want = n if pred == "eq" else 1 - n
            if v != T and v[0] == "c":
                return st if v[1] == want else None
            return (vals[:k] + (("c", want),) + vals[k + 1:], bounded, tag) + st[3:]
        if v != T and v[0] == "c":
            x = v[1]
            ok = {"eq": x == n, "ne": x != n, "ult": x < n, "ule": x <= n, "ugt": x > n, "uge": x >= n,
                  "slt": x < n, "sle": x <= n, "sgt": x > n, "sge": x >= n}[pred]
            return st if ok else None
        if pred == "eq":
            if v != T and v[0] == "ne" and v[1] == n:
                return None
            return (vals[:k] + (("c", n),) + vals[k + 1:], bounded, tag) + st[3:]
        if pred == "ne":
            if v == T:
                return (vals[:k] + (("ne", n),) + vals[k + 1:], bounded, tag) + st[3:]
            return st
        if pred in ("ult", "ule", "slt", "sle"):
            if pred in ("ult", "slt") and n == 0:
                return None
            if pred in ("ule", "sle") and n == 0:
                if v != T and v[0] == "ne" and v[1] == 0:
                    return None
                return (vals[:k] + (("c", 0),) + vals[k + 1:], bounded, tag) + st[3:]
            return (vals, bounded | {c}, tag) + st[3:]
        if pred in ("ugt", "uge", "sgt", "sge"):
            lo = n + 1 if pred in ("ugt", "sgt") else n
            if lo >= 1 and v == T:
                return (vals[:k] + (("ne", 0),) + vals[k + 1:], bounded, tag) + st[3:]
            return st
        return st

    # ---------------------------------------------------------------- exploration
    def run(self, tag0, on_inst, on_edge):
        """on_inst(inst, state) -> new tag or None (keep); on_edge(block, succ_label, state) -> new tag or None (keep).
        Returns the number of (block, state) pairs explored."""
        f = self.f
        st0 = (tuple(T for _ in self.order), frozenset(), tag0, ())
        entry = f.blocks[0]
        seen = set()
        work = [(entry.id, st0)]
        self.parent = {}
        while work:
            lbl, st = work.pop()
            if (lbl, st) in seen:
                continue
            seen.add((lbl, st))
            if len(seen) > self.max_states:
                raise Truncated()
            b = f.bmap[lbl]
            key = (lbl, st)
            for inst in b.insts:
                if inst.op == "store":
                    c = self.cell_of_ptr(inst["ptr"])
                    if c is not None:
                        v = self._norm(c, self.eval(inst["val"], st))
                        k = self.pos[c]
                        st = (st[0][:k] + (v,) + st[0][k + 1:], st[1] - {c}, st[2]) + st[3:]
                nt = on_inst(inst, st, key)
                if nt is not None:
                    st = (st[0], st[1], nt) + st[3:]
            t = b.term
            succs = []
            if t.op == "br" and "cond" in t.d and t["t"] != t.get("f"):
                for truth, s in ((True, t["t"]), (False, t["f"])):
                    ns = self.refine(t["cond"], truth, st)
                    if ns is not None:
                        succs.append((s, ns))
            elif t.op == "br":
                for s in b.succ[:1]:
                    succs.append((s, st))
            elif t.op == "switch":
                c = self._cell_of_value(t["cond"])
                v = st[0][self.pos[c]] if c is not None else T
                labels = []
                for cv, cl in t["cases"]:
                    if v != T and v[0] == "c" and v[1] != cv:
                        continue
                    labels.append(cl)
                if not (v != T and v[0] == "c" and any(cv == v[1] for cv, cl in t["cases"])):
                    labels.append(t["default"])
                for s in dict.fromkeys(labels):
                    succs.append((s, st))
            elif t.op not in ("ret", "unreachable"):
                for s in b.succ:
                    succs.append((s, st))
            for s, ns in succs:
                nt = on_edge(b, s, ns)
                if nt is not None:
                    ns = (ns[0], ns[1], nt) + ns[3:]
                # i1 phis of the successor whose incoming value on this edge is decided (`a && b` leaves through a phi)
                ph = []
                for x in f.bmap[s].insts:
                    if x.op != "phi":
                        break
                    for (pb, pv) in x["incoming"]:
                        if pb == b.id:
                            v = self.eval(pv, ns)
                            if v != T and v[0] == "c":
                                ph.append((x.id, v[1] & 1))
                ns = ns[:3] + (tuple(ph),)
                if (s, ns) not in seen:
                    self.parent.setdefault((s, ns), key)
                    work.append((s, ns))
        return len(seen)
