"""E5 helper: path-sensitive walk of one function with constant propagation over non-escaping integer locals.

The walk enumerates abstract paths: state = (block, predecessor, user state, facts) where facts maps tracked local cells to
known integer constants.  A conditional branch whose condition evaluates to a constant is followed on that edge only;
a truth test of an *unknown* tracked cell forks and records the assumed value (so repeated tests of the same flag are
correlated).  Everything else follows both edges.  The user state is any hashable value updated by a callback per
instruction; the callback may fork (return several states) or kill the path (return []).
"""
from collections import deque

from .locks import operands

INT_TYPES = ("i1", "i8", "i16", "i32", "i64")


def tracked_cells(fn, types=INT_TYPES):
    cand = {}
    for a in fn.allocas().values():
        if a["aty"] in types and "size" in a:
            cand[a.id] = a
    for i in fn.all_insts():
        for k, o in operands(i):
            if o.get("k") == "inst" and o["id"] in cand:
                if i.op in ("load", "store") and k == "ptr":
                    continue
                cand.pop(o["id"], None)
    return cand


def _cmp(pred, a, b, w):
    def u(x):
        return x & ((1 << w) - 1)

    def s(x):
        x = u(x)
        return x - (1 << w) if x >> (w - 1) else x
    return {
        "eq": u(a) == u(b), "ne": u(a) != u(b),
        "ult": u(a) < u(b), "ule": u(a) <= u(b), "ugt": u(a) > u(b), "uge": u(a) >= u(b),
        "slt": s(a) < s(b), "sle": s(a) <= s(b), "sgt": s(a) > s(b), "sge": s(a) >= s(b),
    }.get(pred)


def _ft(d):
    return tuple(sorted(d.items(), key=lambda kv: repr(kv[0])))


def _width(ty):
    if ty.startswith("i") and ty[1:].isdigit():
        return int(ty[1:])
    return 64


class Fork:
    """result item of on_inst that also updates facts: Fork(user_state, {key: value or None})"""
    __slots__ = ("u", "delta")

    def __init__(self, u, delta):
        self.u = u
        self.delta = delta


class Walker:
    def __init__(self, fn, cells=None, fork_cells=None, argvals=None, max_states=200000):
        self.fn = fn
        self.cells = tracked_cells(fn) if cells is None else cells
        self.fork_cells = set(self.cells) if fork_cells is None else set(fork_cells)
        self.argvals = argvals or {}
        self.max_states = max_states
        self.truncated = False

    def ev(self, o, facts, pred=None, depth=0):
        k = o.get("k")
        if k == "const":
            return o["v"]
        if k == "null":
            return 0
        if k == "arg":
            return self.argvals.get(o["i"])
        if k != "inst" or depth > 10:
            return None
        i = self.fn.insts[o["id"]]
        op = i.op
        if op in ("zext",):
            v = self.ev(i["a"], facts, pred, depth + 1)
            return None if v is None else v & ((1 << _width(i["fromty"])) - 1)
        if op in ("sext", "trunc"):
            v = self.ev(i["a"], facts, pred, depth + 1)
            if v is None:
                return None
            w = _width(i["ty"]) if op == "trunc" else _width(i["fromty"])
            v &= (1 << w) - 1
            if op == "sext" and v >> (w - 1):
                v -= 1 << w
            return v
        if op == "load":
            p = i["ptr"]
            if p.get("k") == "inst" and p["id"] in self.cells:
                return facts.get(p["id"])
            return None
        if op == "icmp":
            a = self.ev(i["a"], facts, pred, depth + 1)
            b = self.ev(i["b"], facts, pred, depth + 1)
            if a is None or b is None:
                return None
            r = _cmp(i["pred"], a, b, _width(i["opty"]) if i["opty"].startswith("i") else 64)
            return None if r is None else int(r)
        if op in ("xor", "and", "or", "add", "sub", "mul", "urem", "srem", "udiv", "sdiv", "shl", "lshr", "ashr"):
            a = self.ev(i["a"], facts, pred, depth + 1)
            b = self.ev(i["b"], facts, pred, depth + 1)
            if op == "and" and (a == 0 or b == 0):
                return 0
            if a is None or b is None:
                return None
            w_ = _width(i["ty"])
            if op in ("urem", "udiv", "lshr"):
                a &= (1 << w_) - 1
                b &= (1 << w_) - 1
            if op in ("urem", "srem", "udiv", "sdiv") and b == 0:
                return None
            if op in ("srem", "sdiv"):
                q = abs(a) // abs(b) * (1 if (a >= 0) == (b >= 0) else -1)
                return q if op == "sdiv" else a - q * b
            return {"xor": a ^ b, "and": a & b, "or": a | b, "add": a + b, "sub": a - b, "mul": a * b, "urem": a % b if b else 0,
                    "udiv": a // b if b else 0, "shl": a << (b & 63), "lshr": a >> (b & 63), "ashr": a >> (b & 63)}[op]
        if op == "phi" and pred is not None and i.bb.id == self._cur_bb:
            for b, v in i["incoming"]:
                if b == pred:
                    return self.ev(v, facts, None, depth + 1)
            return None
        if op == "call":
            # a call result whose value a client recorded with Fork(.., {("ret", id): v})
            return facts.get(("ret", i.id))
        if op == "select":
            c = self.ev(i["cond"], facts, pred, depth + 1)
            if c is None:
                return None
            return self.ev(i["a"] if c & 1 else i["b"], facts, pred, depth + 1)
        return None

    def root_cell(self, o, depth=0):
        if o.get("k") != "inst" or depth > 6:
            return None
        i = self.fn.insts[o["id"]]
        if i.op in ("trunc", "zext"):
            return self.root_cell(i["a"], depth + 1)
        if i.op == "load":
            p = i["ptr"]
            if p.get("k") == "inst" and p["id"] in self.fork_cells:
                return (p["id"], 1)
            return None
        if i.op == "icmp" and i["pred"] in ("eq", "ne") and ((i["b"].get("k") == "const" and i["b"]["v"] == 0) or i["b"].get("k") == "null"):
            r = self.root_cell(i["a"], depth + 1)
            if r:
                return (r[0], r[1] if i["pred"] == "ne" else 1 - r[1])
            return None
        if i.op == "xor" and i["b"].get("k") == "const" and i["b"]["v"] in (1, -1):
            r = self.root_cell(i["a"], depth + 1)
            if r:
                return (r[0], 1 - r[1])
        return None

    def walk(self, ustate0, on_inst, on_exit=None, facts0=None, on_edge=None):
        """on_inst(inst, ustate, facts) -> iterable of new user states (or None for 'unchanged')
           on_exit(ret_inst, ustate, facts)
           on_edge(branch_inst, succ, ustate, facts) -> ustate or None to prune"""
        fn = self.fn
        start = (fn.blocks[0].id, None, ustate0, _ft(facts0 or {}))
        seen = {start}
        work = deque([start])
        n = 0
        while work:
            bid, pred, us, ft = work.popleft()
            n += 1
            if n > self.max_states:
                self.truncated = True
                break
            self._cur_bb = bid
            bb = fn.bmap[bid]
            states = [(us, dict(ft))]
            for inst in bb.insts[:-1] if bb.insts else []:
                nxt = []
                for (u, facts) in states:
                    if inst.op == "store":
                        p = inst["ptr"]
                        if p.get("k") == "inst" and p["id"] in self.cells:
                            v = self.ev(inst["val"], facts, pred)
                            facts = dict(facts)
                            if v is None:
                                facts.pop(p["id"], None)
                            else:
                                facts[p["id"]] = v
                    r = on_inst(inst, u, facts)
                    if r is None:
                        nxt.append((u, facts))
                    else:
                        for u2 in r:
                            if isinstance(u2, Fork):
                                f2 = dict(facts)
                                for k_, v_ in u2.delta.items():
                                    if v_ is None:
                                        f2.pop(k_, None)
                                    else:
                                        f2[k_] = v_
                                nxt.append((u2.u, f2))
                            else:
                                nxt.append((u2, facts))
                states = nxt
                if not states:
                    break
            term = bb.term
            for (u, facts) in states:
                r = on_inst(term, u, facts)
                us_list = [u] if r is None else list(r)
                for u in us_list:
                    if term.op == "ret":
                        if on_exit:
                            on_exit(term, u, facts)
                        continue
                    if term.op == "unreachable":
                        continue
                    ft2 = _ft(facts)
                    succs = None
                    if term.op == "br" and "cond" in term.d:
                        v = self.ev(term["cond"], facts, pred)
                        if v is not None:
                            succs = [(term["t"] if v & 1 else term["f"], ft2)]
                        else:
                            rc = self.root_cell(term["cond"])
                            if rc is not None and rc[0] not in facts:
                                # a bool cell is 0/1; for a wider cell only "== 0" is a value
                                isbool = self.fn.is_bool_alloca(self.cells[rc[0]])
                                f1 = dict(facts); f0 = dict(facts)
                                if rc[1] == 1:
                                    f0[rc[0]] = 0
                                    if isbool:
                                        f1[rc[0]] = 1
                                else:
                                    f1[rc[0]] = 0
                                    if isbool:
                                        f0[rc[0]] = 1
                                succs = [(term["t"], _ft(f1)), (term["f"], _ft(f0))]
                    elif term.op == "switch":
                        v = self.ev(term["cond"], facts, pred)
                        if v is not None:
                            tgt = term["default"]
                            for cv, cb in term["cases"]:
                                if cv == v:
                                    tgt = cb
                            succs = [(tgt, ft2)]
                    if succs is None:
                        succs = [(s, ft2) for s in dict.fromkeys(bb.succ)]
                    for s, f in succs:
                        u2 = u
                        if on_edge:
                            u2 = on_edge(term, s, u, dict(f))
                            if u2 is None:
                                continue
                        st = (s, bid, u2, f)
                        if st not in seen:
                            seen.add(st)
                            work.append(st)
        return n


def flag_cells(fn):
    """locals suitable for exact tracking without unbounded growth: _Bool locals, result slots, pointer locals (NULL / not NULL) and integer or
    enum locals that are only ever assigned constants (status codes such as `check = BOARD_NOT_CONNECTED;`)"""
    out = {}
    cand = {}
    for a in fn.allocas().values():
        if "size" in a.d and (a["aty"] in INT_TYPES or a["aty"].endswith("*")) and (a.get("size") or 0) <= 8:
            cand[a.id] = a
    stores = {}
    for i in fn.all_insts():
        for k, o in operands(i):
            if o.get("k") == "inst" and o["id"] in cand:
                if i.op in ("load", "store") and k == "ptr":
                    if i.op == "store":
                        stores.setdefault(o["id"], []).append(i)
                    continue
                cand.pop(o["id"], None)
    for aid, a in cand.items():
        if fn.is_bool_alloca(a) or a["aty"] == "i1" or a["aty"].endswith("*"):
            out[aid] = a
        elif all(s_["val"].get("k") == "const" for s_ in stores.get(aid, [])) and stores.get(aid):
            out[aid] = a
    return out


def guard_on_all_paths(fn, sink, edge_establishes, max_states=150000):
    """path-sensitive guard check: True when on every feasible path (constants propagated through flag/status/pointer locals) that reaches
    `sink`, a branch edge for which edge_establishes(branch inst, successor block id, facts) is true was taken before; False if some
    path reaches the sink without it; None when the walk was truncated"""
    bad = []

    def on_inst(i, u, facts):
        if i.id == sink.id and not u:
            bad.append(i)
            return []
        return None

    def on_edge(br, succ, u, facts):
        if not u and edge_establishes(br, succ, facts):
            return True
        return u
    W = Walker(fn, cells=flag_cells(fn), max_states=max_states)
    W.walk(False, on_inst, on_edge=on_edge)
    if W.truncated:
        return None
    return not bad
