"""E5: path-rule helpers over the CFG at instruction granularity."""
from collections import deque

from . import flow
from .build import AnalysisBroken


def reach_fns(P, name, _cache={}):
    key = (id(P), name)
    r = _cache.get(key)
    if r is None:
        r = P.reachable_functions([name]) if name in P.functions else {name}
        # external callees are not in reachable_functions: add direct external names
        ext = set()
        for n in list(r):
            f = P.functions.get(n)
            if f:
                for i in f.calls():
                    if i.callee and i.callee not in P.functions:
                        ext.add(i.callee)
        r = r | ext
        _cache[key] = r
    return r


def call_reaches(P, call, targets):
    """does this call instruction (transitively) reach a function in targets?"""
    if not call.callee:
        return False
    if call.callee in targets:
        return True
    return bool(reach_fns(P, call.callee) & set(targets))


def calls_reaching(P, fn, targets):
    return [i for i in fn.calls() if call_reaches(P, i, targets)]


def succ_insts(fn, inst):
    """instruction-level successors"""
    bb = inst.bb
    if inst.idx + 1 < len(bb.insts):
        return [bb.insts[inst.idx + 1]]
    return [fn.bmap[s].insts[0] for s in bb.succ]


def exists_path(fn, start, goal, avoid, include_start=False, max_steps=200000):
    """path search; in a function that contains inlined helper bodies a path found by the plain search is confirmed by a search that
    propagates constants through _Bool locals and result slots (an inlined `return false;` followed by `if (!helper()) return;` in the
    caller is then not mistaken for a path into the code after the test)"""
    p = _exists_path_plain(fn, start, goal, avoid, include_start, max_steps)
    if p is None or not getattr(fn, "has_inlined", None):
        return p
    ok = _exists_path_sensitive(fn, start, goal, avoid, include_start)
    return p if ok else None


def _exists_path_sensitive(fn, start, goal, avoid, include_start):
    from . import pathwalk
    from .pending import bool_cells
    found = []
    sid = None if start is None else start.id

    def on_inst(i, u, facts):
        if found:
            return []
        if u == 0:
            if sid is None or i.id == sid:
                u = 1
                if sid is not None and not include_start:
                    return [1]
            else:
                return None
        if avoid is not None and avoid(i):
            return []
        if (goal == "exit" and i.op == "ret") or (goal != "exit" and goal(i)):
            found.append(i)
            return []
        return [u]
    W = pathwalk.Walker(fn, cells=bool_cells(fn), max_states=120000)
    W.walk(0 if sid is not None else 1, on_inst) if sid is not None else W.walk(0, on_inst)
    if W.truncated:
        return True
    return bool(found)


def _exists_path_plain(fn, start, goal, avoid, include_start=False, max_steps=200000):
    """Is there a path from `start` (exclusive unless include_start) to an instruction satisfying goal(inst)
    (or to a return when goal == 'exit') that passes no instruction satisfying avoid(inst)?
    Returns the list of instructions of one such path or None."""
    if start is None:
        first = [fn.blocks[0].insts[0]]
    else:
        first = [start] if include_start else succ_insts(fn, start)
    seen = set()
    dq = deque()
    for f in first:
        dq.append((f, None))
    parent = {}
    n = 0
    while dq:
        i, par = dq.popleft()
        if i.id in seen:
            continue
        seen.add(i.id)
        parent[i.id] = par
        n += 1
        if n > max_steps:
            raise AnalysisBroken("path search exceeded budget in %s" % fn.name)
        if avoid is not None and avoid(i):
            continue
        hit = (i.op == "ret") if goal == "exit" else goal(i)
        if hit:
            path = []
            c = i
            while c is not None:
                path.append(c)
                c = parent.get(c.id)
            return list(reversed(path))
        for s in succ_insts(fn, i):
            if s.id not in seen:
                dq.append((s, i))
    return None


def path_text(path, limit=14):
    out = []
    last = None
    for i in path:
        if i.line and i.line != last:
            out.append(i.line)
            last = i.line
    if len(out) > limit:
        out = out[:limit // 2] + ["..."] + out[-limit // 2:]
    return "lines " + " > ".join(str(x) for x in out)


def load_source(fn, o):
    """operand that is a load (through casts/zext) -> ('alloca', id) | ('global', name) | ('ptr', inst id)"""
    for _ in range(6):
        if o.get("k") != "inst":
            return None
        i = fn.insts[o["id"]]
        if i.op in ("zext", "sext", "trunc", "bitcast"):
            o = i["a"]
            continue
        if i.op == "load":
            p = i["ptr"]
            if p.get("k") == "global":
                return ("global", p["name"], p.get("off", 0))
            if p.get("k") == "inst":
                q = fn.insts[p["id"]]
                if q.op == "alloca":
                    return ("alloca", q.id)
                return ("ptr", q.id)
        return None
    return None


def edge_dominates(fn, branch_bb, succ, inst):
    """the edge branch_bb -> succ dominates inst: succ dominates inst's block and succ is entered only from branch_bb"""
    sb = fn.bmap[succ]
    if set(sb.pred) != {branch_bb}:
        return False
    return succ == inst.bb.id or succ in fn.dom().get(inst.bb.id, ())


class Guard:
    """a condition known to hold (truth) at some instruction: g["cond"] is the i1 operand"""
    __slots__ = ("cond", "branch")

    def __init__(self, cond, branch):
        self.cond = cond
        self.branch = branch

    def __getitem__(self, k):
        if k == "cond":
            return self.cond
        return self.branch[k]


def _implied(fn, cond, truth, term_bb, out, depth=0):
    """record (cond, truth) and what it implies through short-circuit phis:  phi [false, A], [x, B] being true means
    control came through B with x true (so B's own dominating guards hold as well)"""
    out.append((Guard(cond, None), truth))
    if depth > 4:
        return
    i = fn.resolve(cond)
    # `const bool ready = a() && b <= c;  if (ready)`: continue with the value the single-assignment local was given
    j = fn.resolve(strip_casts(fn, cond))
    if j is not None and j.op == "load":
        o2 = resolve_local(fn, {"k": "inst", "id": j.id})
        k = fn.resolve(o2)
        if k is not None and k.id != j.id and k.op in ("phi", "icmp", "call", "xor"):
            _implied(fn, o2, truth, term_bb, out, depth + 1)
            return
        # `bool ok = false; if (a) { if (b) { ok = c <= d; } }  if (ok)`: a flag with constant-false stores and exactly one computed store.  The flag
        # being true means that store ran with a true value: the stored condition and the guards of that store hold (nothing between the store and
        # the test can have invalidated them more than it could for a nested `if`).
        if truth and k is not None and k.id == j.id and j["ptr"].get("k") == "inst" and fn.insts[j["ptr"]["id"]].op == "alloca" and not _escapes(fn, fn.insts[j["ptr"]["id"]]):
            sts = [x for x in fn.all_insts() if x.op == "store" and x["ptr"].get("k") == "inst" and x["ptr"]["id"] == j["ptr"]["id"]]
            comp = [x for x in sts if const_of(fn, x["val"]) is None]
            if len(comp) == 1 and all((const_of(fn, x["val"]) & 1) == 0 for x in sts if x is not comp[0]):
                sv = strip_casts(fn, comp[0]["val"])
                si = fn.resolve(sv)
                if si is not None and si.op in ("phi", "icmp", "call", "xor", "load"):
                    _implied(fn, sv, True, comp[0].bb.id, out, depth + 1)
                    for (g, t) in branch_conditions(fn, comp[0], depth + 1):
                        out.append((g, t))
                    return
    if _flag_test(fn, cond, truth, out, depth):
        return
    if i is not None and i.op == "phi" and i["ty"] == "i1":
        want = 1 if truth else 0
        alive = []
        for b, v in i["incoming"]:
            c = v.get("v") if v.get("k") == "const" else None
            if c is not None and (c & 1) != want:
                continue
            alive.append((b, v))
        if len(alive) == 1:
            b, v = alive[0]
            if v.get("k") != "const":
                _implied(fn, v, truth, b, out, depth + 1)
            # guards of the block the value came from
            last = fn.bmap[b].term
            for (g, t) in branch_conditions(fn, last, depth + 1):
                out.append((g, t))


def _flag_alloca(fn, o):
    """operand that (through casts) loads a local scalar whose address is never handed out and that is assigned constants (and possibly computed values) -> (alloca, stores)"""
    j = fn.resolve(strip_casts(fn, o))
    if j is None or j.op != "load" or j["ptr"].get("k") != "inst":
        return None, None
    a = fn.insts[j["ptr"]["id"]]
    if a.op != "alloca" or a.get("param") or _escapes(fn, a):
        return None, None
    sts = [x for x in fn.all_insts() if x.op == "store" and x["ptr"].get("k") == "inst" and x["ptr"]["id"] == a.id]
    if not sts or not any(_flag_const(fn, x["val"]) is not None for x in sts):
        return None, None
    return a, sts


def _flag_const(fn, o):
    return 0 if o.get("k") == "null" else const_of(fn, o)


def _flag_holds(fn, o, accept, out, depth):
    """a verdict variable (`verdict = DEFERRED; if (a) { if (b) verdict = ADMITTED; }  switch (verdict)`): the variable having an accepted value means
    the one assignment of such a value ran last, so the guards of that assignment hold (as they would for the statement nested in those ifs)"""
    a, sts = _flag_alloca(fn, o)
    if a is None:
        return False
    # an assignment of a computed value (`clash = other;` next to `clash = NULL;`) may have produced any value
    ok = [x for x in sts if _flag_const(fn, x["val"]) is None or accept(_flag_const(fn, x["val"]))]
    if len(ok) != 1 or len(sts) < 2:
        return False
    for (g, t) in branch_conditions(fn, ok[0], depth + 1):
        out.append((g, t))
    return True


def flag_assignment(fn, cond, truth):
    """the one assignment of a verdict variable that must have run last when `cond` holds with `truth` (cond is `flag`, `flag == K`, `flag != K`, `ptr != NULL`)"""
    i = fn.resolve(strip_casts(fn, cond))
    if i is None:
        return None
    accept, o = None, None
    if i.op == "load":
        want = 1 if truth else 0
        accept, o = (lambda c: (c & 1) == want), cond
    elif i.op == "icmp" and i["pred"] in ("eq", "ne"):
        for x, y in ((i["a"], i["b"]), (i["b"], i["a"])):
            k = _flag_const(fn, y)
            if k is not None:
                eq = (i["pred"] == "eq") == truth
                accept, o = ((lambda c: c == k) if eq else (lambda c: c != k)), x
                break
    if accept is None:
        return None
    a, sts = _flag_alloca(fn, o)
    if a is None:
        return None
    ok = [x for x in sts if _flag_const(fn, x["val"]) is None or accept(_flag_const(fn, x["val"]))]
    return ok[0] if len(ok) == 1 and len(sts) >= 2 else None


def _flag_test(fn, cond, truth, out, depth):
    """cond is `flag`, `!flag`, `flag == K` or `flag != K` over a constant-assigned local"""
    i = fn.resolve(strip_casts(fn, cond))
    if i is None:
        return False
    if i.op == "load":
        want = 1 if truth else 0
        return _flag_holds(fn, cond, lambda c: (c & 1) == want, out, depth)
    if i.op == "icmp" and i["pred"] in ("eq", "ne"):
        for x, y in ((i["a"], i["b"]), (i["b"], i["a"])):
            k = _flag_const(fn, y)
            if k is not None:
                eq = (i["pred"] == "eq") == truth
                bits = fn.resolve(strip_casts(fn, x))
                return _flag_holds(fn, x, (lambda c: c == k) if eq else (lambda c: c != k), out, depth)
    return False


def branch_conditions(fn, inst, depth=0):
    """list of (guard, truth) pairs known to hold whenever inst executes: conditions of branch edges that dominate inst,
    plus what they imply through short-circuit (&&, ||) phis.  guard["cond"] is the condition operand."""
    out = []
    if depth > 4:
        return out
    for b in fn.blocks:
        t = b.term
        if t.op == "br" and "cond" in t.d and t["t"] != t["f"]:
            for s in (t["t"], t["f"]):
                if edge_dominates(fn, b.id, s, inst):
                    _implied(fn, t["cond"], s == t["t"], b.id, out, depth)
        elif t.op == "switch":
            for s in dict.fromkeys([l for _, l in t["cases"]] + [t["default"]]):
                if edge_dominates(fn, b.id, s, inst):
                    vals = {v for v, l in t["cases"] if l == s}
                    if s == t["default"]:
                        others = {v for v, l in t["cases"] if l != s}
                        _flag_holds(fn, t["cond"], lambda c: c not in others, out, depth)
                    else:
                        _flag_holds(fn, t["cond"], lambda c: c in vals, out, depth)
    return out


def conditions_at(fn, inst):
    """(guard, truth) pairs that hold when `inst` executes; for a store of a non-constant boolean they additionally include
    what the stored value being TRUE implies (`status = a() && b();` then means: where status is true, a() and b() were true)"""
    out = list(branch_conditions(fn, inst))
    if inst.op in ("store", "ret") and "val" in inst.d and const_of(fn, inst["val"]) is None:
        v = strip_casts(fn, inst["val"])
        vi = fn.resolve(v)
        if vi is not None and vi.op == "load":
            v = resolve_local(fn, v)
            vi = fn.resolve(v)
        if vi is not None and vi.op in ("phi", "icmp", "call", "xor"):
            _implied(fn, v, True, inst.bb.id, out, 0)
    return out


def guarded_here_or_at_callers(P, fn, inst, test, depth=0, seen=None):
    """test(fn, guard, truth) holds for some condition known at `inst`; or fn is a static helper and the same holds at every one of
    its call sites (two levels up at most): the guard may sit in the caller when the guarded statement was moved into a helper"""
    for (gd, truth) in conditions_at(fn, inst):
        if test(fn, gd, truth):
            return True
    if depth >= 2 or not fn.internal:
        return False
    seen = seen if seen is not None else set()
    if fn.name in seen:
        return False
    seen.add(fn.name)
    cs = P.callers().get(fn.name, [])
    return bool(cs) and all(guarded_here_or_at_callers(P, cf, ci, test, depth + 1, seen) for cf, ci in cs)


def cond_call(fn, cond, truth=True, depth=0):
    """condition operand -> (call inst, polarity) when it is a (possibly negated / compared-with-zero) call result"""
    i = fn.resolve(strip_casts(fn, cond))
    if i is None or depth > 6:
        return None, None
    if i.op == "call":
        return i, truth
    if i.op == "load":
        # 'const bool ok = f(x); ... if (ok && ...)': a local assigned exactly once, never address-taken
        o2 = resolve_local(fn, {"k": "inst", "id": i.id})
        j = fn.resolve(o2)
        if j is not None and j.id != i.id:
            return cond_call(fn, o2, truth, depth + 1)
        return None, None
    if i.op == "icmp" and const_of(fn, i["b"]) == 0 and i["pred"] in ("eq", "ne"):
        return cond_call(fn, i["a"], truth if i["pred"] == "ne" else not truth, depth + 1)
    if i.op == "xor" and const_of(fn, i["b"]) in (1, -1):
        return cond_call(fn, i["a"], not truth, depth + 1)
    return None, None


def strip_casts(fn, o):
    for _ in range(8):
        if o.get("k") != "inst":
            return o
        i = fn.insts[o["id"]]
        if i.op in ("zext", "sext", "trunc", "bitcast"):
            o = i["a"]
        else:
            return o
    return o


def field_path_of_ptr(P, fn, o, depth=0):
    """pointer operand -> 'Struct.field' of the last struct member selection (unit-correct), or None"""
    if o.get("k") != "inst" or depth > 6:
        return None
    i = fn.insts[o["id"]]
    if i.op == "bitcast":
        return field_path_of_ptr(P, fn, i["a"], depth + 1)
    if i.op == "getelementptr":
        for e in reversed(i["path"]):
            if "s" in e:
                st = P.struct_layout(fn, e["s"])
                fs = P.llvm_struct_fields(e["s"])
                if st and fs and e["f"] < len(st["elems"]):
                    off = st["elems"][e["f"]]["off"]
                    for (n, o2, s2, t2) in fs:
                        if o2 == off:
                            import re
                            return "%s.%s" % (re.sub(r"^(struct|union)\.", "", e["s"]), n)
                return "%s.#%d" % (e["s"], e["f"])
        return field_path_of_ptr(P, fn, i["base"], depth + 1)
    return None


def stores_to_field(P, field):
    """all store instructions (fn, inst) whose pointer selects Struct.field; also memcpy destinations are not included"""
    out = []
    for f in P.repo_functions():
        for i in f.all_insts():
            if i.op == "store" and field_path_of_ptr(P, f, i["ptr"]) == field:
                out.append((f, i))
    return out


def loads_of_field(P, field):
    out = []
    for f in P.repo_functions():
        for i in f.all_insts():
            if i.op == "load" and field_path_of_ptr(P, f, i["ptr"]) == field:
                out.append((f, i))
    return out


def const_of(fn, o):
    o = strip_casts(fn, o)
    if o.get("k") == "const":
        return o["v"]
    return None


def expr_key(fn, o, depth=0, copyprop=False):
    """structural key of a side-effect-free value expression (loads are keyed by their address expression; two equal keys
    denote the same value provided no store to that address lies between the two evaluations)"""
    k = o.get("k")
    if k == "const":
        return ("c", o["v"])
    if k == "null":
        return ("c", 0)
    if k == "arg":
        return ("arg", o["i"])
    if k == "global":
        return ("g", o["name"], o.get("off", 0))
    if k != "inst" or depth > 24:
        return ("?", o.get("id", o.get("k")))
    i = fn.insts[o["id"]]
    if i.op in ("zext", "sext", "trunc", "bitcast"):
        return expr_key(fn, i["a"], depth + 1, copyprop)
    if i.op == "alloca":
        return ("alloca", i.id)
    if i.op == "load":
        if copyprop and i["ptr"].get("k") == "inst":
            a = fn.insts[i["ptr"]["id"]]
            if a.op == "alloca":
                st = [s for s in fn.all_insts() if s.op == "store" and s["ptr"].get("k") == "inst" and s["ptr"]["id"] == a.id]
                if len(st) == 1 and st[0]["val"].get("k") != "arg":
                    return expr_key(fn, st[0]["val"], depth + 1, copyprop)
        return ("load", expr_key(fn, i["ptr"], depth + 1, copyprop))
    if i.op == "getelementptr":
        return ("gep", expr_key(fn, i["base"], depth + 1, copyprop), i["off"], tuple((x["scale"], expr_key(fn, x["v"], depth + 1, copyprop)) for x in i["idx"]))
    if i.op in ("add", "sub", "mul", "and", "or", "xor", "shl", "lshr", "ashr", "sdiv", "udiv", "srem", "urem"):
        return (i.op, expr_key(fn, i["a"], depth + 1, copyprop), expr_key(fn, i["b"], depth + 1, copyprop))
    if i.op == "icmp":
        return ("icmp", i["pred"], expr_key(fn, i["a"], depth + 1, copyprop), expr_key(fn, i["b"], depth + 1, copyprop))
    if i.op == "call":
        return ("call", i.id)
    return ("?", i.id)


def key_mentions(key, pred):
    if len(key) >= 2 and isinstance(key[0], str) and pred(key):
        return True
    if isinstance(key, tuple):
        return any(key_mentions(k, pred) for k in key if isinstance(k, tuple))
    return False


def resolve_local(fn, o):
    """if the operand is a load of a local that has exactly one store, return the stored operand (copy propagation); else the operand"""
    for _ in range(4):
        oo = strip_casts(fn, o)
        i = fn.resolve(oo)
        if i is None or i.op != "load" or i["ptr"].get("k") != "inst":
            return oo
        a = fn.insts[i["ptr"]["id"]]
        if a.op != "alloca":
            return oo
        st = [s for s in fn.all_insts() if s.op == "store" and s["ptr"].get("k") == "inst" and s["ptr"]["id"] == a.id]
        if len(st) != 1 or _escapes(fn, a):
            return oo
        o = st[0]["val"]
    return o


def _escapes(fn, a):
    """the alloca's address is used other than as the pointer of a load/store (passed to a call, stored, cast, indexed)"""
    c = getattr(fn, "_escape_cache", None)
    if c is None:
        c = fn._escape_cache = {}
    if a.id in c:
        return c[a.id]
    esc = False
    for i in fn.all_insts():
        if i.op in ("load", "alloca"):
            continue
        if i.op == "call" and i.callee in ("llvm.dbg.declare", "llvm.dbg.value", "llvm.lifetime.start.p0i8", "llvm.lifetime.end.p0i8"):
            continue
        for k, v in i.d.items():
            if i.op == "store" and k == "ptr":
                continue
            vs = v if isinstance(v, list) else [v]
            for x in vs:
                if isinstance(x, dict) and x.get("k") == "inst" and x.get("id") == a.id:
                    esc = True
                elif isinstance(x, (list, tuple)):
                    for y in x:
                        if isinstance(y, dict) and y.get("k") == "inst" and y.get("id") == a.id:
                            esc = True
    c[a.id] = esc
    return esc


def field_chain(P, fn, o, depth=0):
    """all 'Struct.field' selections on the way to a pointer (outermost first), following GEP chains and casts"""
    import re
    if o.get("k") != "inst" or depth > 8:
        return []
    i = fn.insts[o["id"]]
    if i.op == "bitcast":
        return field_chain(P, fn, i["a"], depth + 1)
    if i.op == "getelementptr":
        out = field_chain(P, fn, i["base"], depth + 1)
        for e in i["path"]:
            if "s" in e:
                st = P.struct_layout(fn, e["s"])
                fs = P.llvm_struct_fields(e["s"])
                name = None
                if st and fs and e["f"] < len(st["elems"]):
                    off = st["elems"][e["f"]]["off"]
                    for (n, o2, s2, t2) in fs:
                        if o2 == off:
                            name = "%s.%s" % (re.sub(r"^(struct|union)\.", "", e["s"]), n)
                out.append(name or "%s.#%d" % (e["s"], e["f"]))
        return out
    return []


def loop_exits_on_failed_lookup(P, fn):
    """[(branch inst, call inst)]: edges that leave a loop because a lookup (call returning a pointer) yielded NULL, other than the loop's own
    continuation test in its header (`while ((m = next()) != NULL)`).  Ending a walk over a container because one element has no counterpart drops
    the elements behind it; the skipping form is `continue`."""
    out = []
    for h, body in fn.loops().items():
        for b in body:
            if b == h:
                continue
            t = fn.bmap[b].term
            if t.op != "br" or "cond" not in t.d or t["t"] == t.get("f"):
                continue
            for truth, succ in ((True, t["t"]), (False, t["f"])):
                if succ in body:
                    continue
                # the successor must really leave the loop (not a latch outside the natural-loop body by construction)
                c = fn.resolve(t["cond"])
                if c is None or c.op != "icmp" or c["b"].get("k") != "null":
                    continue
                if (c["pred"] == "eq") != truth:
                    continue
                v = fn.resolve(resolve_local(fn, strip_casts(fn, c["a"])))
                if v is not None and v.op == "call" and v.callee in P.functions and P.functions[v.callee].blocks:
                    # leaving the function with a result ("not found -> return error") is not a truncated walk
                    if exists_path(fn, fn.bmap[succ].insts[0], lambda x: x.bb.id in body, None, include_start=True) is None and _returns_value_after(fn, succ):
                        continue
                    out.append((t, v))
    return out


def _returns_value_after(fn, bid):
    """the block (and what follows without branching) stores a constant result / returns: an error exit, not a `break`"""
    b = fn.bmap[bid]
    for _ in range(4):
        for i in b.insts:
            if i.op == "ret":
                return True
        if len(b.succ) != 1:
            return False
        b = fn.bmap[b.succ[0]]
    return False


def walkall_rule(chk, P, rid, only, floor):
    chk.rule(rid, "a walk over a container is not ended because one element's lookup failed (a NULL lookup result leaves a loop only as the loop's own continuation "
                  "test or as an error return): elements behind an unknown one are still processed")
    n = 0
    for fn in P.repo_functions():
        if not fn.blocks or not only(fn):
            continue
        nl = len(fn.loops())
        if not nl:
            continue
        n += nl
        bad = loop_exits_on_failed_lookup(P, fn)
        for (t, v) in bad:
            chk.violation(rid, fn.name, "break-on-null:%s" % v.callee, t.loc(), "the loop is left at line %d when %s (line %d) returns NULL: the remaining elements of the container are "
                          "never looked at, although an element without a counterpart should only be skipped" % (t.line, v.callee, v.line))
        if not bad:
            chk.ok(rid, nl, None)
    chk.floor(rid.lower().replace("-", "_") + "_loops", n, floor)


def control_conditions(fn, inst):
    """(Guard, truth) for every branch edge the instruction's block is control dependent on (classic definition: the block post-dominates the edge's
    target but not the branch).  Unlike conditions_at this also finds the two edges of `if (a && b) continue;` that both lead to the code after the if."""
    out = []
    X = inst.bb.id
    pd = fn.pdom()
    for b in fn.blocks:
        t = b.term
        if t.op != "br" or "cond" not in t.d or t["t"] == t.get("f"):
            continue
        if X in pd.get(b.id, ()) and X != b.id:
            continue            # X post-dominates the branch: not dependent on it
        for truth, s_ in ((True, t["t"]), (False, t["f"])):
            if s_ == X or X in pd.get(s_, ()):
                out.append((Guard(t["cond"], t), truth))
    return out
