"""Runs the lock engine over every root of the program and classifies roots into thread classes."""
import itertools
from collections import defaultdict

from . import locks
from .build import AnalysisBroken

ADMIN = ("bidib_start_pointer", "bidib_start_serial", "bidib_stop", "bidib_send_sys_reset")


def roots(world):
    P = world.P
    out = []
    for n in sorted(world.api):
        if n in P.functions:
            out.append((n, "ADMIN" if n in ADMIN else "API"))
    troots = P.thread_roots()
    if not troots:
        raise AnalysisBroken("no pthread_create start routines found")
    for n, f, i in troots:
        out.append((n, "THREAD:" + n))
    return out


def run(world, interesting=None):
    P = world.P
    E = locks.LockEngine(P, interesting=interesting)
    E.contracts, E.contract_unresolved = locks.parse_contracts(world.repo, E.locks)
    rl = roots(world)
    for n, label in rl:
        E.analyze_root(n, label)
    covered = {c.fn.name for c in E.ctxs.values()}
    # functions reachable from no root (callbacks handed to the user, unused helpers): analyse them on their own,
    # entered with the lockset their contract documents
    E.orphans = []
    for f in sorted(P.repo_functions(), key=lambda f: f.name):
        if f.name in covered:
            continue
        entry = ()
        con = E.contracts.get(f.name)
        if con:
            for l, m in sorted(con["require"].items()):
                entry = locks.ls_add(entry, l, m)
        E.analyze_root(f.name, "ORPHAN", entry)
        E.orphans.append(f.name)
        covered |= {c.fn.name for c in E.ctxs.values()}
    E.root_list = rl
    return E


def conflict(want, held):
    return not (want == "R" and held == "R")


def find_deadlock_cycles(edges, classes_of=None):
    """edges: dict (A, heldmode, B, wantmode) -> witnesses.  Returns list of cycles, each a list of edge keys.
    A cycle A1->A2->...->A1 is reported when for every i the wanted mode at A(i+1) conflicts with the mode in
    which the next thread holds A(i+1)."""
    adj = defaultdict(list)
    for (a, ma, b, mb) in edges:
        adj[a].append((a, ma, b, mb))
    nodes = sorted(adj)
    cycles = []
    seen_sets = set()

    def dfs(start, cur, path, visited):
        for e in adj.get(cur, ()):
            nxt = e[2]
            if nxt == start:
                cyc = path + [e]
                ok = True
                for i in range(len(cyc)):
                    e1 = cyc[i]
                    e2 = cyc[(i + 1) % len(cyc)]
                    if not conflict(e1[3], e2[1]):
                        ok = False
                        break
                if ok:
                    key = frozenset(cyc)
                    if key not in seen_sets:
                        seen_sets.add(key)
                        cycles.append(cyc)
            elif nxt not in visited and nxt > start and len(path) < 6:
                dfs(start, nxt, path + [e], visited | {nxt})

    for s in nodes:
        dfs(s, s, [], {s})
    return cycles


def single_threaded_edges(world, E):
    """Call edges (caller function name, call inst id) whose callee subtree runs while no internal thread exists and,
    by the README's exclusivity of start/stop, no application thread is inside the library:
      * calls in a start function that dominate the call which creates the threads,
      * calls in the stop function that lie behind every pthread_join (guard block of each join dominates, join unreachable)."""
    P = world.P
    out = set()
    why = {}
    creators = {f.name for f in P.repo_functions() if any(True for _ in f.calls("pthread_create"))}
    joiners = {f.name for f in P.repo_functions() if any(True for _ in f.calls("pthread_join"))}
    for n, label in E.root_list:
        if label != "ADMIN":
            continue
        f = P.functions[n]
        reach_create = [c for c in f.calls() if c.callee and (c.callee == "pthread_create" or c.callee in creators or
                                                              (c.callee in P.functions and P.reachable_functions([c.callee]) & creators))]
        for c in f.calls():
            if not c.callee or c in reach_create:
                continue
            if reach_create and all(f.dominates(c, t) for t in reach_create):
                out.add((f.name, c.id))
                why[(f.name, c.id)] = "before thread creation in %s" % f.name
        # join points: direct pthread_join calls and calls of helpers that join (e.g. a static 'join and forget the handle' helper)
        joins = [c for c in f.calls() if c.callee == "pthread_join" or (c.callee in P.functions and c.callee in joiners) or
                 (c.callee in P.functions and P.functions[c.callee].blocks and P.reachable_functions([c.callee]) & joiners)]
        join_ids = {c.id for c in joins}
        if joins:
            for c in f.calls():
                if not c.callee or c.id in join_ids:
                    continue
                ok = True
                for j in joins:
                    guards = j.bb.pred
                    if c.bb.id in f.reachable_from(j.bb.id) and not (c.bb.id == j.bb.id and c.idx < j.idx):
                        # c after j on some path: fine
                        pass
                    if j.bb.id in f.reachable_from(c.bb.id) and not (c.bb.id == j.bb.id and c.idx > j.idx):
                        ok = False   # a join can still follow c
                        break
                    if not any(g in f.dom().get(c.bb.id, ()) for g in guards) and not f.dominates(j, c) and not _join_loop_done(f, j, c):
                        ok = False
                        break
                if ok:
                    out.add((f.name, c.id))
                    why[(f.name, c.id)] = "after all joins in %s" % f.name
    return out, why


def _join_loop_done(f, j, c):
    """the join sits in a counted loop (`for (i = 0; i < N; i++) if (*h[i] != 0) join`) that has finished when c runs: c lies outside the loop, the loop head
    dominates c, every iteration passes the guard of the join, and the loop runs at least once (constant start below the constant bound)"""
    from . import rules
    for h, body in f.loops().items():
        if j.bb.id not in body or c.bb.id in body:
            continue
        if not (h == c.bb.id or h in f.dom().get(c.bb.id, ())):
            continue
        latches = [p for p in f.bmap[h].pred if p in body]
        guards = [g for g in j.bb.pred if g in body]
        if not guards or not all(any(g == l or g in f.dom().get(l, ()) for g in guards) for l in latches):
            continue
        t = f.bmap[h].term
        if t.op != "br" or "cond" not in t.d:
            continue
        cnd = f.resolve(t["cond"])
        if cnd is None or cnd.op != "icmp" or cnd["pred"] not in ("ult", "slt", "ne"):
            continue
        n = rules.const_of(f, cnd["b"])
        src = rules.load_source(f, cnd["a"])
        if n is None or not src or src[0] != "alloca":
            continue
        sts = [s for s in f.all_insts() if s.op == "store" and s["ptr"].get("k") == "inst" and s["ptr"]["id"] == src[1]]
        inits = [s for s in sts if s.bb.id not in body]
        if len(inits) == 1 and rules.const_of(f, inits[0]["val"]) is not None and rules.const_of(f, inits[0]["val"]) < n and f.dominates(inits[0], t):
            return True
    return False


def concurrent_contexts(world, E):
    """ctx keys reachable from a root without passing a single-threaded call edge, with the root labels reaching them"""
    st_edges, why = single_threaded_edges(world, E)
    labels = defaultdict(set)
    for rk, ls in E.roots.items():
        seen = set()
        stack = [rk]
        while stack:
            k = stack.pop()
            if k in seen:
                continue
            seen.add(k)
            labels[k] |= ls
            c = E.ctxs[k]
            for (ci, ck, _ls) in c.calls:
                if (c.fn.name, ci.id) in st_edges:
                    continue
                stack.append(ck)
    return labels, st_edges, why
