"""Property driver plumbing: obligations, violations vs. known findings, evidence and report files, exit codes."""
import json, os, sys, time, traceback

from . import build, model
from .build import AnalysisBroken, VERIF

KNOWN_FILE = os.path.join(VERIF, "known_findings.json")
# VERIF_OUT redirects evidence/ and reports/ (used only by the self-test sweeps, which analyse scratch copies of the repository in parallel)
OUT = os.environ.get("VERIF_OUT", VERIF)


def load_known():
    if not os.path.exists(KNOWN_FILE):
        return []
    with open(KNOWN_FILE) as f:
        return json.load(f)


class World:
    """Everything a property driver may need, built once per process from /repo's working tree."""

    def __init__(self, fixtures=()):
        self.repo = build.REPO
        self.fixtures = list(fixtures)
        self.json_path, self.facts = build.build_model(self.repo, extra_sources=self.fixtures)
        self.P = model.Program(self.json_path, repo_root=self.repo)
        self.norm = None
        nm = os.environ.get("VERIF_NORM")
        if nm:
            from . import inline
            try:
                ref = set(json.load(open(os.path.join(VERIF, "reference_functions.json")))["functions"])
            except Exception:
                ref = None
            if ref is None:
                raise AnalysisBroken("reference_functions.json missing")
            # canonical form: static helpers that did not exist at the pinned commit (introduced by a later edit) are inlined into their
            # callers, whatever the number of call sites; functions of the pinned tree keep their boundaries (rules are tied to them)
            self.norm = inline.normalise(self.P, max_sites=64, max_size=6000, only_new=ref)
        self._api = None
        self._macros = None
        self._lock = None

    @property
    def api(self):
        if self._api is None:
            self._api = build.public_api(self.repo)
        return self._api

    @property
    def macros(self):
        if self._macros is None:
            self._macros = build.macros(self.repo)[0]
        return self._macros

    def macro(self, name):
        v = self.macros.get(name)
        if v is None:
            raise AnalysisBroken("macro %s not found or not an integer constant" % name)
        return v

    def macro_names(self, prefix):
        return {k: v for k, v in self.macros.items() if k.startswith(prefix)}

    def lock_engine(self, interesting=None):
        from . import lockrun
        if self._lock is None or interesting is not None:
            e = lockrun.run(self, interesting)
            if interesting is not None:
                return e
            self._lock = e
        return self._lock

    def fn(self, name):
        f = self.P.functions.get(name)
        if f is None:
            raise AnalysisBroken("anchor function %s not found in the program" % name)
        return f


class Check:
    def __init__(self, pid, tier, level="other"):
        self.pid = pid
        self.tier = tier
        self.level = level
        self.t0 = time.time()
        self.seed = int(os.environ.get("VERIF_SEED", "0") or 0)
        self.rules = {}          # rule -> {"instances": n, "violations": n, "known": n, "abstained": n, "what": str}
        self.found = []          # violation dicts
        self.notes = []
        self.samples = []
        self.floors = {}
        self.canaries = {}
        self.assumptions = []
        self.extra = {}
        self.explanation = ""
        self.trusted = ["clang 14 front end and debug info", "LLVM-14 IR reader (tools/irdump.cc)", "the Python analyses under /verif/vf",
                        "rule tables in /verif/vf (documented in DESIGN.md)"]

    # -- bookkeeping
    def rule(self, name, what=""):
        r = self.rules.setdefault(name, {"instances": 0, "violations": 0, "known": 0, "abstained": 0, "what": what})
        if what and not r["what"]:
            r["what"] = what
        return r

    def ok(self, rule, n=1, sample=None):
        self.rule(rule)["instances"] += n
        if sample is not None and sum(1 for s in self.samples if s.get("rule") == rule) < 4:
            s = {"rule": rule}
            s.update(sample if isinstance(sample, dict) else {"instance": sample})
            self.samples.append(s)

    def abstain(self, rule, why, where=""):
        self.rule(rule)["abstained"] += 1
        self.notes.append({"rule": rule, "abstained": why, "where": where})

    def violation(self, rule, function, obj, where, msg, **detail):
        """an obligation that failed: counted as an instance, compared with the known-findings file at finish"""
        self.rule(rule)["instances"] += 1
        v = {"property": self.pid, "rule": rule, "key": {"function": function, "object": obj}, "where": where, "msg": msg}
        v.update(detail)
        # de-duplicate on the key
        for o in self.found:
            if o["rule"] == rule and o["key"] == v["key"]:
                o.setdefault("also", []).append(where)
                self.rule(rule)["instances"] -= 1
                return
        self.found.append(v)

    def note(self, rule, msg, where=""):
        self.notes.append({"rule": rule, "note": msg, "where": where})

    def floor(self, name, found, required):
        # the figures in the drivers are today's counts rounded down; a refactoring that merges cases, helpers or files must not turn a
        # check into 'analysis broken', so the armed floor is 60% of the figure (at least 1): it still catches a rule that lost its instances
        required = max(1, (required * 6) // 10)
        self.floors[name] = [found, required]
        if found < required:
            raise AnalysisBroken("floor %s: found %d, required >= %d (a rule that matches nothing must not pass)" % (name, found, required))

    def canary(self, name, detected):
        self.canaries[name] = bool(detected)
        if not detected:
            raise AnalysisBroken("canary %s was not detected: the rule is blind" % name)

    # -- finish
    def finish(self):
        known = [k for k in load_known() if k.get("property") == self.pid]
        lines = []
        new = []
        n_known = 0
        for v in self.found:
            match = None
            for k in known:
                if k.get("status") == "known" and k.get("rule") == v["rule"] and k.get("key") == v["key"]:
                    match = k
                    break
            if match:
                n_known += 1
                self.rule(v["rule"])["known"] += 1
                lines.append("KNOWN-FINDING: property=%s %s %s (%s): %s" % (self.pid, v["rule"], v["key"]["function"], v["key"]["object"], match.get("what", v["msg"])))
                v["known"] = True
            else:
                self.rule(v["rule"])["violations"] += 1
                new.append(v)
        rep_dir = os.path.join(OUT, "reports", self.pid)
        if new:
            os.makedirs(rep_dir, exist_ok=True)
        for n, v in enumerate(new):
            path = os.path.join(rep_dir, "%d.json" % n)
            v["rerun"] = "./vcheck %s --tier %s" % (self.pid, self.tier)
            with open(path, "w") as f:
                json.dump(v, f, indent=1, default=str)
            lines.append("VIOLATION property=%s replay=%s" % (self.pid, path))
            lines.append("  %s %s: %s [%s / %s]" % (v["rule"], v["where"], v["msg"], v["key"]["function"], v["key"]["object"]))
        obligations = sum(r["instances"] for r in self.rules.values())
        discharged = obligations - len(new) - n_known
        cov = {
            "explanation": self.explanation,
            "obligations": obligations,
            "discharged": discharged,
            "known_findings": n_known,
            "abstained": sum(r["abstained"] for r in self.rules.values()),
            "per_rule": self.rules,
            "floors": self.floors,
            "canaries": self.canaries,
            "samples": self.samples[:40],
            "notes": self.notes[:80],
            "checker_cmd": "./vcheck %s --tier %s" % (self.pid, self.tier),
            "trusted_base": self.trusted,
            "exhaustive": True,
        }
        cov.update(self.extra)
        ev = {"property_id": self.pid, "tier": self.tier, "seed": self.seed, "level": self.level, "coverage": cov,
              "assumptions": self.assumptions, "wall_s": round(time.time() - self.t0, 2), "violations": len(new)}
        os.makedirs(os.path.join(OUT, "evidence"), exist_ok=True)
        with open(os.path.join(OUT, "evidence", "%s.json" % self.pid), "w") as f:
            json.dump(ev, f, indent=1, default=str)
        print("%s %s: %d obligations over %d rules, %d discharged, %d known findings, %d violations, %.1fs" % (
            self.pid, self.tier, obligations, len(self.rules), discharged, n_known, len(new), time.time() - self.t0))
        for name, r in sorted(self.rules.items()):
            print("  rule %-14s instances=%-4d violations=%d known=%d abstained=%d  %s" % (name, r["instances"], r["violations"], r["known"], r["abstained"], r["what"]))
        for l in lines:
            print(l)
        return 1 if new else 0


def seeded_selftest(chk, pid):
    """thorough tier: every seeded change of this property that the check detected on the pinned tree and that still applies to the
    current working tree is applied to a scratch copy of it; the property's rules, run on the copy, must report a violation.
    A change that is no longer reported means the rule lost its teeth on this tree: analysis broken (exit 2), never a pass."""
    import glob, shutil, subprocess
    base = os.path.join("/tmp", "vfthorough", pid)
    shutil.rmtree(base, ignore_errors=True)
    res = {}
    blind = []
    try:
        for d in sorted(glob.glob(os.path.join(VERIF, "seeded", "*", ""))):
            try:
                meta = json.load(open(os.path.join(d, "meta.json")))
            except Exception:
                continue
            mid = meta.get("id")
            if pid not in (meta.get("detected_by") or []):
                continue
            wd = os.path.join(base, mid)
            repo = os.path.join(wd, "repo")
            os.makedirs(wd)
            r = subprocess.run(["rsync", "-a", "--exclude", "_build", "--exclude", ".git", build.REPO.rstrip("/") + "/", repo + "/"], capture_output=True, text=True)
            if r.returncode != 0:
                res[mid] = "skipped: copy failed"
                continue
            r = subprocess.run(["git", "apply", "--whitespace=nowarn", os.path.join(d, "patch.diff")], cwd=repo, capture_output=True, text=True)
            if r.returncode != 0:
                res[mid] = "skipped: does not apply to the current tree"
                shutil.rmtree(wd, ignore_errors=True)
                continue
            env = dict(os.environ, VERIF_REPO=repo, VERIF_OUT=os.path.join(wd, "out"), VERIF_SELFTEST="1")
            o = subprocess.run([os.path.join(VERIF, "vcheck"), pid, "--tier", "quick"], cwd=VERIF, env=env, capture_output=True, text=True)
            rules_hit = sorted({l.split()[0] for l in o.stdout.splitlines() if l.startswith("  C")})
            if o.returncode == 1:
                res[mid] = "detected: " + ",".join(rules_hit)
            else:
                res[mid] = "NOT detected (exit %d)" % o.returncode
                blind.append(mid)
            shutil.rmtree(wd, ignore_errors=True)
    finally:
        shutil.rmtree(base, ignore_errors=True)
    chk.extra["seeded_selftest"] = res
    chk.rule("%s-SELFTEST" % pid, "seeded changes of this property that apply to the current tree are reported when applied to a scratch copy of it")
    for mid, r in res.items():
        if r.startswith("detected"):
            chk.ok("%s-SELFTEST" % pid, 1, {"seeded": mid, "result": r})
    if blind:
        raise AnalysisBroken("seeded change(s) %s apply to the current tree but are no longer reported: the rules lost their teeth" % ", ".join(blind))


def main(argv=None):
    """runs the property on the program as written; if that does not end with exit 0, the same rules are run on the canonical form in which
    static helpers that did not exist at the pinned commit are inlined (a semantics-preserving normalisation that undoes extract-function refactorings).  The
    property's structural conditions hold if they hold on either form; a violation is reported only when both forms fail."""
    import subprocess, shutil, tempfile, io, contextlib
    if os.environ.get("VERIF_NORM") or os.environ.get("VERIF_NO_FALLBACK"):
        return main1(argv)
    buf = io.StringIO()
    with contextlib.redirect_stdout(buf):
        rc = main1(argv)
    out0 = buf.getvalue()
    args = list(argv if argv is not None else sys.argv[1:])
    if rc == 0 or "--explain" in args:
        sys.stdout.write(out0)
        return rc
    pid = args[0].upper()
    tmp = tempfile.mkdtemp(prefix="vfnorm_")
    try:
        env = dict(os.environ, VERIF_NORM="1", VERIF_OUT=tmp)
        o = subprocess.run([os.path.join(VERIF, "vcheck")] + args, cwd=VERIF, env=env, capture_output=True, text=True)
        if o.returncode == 0:
            evp = os.path.join(tmp, "evidence", "%s.json" % pid)
            ev = json.load(open(evp))
            ev["coverage"]["normalisation"] = ("decided on the canonical form: every static helper that does not exist at the pinned commit inlined into its callers "
                                               "(semantics-preserving; vf/inline.py). On the program as written the rule shapes were not matched: "
                                               + " | ".join(l.strip() for l in out0.splitlines() if l.startswith(("  C", "ANALYSIS")))[:600])
            os.makedirs(os.path.join(OUT, "evidence"), exist_ok=True)
            json.dump(ev, open(os.path.join(OUT, "evidence", "%s.json" % pid), "w"), indent=1, default=str)
            shutil.rmtree(os.path.join(OUT, "reports", pid), ignore_errors=True)
            sys.stdout.write(o.stdout)
            print("NOTE property=%s decided on the canonical form (static helpers introduced after the pinned commit inlined); the unnormalised run did not match the rule shapes" % pid)
            return 0
        # both forms fail: report the form with fewer violations (shapes that only the extraction of a helper hides are not violations)
        n0 = sum(1 for l in out0.splitlines() if l.startswith("VIOLATION "))
        n1 = sum(1 for l in o.stdout.splitlines() if l.startswith("VIOLATION "))
        if rc == 1 and o.returncode == 1 and 0 < n1 < n0:
            for sub in ("evidence/%s.json" % pid, "reports/%s" % pid):
                src, dst = os.path.join(tmp, sub), os.path.join(OUT, sub)
                if os.path.isdir(src):
                    shutil.rmtree(dst, ignore_errors=True)
                    shutil.copytree(src, dst)
                elif os.path.exists(src):
                    os.makedirs(os.path.dirname(dst), exist_ok=True)
                    shutil.copy(src, dst)
            sys.stdout.write(o.stdout.replace(tmp, OUT))
            print("NOTE property=%s reported on the canonical form (static helpers introduced after the pinned commit inlined): %d of the %d reports on the program as written come from the helper extraction only" % (pid, n0 - n1, n0))
            return 1
    finally:
        shutil.rmtree(tmp, ignore_errors=True)
    sys.stdout.write(out0)
    return rc


def main1(argv=None):
    import argparse, importlib
    ap = argparse.ArgumentParser()
    ap.add_argument("prop")
    ap.add_argument("--tier", default=os.environ.get("VERIF_TIER", "quick"), choices=["quick", "thorough"])
    ap.add_argument("--explain")
    a = ap.parse_args(argv)
    if a.explain:
        print(open(a.explain).read())
        return 0
    pid = a.prop.upper()
    try:
        mod = importlib.import_module("vf.props.%s" % pid.lower())
    except ImportError as e:
        print("no driver for %s: %s" % (pid, e))
        return 2
    try:
        chk = Check(pid, a.tier, getattr(mod, "LEVEL", "other"))
        w = World(fixtures=getattr(mod, "FIXTURES", ()))
        chk.extra["units"] = w.facts["n_units"]
        chk.extra["build_s"] = w.facts["build_s"]
        chk.floor("units", w.facts["n_units"], 30)
        chk.floor("functions", len(w.P.repo_functions()), 340)
        mod.run(chk, w)
        if a.tier == "thorough" and not os.environ.get("VERIF_SELFTEST"):
            known = [k for k in load_known() if k.get("property") == pid and k.get("status") == "known"]
            unlisted = [v for v in chk.found if not any(k.get("rule") == v["rule"] and k.get("key") == v["key"] for k in known)]
            if not unlisted:
                # (a tree that already violates the property is reported as such; the self-test is for trees that look clean)
                seeded_selftest(chk, pid)
        return chk.finish()
    except AnalysisBroken as e:
        print("ANALYSIS-BROKEN property=%s: %s" % (pid, e))
        return 2
    except Exception:
        traceback.print_exc()
        print("ANALYSIS-BROKEN property=%s: internal error" % pid)
        return 2
